#!/venv/bin/python
"""Regenerate /verif/MANIFEST.json from the rule modules that exist (development tool)."""
import json, os, sys
sys.path.insert(0, "/verif")
PROPS = [json.loads(l) for l in open("/verif/properties.jsonl")]
RULES = "/verif/sa/rules"

LEVEL_TEXT = {
 "C01": ("other", "Static premises of a written error-bound lemma: formula as rational function with rounding count (abstract domain), one float->timedelta conversion, accumulate/query term patterns, every stamp site = query at own tick, resolution and tempo-map sources, tempo decode, index function schema. Decides the structural clauses for every map and tick at once; the numeric constant follows from the IEEE model on paper.", "4/C01"),
 "C02": ("other", "Loop-schema membership (group-adjacent S1 with exact affine offsets), closed-world lane store, folded Note/NoteTrackIndex tables against the file format, dispatcher schema S3, automata inclusion for the note recogniser. The whole statement is structural.", "4/C02"),
 "C03": ("other", "Folded lane predicate (true set = {0..4}), slot-store term rule, decision tables of refinement and longest-sustain over their own atoms, end-time wiring term match, max-over-end_timestamp aggregator.", "4/C03"),
 "C04": ("other", "Complete decision table (2^6 valuations) of the HOPO function extracted by path enumeration over uninterpreted atoms and compared with the specification; each atom's definition checked on the term (<=, round(res/3) with folded divisor, !=, chord folded over 32 notes); call-site wiring.", "4/C04"),
 "C05": ("other", "Half-open atoms term-matched; star-power lookup matched against first-hit scan schema S2; tail decision table; cursor qualifier threading through the grouping loop.", "4/C05"),
 "C06": ("other", "Folded 40-row header table compared with the file-format table; parser/tag agreement; required-section guard dominance; framing loop schema S5 with affine body range; splitlines / utf-8-sig constants; header recogniser language and capture exactness by automata; every partial operation of the reading / framing / routing code discharged (the missing-section ValueError cannot turn into an internal error).", "4/C06"),
 "C07": ("proof", "Automata-theoretic proof obligations over the shipped N/S/E recognisers for all strings: Canon ⊆ L ⊆ Upper, capture exactness under backtracking priority, group contents ⊆ conversion domains; closed-world conversion chain.", "4/C07"),
 "C08": ("proof", "Same obligations for B/TS/A plus: tempo = one correctly rounded int(raw)/1000 reaching the constructor and a validator that cannot reject it; 2**l / default-4 numerals; microsecond anchors.", "4/C08"),
 "C09": ("proof", "Effective language of each global-event kind under first-match-wins equals the specification language (automata difference/intersection), capture exactness, dispatcher schema and order read from the dispatch site.", "4/C09"),
 "C10": ("proof", "276 pairwise intersections of the 24 field recognisers empty; 24 canonical inclusions and capture-exactness checks (priority dependent); agreement table field <-> key <-> literal <-> Pascal name <-> conversion <-> type; defaults table; per-field flow by specialising the setter/scan helpers on each constant field name (one unconditional store under the own key from the first matching line, MissingRequiredField exactly for an absent Resolution), independent of how the helpers are cut.", "4/C10"),
 "C11": ("other", "Hint-independence lemma premises: exact rejected sets of both start checks dominating every return, scan schema S2, query a function of (tick, index) only, hint sources and stored cursors by term equality at all hinted sites.", "4/C11"),
 "C12": ("other", "Monotonicity abstract domain over the seconds formula under guard-established signs; sibling agreement of accumulate and query terms; one conversion mode; order guard; tick-only dependence; purity of the public queries.", "4/C12"),
 "C13": ("other", "Decision table of the selection filter; taint of the selection parameter; skipped bodies never consumed; own-lines/own-key wiring; track builder effect-free on shared state.", "4/C13"),
 "C14": ("proof", "Dispatcher = per-item dispatch schema S3 (exactly one append or one warning per line, no cross-line state); pairwise disjointness of recogniser languages inside sync and instrument sections by automata intersection; totality of conversions on claimed lines.", "4/C14"),
 "C15": ("other", "Each validator's rejected set equals the untrusted set (decision tables over comparison atoms), guards dominate every result, validators reached on every path from Chart.from_file, ValueError not swallowed on any chain (call graph + handler analysis), times only through the guarded formula.", "4/C15"),
 "C16": ("other", "Decision table of bound resolution (None/int/timedelta x start/end), closed-interval count term, duration and guard sets, KeyError->ValueError conversion scope, default end = last-note end.", "4/C16"),
 "C17": ("other", "Effect analysis over the parse-reachable call graph and the whole package: no write outlives a call except memo tables of pure immutable-returning functions; fresh accumulators; no ambient reads; no iteration over unordered collections on the result path; every class a parsed chart contains renders by value (no address-printing object.__repr__).", "4/C17"),
 "C18": ("other", "May-raise analysis: explicit raises escaping the entry points ⊆ documented set; unreachable branches proved; partial operations discharged by a closed idiom list; rendering methods total for their field types.", "4/C18"),
 "C19": ("other", "Frozen-ness of every event/track class reachable from Chart; read-only API has no write effect; no auto-inserting mapping escapes; dict-based __eq__/__repr__ never meets a lazily written attribute.", "4/C19"),
 "C20": ("model_checking", "Exhaustive exploration of an abstract import machine (CPython import semantics restricted to what can fail) over all first-imports / all import sequences and deferred imports; syntactic side conditions for order-independent bindings.", "4/C20"),
}
NOTE = {
 "C20": "abstract import machine is a model of CPython's import system (validated against real interpreters in selftest/importsim_validate.py); callee following depth 6",
}
DEFAULT_NOTE = "decides the structural clauses named in the level text on the current source for all inputs at once; trusts CPython/stdlib semantics listed in the evidence file's trusted_base; a construct outside the verified forms is reported as unproven (exit 1), a vanished public anchor as ANALYSIS-ERROR (exit 2)"
TECH = {
 "C01": "static analysis: term/provenance patterns + rounding-count abstract domain + call-graph wiring",
 "C02": "static analysis: loop-schema recognition with affine index domain + constant folding of enum tables + regex automata",
 "C03": "static analysis: decision-table extraction + folded predicate tables + term patterns",
 "C04": "static analysis: decision-table extraction over uninterpreted atoms + constant folding",
 "C05": "static analysis: loop-schema recognition + decision table + qualifier (cursor) flow",
 "C06": "static analysis: constant folding vs format table + framing-loop schema + regex automata",
 "C07": "static analysis: regex automata (inclusion, capture exactness under priority) + term-matched conversion chain",
 "C08": "static analysis: regex automata + rounding-count domain on the tempo term",
 "C09": "static analysis: regex automata (effective languages under first-match-wins) + dispatch schema",
 "C10": "static analysis: regex automata (pairwise disjointness, capture exactness) + agreement tables",
 "C11": "static analysis: guard-set decision tables + scan-schema recognition + hint provenance",
 "C12": "static analysis: monotonicity abstract domain + sibling term agreement",
 "C13": "static analysis: decision table + taint/dataflow of the selection + effect summaries",
 "C14": "static analysis: dispatch-schema recognition + regex automata disjointness",
 "C15": "static analysis: guard-set decision tables + dominance + call-graph reachability and handler (escape) analysis",
 "C16": "static analysis: decision-table extraction + term patterns",
 "C17": "static analysis: interprocedural effect (write/ambient-read) analysis over the resolved call graph",
 "C18": "static analysis: may-raise/escape analysis + partial-operation discharge idioms",
 "C19": "static analysis: class-model (dataclass semantics) + effect analysis + auto-insert qualifier flow",
 "C20": "static analysis: abstract import machine, exhaustive exploration of import orders",
}
built = sorted(f[:-3] for f in os.listdir(RULES) if f.startswith("C") and f.endswith(".py") and len(f) == 6)
skip = set(a for a in sys.argv[1:])
checks = []
na = []
for p in PROPS:
    pid = p["id"]
    if pid in built and pid not in skip:
        cat, text, ref = LEVEL_TEXT[pid]
        checks.append({
            "property_id": pid,
            "quick_cmd": f"./check {pid} --tier quick",
            "thorough_cmd": f"./check {pid} --tier thorough",
            "evidence_file": f"/verif/evidence/{pid}.json",
            "replay_cmd_template": f"./check {pid} --explain {{path}}",
            "engine": "sa",
            "level_claimed": {"category": cat, "text": text, "design_ref": f"DESIGN.md section {ref}"},
            "level_note": NOTE.get(pid, DEFAULT_NOTE),
            "technique": TECH[pid] + "; plus the shared premises of the argument (file-to-parser chain, cited properties' premises) and "
                                     "the resolved-program model premises (single binding, modelled decorators, no resolution hooks, operator and "
                                     "constructor tables) checked on the whole package",
        })
    else:
        na.append({"property_id": pid, "reason": "check not built yet (framework under construction; DESIGN.md section 8)"})
m = {
 "version": 1,
 "setup_cmd": "/venv/bin/python -B /verif/sa/selfdiag.py",
 "hooks": {"guard": "CHARTPARSE_VERIF", "enable": "none needed: static checks read /repo's source text; nothing is built or instrumented",
           "baseline_off_cmd": "cd /repo && /venv/bin/python -m pytest -ra -q -p no:cacheprovider --timeout=900 --continue-on-collection-errors",
           "source_commits": [], "add_only": True},
 "engines": [{"name": "sa", "path": "/verif/sa", "serves_properties": [c["property_id"] for c in checks],
              "kind_free_text": "repository-specific static analyser: resolved source model, provenance terms, decision tables, loop schemas, effect and escape analysis, regex automata, abstract import machine (stdlib only, never imports /repo)"}],
 "checks": checks,
 "notes": "All checks are static: they parse /repo/chartparse/*.py on every run and never import or execute it. Exit 0 held, 1 VIOLATION, 2 ANALYSIS-ERROR. Four genuine defects were repaired in /repo with 'fix:' commits acfb35c, d418283, 5e46fa8, 2dcbb94 (see known_findings.json, DESIGN.md A.1). selftest/ holds development tools (seeded-change runner, engine validators) that are not MANIFEST commands.",
 "not_applicable": na,
}
json.dump(m, open("/verif/MANIFEST.json", "w"), indent=1)
print("checks:", [c["property_id"] for c in checks]); print("n/a:", [x["property_id"] for x in na])
