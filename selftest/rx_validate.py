#!/venv/bin/python
"""Validation of the ``sa.rx`` model against the real ``re`` engine.

This validates the *analyser's model of the stdlib* (ordered threads with
first-visit de-duplication, hypothesis flags for ``$``, atom partition), not any
property of the repository: only regex constants are fed to ``re``.

(a) ``simulate`` vs ``re``: for every shipped pattern and a set of mutated /
    synthetic variants, three string sets are compared (match / no match, span
    of the whole match and of every group):
      exh   all strings up to a length L0 over the atom representatives of the
            pattern plus one alternate member per atom (non-ASCII digits /
            spaces, control characters ...) -- independent of the model;
      live  all strings up to a (larger) length L1 all of whose proper prefixes
            are *live* in the pattern's DFA (can still be extended to a match),
            i.e. every accepted string up to L1 and every minimal dead string;
      edit  all strings within edit distance 2 of hand-written seed lines.
(b) verdicts of ``included`` / ``disjoint`` / ``equivalent`` / ``capture_exact`` /
    ``group_contents_included`` vs brute force with the real engine over bounded
    string sets; a returned witness must be a real counterexample under ``re``
    and no brute-force counterexample may be shorter; a ``None`` verdict must not
    be contradicted; expected verdicts of the known obligations are asserted.
(c) prints ``RX-VALIDATE ok strings=<n> patterns=<n> disagreements=0`` and exits 0,
    or prints the disagreements and exits 1.

``validate(patterns, max_len)`` is the reusable entry point (exhaustive set only).
"""
from __future__ import annotations

import itertools
import multiprocessing as mp
import os
import re
import sys
import time

sys.path.insert(0, os.path.dirname(os.path.dirname(os.path.abspath(__file__))))

from sa import rx  # noqa: E402
from sa.rx import Pattern  # noqa: E402

# --------------------------------------------------------------------------- corpus

N = r'^\s*?(\d+?) = N ([0-7]) (\d+?)\s*?$'
S = r'^\s*?(\d+?) = S 2 (\d+?)\s*?$'
E = r'^\s*?(\d+?) = E ([^ ]*?)\s*?$'
TS = r'^\s*?(\d+?) = TS (\d+?)(?: (\d+?))?\s*?$'
B = r'^\s*?(\d+?) = B (\d+?)\s*?$'
A = r'^\s*?(\d+?) = A (\d+?)$'
TEXT = r'^\s*?(\d+?) = E \"([^"]*?)\"\s*?$'
SECTION = r'^\s*?(\d+?) = E \"section (.*?)\"\s*?$'
LYRIC = r'^\s*?(\d+?) = E \"lyric (.*?)\"\s*?$'
HEADER = r'^\[(.+?)\]$'
NAME = r'^\s*?Name = \"?(.+?)\"?\s*?$'
RESOLUTION = r'^\s*?Resolution = \"?(\d+?)\"?\s*?$'
PLAYER2 = r'^\s*?Player2 = \"?([^"]+?)\"?\s*?$'


def field(name, value=r'.+?', prefix=r'^\s*?'):
    return prefix + name + r' = \"?(' + value + r')\"?\s*?$'


SEEDS = {
    "N": [" 1 = N 7 0 \n"], "S": [" 1 = S 2 0 \n"], "E": [" 1 = E ab \n", "1 = E a b"],
    "TS": ["1 = TS 4 3\n", " 1 = TS 4 "], "B": [" 1 = B 90 \n"], "A": [" 1 = A 90\n"],
    "TEXT": [' 1 = E "a b" \n'], "SECTION": ['1 = E "section a"b" \n'],
    "LYRIC": ['1 = E "lyric a" "\n'], "HEADER": ["[a]b]\n"],
    "NAME": [' Name = "a"b" \n', "Name = ab "], "RESOLUTION": [' Resolution = "19" \n'],
    "PLAYER2": [' Player2 = "ab" \n', "Player2 = a b"],
    "SYN": [],
}

# (regex, method, seed family)
SHIPPED = [
    (N, "match", "N"), (S, "match", "S"), (E, "match", "E"), (TS, "match", "TS"),
    (B, "match", "B"), (A, "match", "A"), (TEXT, "match", "TEXT"),
    (SECTION, "match", "SECTION"), (LYRIC, "match", "LYRIC"), (HEADER, "match", "HEADER"),
    (NAME, "match", "NAME"), (RESOLUTION, "match", "RESOLUTION"), (PLAYER2, "match", "PLAYER2"),
]

VARIANTS = [
    (r'^\s*(\d+) = N ([0-7]) (\d+)\s*$', "match", "N"),              # all greedy
    (r'^\s*?(\d+?) = N ([0-7]) (\d+?)\s*?', "match", "N"),           # dropped $
    (r'\s*?(\d+?) = N ([0-7]) (\d+?)\s*?$', "search", "N"),          # dropped ^, search
    (N, "fullmatch", "N"),
    (r'^\s*?(\d+?) = N (\d) (\d+?)\s*?$', "match", "N"),             # widened class
    (r'^\s*?(\d+?) = E ([^ ]*)\s*?$', "match", "E"),                 # greedy value
    (r'^\s*?(\d+?) = E (.*?)\s*?$', "match", "E"),                   # widened value
    (r'^\s*?(\d+?) = TS (\d+?)(?: (\d+?))??\s*?$', "match", "TS"),   # lazy optional
    (TS, "fullmatch", "TS"),
    (r'\s*?(\d+?) = A (\d+?)$', "search", "A"),
    (r'^\s*?(\d+?) = E \"([^"]*)\"\s*?$', "match", "TEXT"),
    (r'^\s*?(\d+?) = E \"lyric (.*)\"\s*?$', "match", "LYRIC"),
    (r'\s*?(\d+?) = E \"section (.*?)\"\s*?$', "search", "SECTION"),
    (r'^\[(.+)\]$', "match", "HEADER"),
    (r'^\[(.+?)\]', "match", "HEADER"),
    (r'\[(.+?)\]$', "search", "HEADER"),
    (field("Name", r'.+'), "match", "NAME"),
    (field("Name", prefix=""), "search", "NAME"),
    (NAME, "fullmatch", "NAME"),
    (field("Player2", r'[^"]+'), "match", "PLAYER2"),
    (r'^\s*?Resolution = \"?(\d+?)\"?\s*?\Z', "match", "RESOLUTION"),
    # synthetic patterns exercising the generic constructs of the model
    (r'(a|ab)(c|bcd)(d*)', "search", "SYN"),
    (r'(?:(a)|b)*?c$', "match", "SYN"),
    (r'x{2,4}?(y{1,3})(y*)', "match", "SYN"),
    (r'(a+?)(b*)(?:c|(d))$\n?', "fullmatch", "SYN"),
    (r'\A(?:(a)|(b)|\s){1,3}$\s(\S*)\Z', "match", "SYN"),
    (r'(a*?)(?:$|(b))(\n?)', "search", "SYN"),
    (r'(?:(a)b?|(\d)[^\D5-9]){2,}(.??)', "search", "SYN"),
]

BUDGET_EXH = 200_000
BUDGET_LIVE = 450_000
BUDGET_EDIT = 60_000

# --------------------------------------------------------------------------- helpers

_COMPILED = {}


def compiled(regex):
    c = _COMPILED.get(regex)
    if c is None:
        c = _COMPILED[regex] = re.compile(regex)
    return c


def real_spans(regex, method, s):
    m = getattr(compiled(regex), method)(s)
    if m is None:
        return None
    return tuple(m.span(i) if m.group(i) is not None else None for i in range(m.re.groups + 1))


def alphabet_ext(part):
    """Representatives plus, per atom, its member with the largest code point."""
    chars = list(part.reps)
    for cl in part.classes:
        alt = max(cl)
        if alt not in chars:
            chars.append(alt)
    return chars


def exh_length(nchars, budget):
    L, total = 0, 1
    while total + nchars ** (L + 1) <= budget:
        L += 1
        total += nchars ** L
    return max(L, 1)


def live_states(dfa):
    rev = [[] for _ in range(dfa.nstates)]
    for s, row in enumerate(dfa.trans):
        for t in set(row):
            rev[t].append(s)
    live = [False] * dfa.nstates
    todo = [s for s in range(dfa.nstates) if dfa.accept[s]]
    for s in todo:
        live[s] = True
    while todo:
        t = todo.pop()
        for s in rev[t]:
            if not live[s]:
                live[s] = True
                todo.append(s)
    return live


def live_length(dfa, live, budget, cap=40):
    """Largest L such that the number of strings of length <= L whose proper
    prefixes are all live stays within ``budget``."""
    cnt = {dfa.start: 1}
    total, L = 1, 0
    while L < cap:
        nxt = {}
        for s, c in cnt.items():
            if not live[s]:
                continue
            for t in dfa.trans[s]:
                nxt[t] = nxt.get(t, 0) + c
        level = sum(nxt.values())
        if level == 0 or total + level > budget:
            break
        total += level
        cnt = nxt
        L += 1
    return max(L, 1)


def edit_neighbourhood(seed, chars, budget):
    def one(s):
        out = set()
        for i in range(len(s) + 1):
            for c in chars:
                out.add(s[:i] + c + s[i:])
            if i < len(s):
                out.add(s[:i] + s[i + 1:])
                for c in chars:
                    out.add(s[:i] + c + s[i + 1:])
        return out
    d1 = one(seed)
    out = {seed} | d1
    for s in sorted(d1):
        if len(out) >= budget:
            break
        out |= one(s)
    return sorted(out)[:budget]


class Comparer:
    """Compares the model with ``re`` for one (regex, method)."""

    def __init__(self, regex, method):
        self.regex, self.method = regex, method
        self.p = Pattern(regex, method)
        self.part = rx.partition_of(self.p)
        self.st = rx.stepper(self.p, self.part)
        self.fn = getattr(compiled(regex), method)
        self.ng = self.p.ngroups
        self.n = 0
        self.matches = 0
        self.bad = []

    def check(self, s, regs):
        self.n += 1
        m = self.fn(s)
        if m is None:
            real = None
        else:
            self.matches += 1
            r = m.regs
            real = tuple(None if x == (-1, -1) else x for x in r)
        model = rx.spans_of(self.p, regs, group0=True)
        if real != model:
            if len(self.bad) < 5:
                self.bad.append(f"simulate {self.regex!r}.{self.method}({s!r}): re={real} model={model}")
            return False
        if self.n % 101 == 0:                       # public one-shot API, same answer?
            again = rx.simulate(self.p, s, group0=True)
            if again != model:
                self.bad.append(f"simulate vs stepper {self.regex!r} on {s!r}: {again} vs {model}")
        return True

    def walk_exh(self, prefix, chars, L):
        atom = {c: self.part.atom_of(c) for c in chars}
        st = self.st
        threads = st.start()
        for i, c in enumerate(prefix):
            threads = st.feed(threads, i, atom[c])
        self.check(prefix, st.result(threads))

        def rec(s, threads):
            i = len(s)
            for c in chars:
                t2 = st.feed(threads, i, atom[c]) if threads else threads
                s2 = s + c
                self.check(s2, st.result(t2))
                if i + 1 < L:
                    rec(s2, t2)
        if len(prefix) < L:
            rec(prefix, threads)

    def walk_live(self, first_atom, L):
        dfa = self.p.dfa(self.part)
        live = live_states(dfa)
        reps = self.part.reps
        st = self.st

        def rec(s, threads, d):
            i = len(s)
            for a, c in enumerate(reps):
                t2 = st.feed(threads, i, a) if threads else threads
                s2 = s + c
                d2 = dfa.trans[d][a]
                self.check(s2, st.result(t2))
                if (dfa.accept[d2]) != (st.result(t2) is not None):
                    self.bad.append(f"dfa vs simulate {self.regex!r}.{self.method} on {s2!r}")
                if i + 1 < L and live[d2]:
                    rec(s2, t2, d2)
        threads = st.start()
        if first_atom is None:
            self.check("", st.result(threads))
            return
        if not live[dfa.start]:
            return
        t1 = st.feed(threads, 0, first_atom)
        s1 = reps[first_atom]
        d1 = dfa.trans[dfa.start][first_atom]
        self.check(s1, st.result(t1))
        if L > 1 and live[d1]:
            rec(s1, t1, d1)

    def run_list(self, strings):
        for s in strings:
            spans = rx.simulate(self.p, s, group0=True)
            self.n += 1
            real = real_spans(self.regex, self.method, s)
            self.matches += real is not None
            if spans != real and len(self.bad) < 5:
                self.bad.append(f"simulate {self.regex!r}.{self.method}({s!r}): re={real} model={spans}")


def _task(t):
    kind, regex, method = t[0], t[1], t[2]
    c = Comparer(regex, method)
    if kind == "exh":
        _, _, _, prefix, chars, L = t
        c.walk_exh(prefix, chars, L)
    elif kind == "live":
        _, _, _, first_atom, L = t
        c.walk_live(first_atom, L)
    elif kind == "edit":
        c.run_list(t[3])
    return c.n, c.bad, c.matches


def tasks_for(regex, method, family, max_len=None, exhaustive_only=False):
    p = Pattern(regex, method)
    part = rx.partition_of(p)
    tasks = []
    chars = alphabet_ext(part)
    L0 = max_len if max_len is not None else exh_length(len(chars), BUDGET_EXH)
    tasks.append(("exh", regex, method, "", chars, 0))          # the empty string
    for c in chars:
        tasks.append(("exh", regex, method, c, chars, L0))
    if exhaustive_only:
        return tasks
    dfa = p.dfa(part)
    L1 = live_length(dfa, live_states(dfa), BUDGET_LIVE)
    if L1 > L0 or len(chars) != part.n:
        for a in range(part.n):
            tasks.append(("live", regex, method, a, L1))
    per_seed = BUDGET_EDIT // max(1, len(SEEDS[family]))
    for seed in SEEDS[family]:
        strings = edit_neighbourhood(seed, part.reps, per_seed)
        for i in range(0, len(strings), 8000):
            tasks.append(("edit", regex, method, strings[i:i + 8000]))
    return tasks


def _run(tasks, fn, processes):
    if processes == 1 or len(tasks) <= 1:
        return [fn(t) for t in tasks]
    ctx = mp.get_context("fork")
    with ctx.Pool(processes) as pool:
        return pool.map(fn, tasks, chunksize=1)


def validate(patterns, max_len, processes=None):
    """Compare ``simulate`` with the real engine on ALL strings of length
    ``<= max_len`` over the extended atom alphabet of each ``(regex, method)`` in
    ``patterns``.  Returns ``(strings compared, disagreements)``."""
    tasks = []
    for regex, method in patterns:
        tasks += tasks_for(regex, method, "SYN", max_len=max_len, exhaustive_only=True)
    processes = processes or min(16, os.cpu_count() or 1)
    if max_len <= 3:
        processes = 1
    res = _run(tasks, _task, processes)
    return sum(r[0] for r in res), sum(len(r[1]) for r in res)


# --------------------------------------------------------------------------- (b) verdict cross-checks

def P(regex, method="match"):
    return (regex, method)


CANON_N = P(r'[ \t]*[0-9]+ = N [0-7] [0-9]+[ \t]*', "fullmatch")
UPPER_N = P(r'\s*\d+ = N [0-7] \d+\s*\n?', "fullmatch")
SPEC_NAME = P(r'[ \t]*Name = "(?P<value>[^\n]+)"[ \t]*', "fullmatch")
SPEC_E = P(r'[ \t]*(?P<tick>[0-9]+) = E (?P<value>[^\s]+)[ \t]*', "fullmatch")
SPEC_TS = P(r'[ \t]*(?P<t>[0-9]+) = TS (?P<u>[0-9]+)(?: (?P<l>[0-9]+))?[ \t]*', "fullmatch")
SPEC_HDR = P(r'\[(?P<v>[^\n]+)\]', "fullmatch")
SPEC_LYR = P(r'[ \t]*(?P<t>[0-9]+) = E "lyric (?P<v>[^\n]*)"[ \t]*', "fullmatch")
SPEC_TEXT = P(r'[ \t]*(?P<t>[0-9]+) = E "(?P<v>[^\n"]*)"[ \t]*', "fullmatch")
SPEC_RES = P(r'[ \t]*Resolution = (?P<v>[0-9]+)[ \t]*', "fullmatch")
SPEC_P2 = P(r'[ \t]*Player2 = (?P<v>[a-z]+)[ \t]*', "fullmatch")

# (kind, args..., expectation)  expectation: True = property holds (verdict None)
CHECKS = [
    ("disjoint", P(N), P(S), True),
    ("disjoint", P(B), P(TS), True),
    ("disjoint", P(B), P(A), True),
    ("disjoint", P(E), P(N), True),
    ("disjoint", P(TEXT), P(LYRIC), False),
    ("disjoint", P(TEXT), P(SECTION), False),
    ("disjoint", P(SECTION), P(LYRIC), True),
    ("disjoint", P(E), P(TEXT), False),
    ("disjoint", P(NAME), P(field("Album")), True),
    ("disjoint", P(NAME), P(field("Offset", r'\d+?')), True),
    ("disjoint", P(field("Name", prefix="")), P(field("Offset", r'\d+?', prefix="")), True),
    ("disjoint", P(field("Name", prefix=""), "search"), P(field("Offset", r'\d+?', prefix=""), "search"), False),
    ("disjoint", P(field("Drum2Stream")), P(field("Drum3Stream")), True),
    ("disjoint", P(field("Name", prefix=""), "search"), P(field("Name"), "match"), False),
    ("included", CANON_N, P(N), True),
    ("included", P(N), UPPER_N, True),
    ("included", P(r'^\s*?(\d+?) = N (\d) (\d+?)\s*?$'), UPPER_N, False),
    ("included", P(r'^\s*?(\d+?) = N ([0-7]) (\d+?)\s*?'), UPPER_N, False),
    ("included", P(N, "search"), UPPER_N, True),
    ("included", P(r'\s*?(\d+?) = N ([0-7]) (\d+?)\s*?$', "search"), UPPER_N, False),
    ("included", UPPER_N, P(N), True),
    ("included", P(N), CANON_N, False),
    ("included", P(r'[ \t]*[0-9]+ = A [0-9]+', "fullmatch"), P(A), True),
    ("included", P(r'[ \t]*[0-9]+ = A [0-9]+[ \t]*', "fullmatch"), P(A), False),
    ("equivalent", P(N), P(r'^\s*(\d+) = N ([0-7]) (\d+)\s*$'), True),
    ("equivalent", P(N), P(N, "fullmatch"), True),       # \s*? swallows the final newline
    ("equivalent", P(A), P(A, "fullmatch"), False),
    ("equivalent", P(TS), P(r'^\s*?(\d+?) = TS (\d+?)(?: (\d+?))??\s*?$'), True),
    ("equivalent", P(HEADER), P(r'^\[(.+)\]$'), True),
    ("equivalent", P(HEADER), P(r'^\[([^\]]+)\]$'), False),
    ("capture", P(NAME), SPEC_NAME, {"value": 1}, True),
    ("capture", P(field("Name", r'.+')), SPEC_NAME, {"value": 1}, False),
    ("capture", P(field("Name", r'[^"]+?')), SPEC_NAME, {"value": 1}, False),
    ("capture", P(NAME, "fullmatch"), SPEC_NAME, {"value": 1}, True),
    ("capture", P(field("Name", prefix=""), "search"), SPEC_NAME, {"value": 1}, True),
    ("capture", P(E), SPEC_E, {"tick": 1, "value": 2}, True),
    ("capture", P(r'^\s*?(\d+?) = E ([^ ]*)\s*?$'), SPEC_E, {"tick": 1, "value": 2}, False),
    ("capture", P(r'^\s*?(\d+) = E ([^ ]*?)\s*?$'), SPEC_E, {"tick": 1, "value": 2}, True),
    ("capture", P(r'^\s*?(\d+?) = E ([^ ]*?)\s*?'), SPEC_E, {"tick": 1, "value": 2}, False),
    ("capture", P(TS), SPEC_TS, {"t": 1, "u": 2, "l": 3}, True),
    ("capture", P(TS), SPEC_TS, {"t": 1, "u": 3, "l": 2}, False),
    ("capture", P(r'^\s*?(\d+?) = TS (\d+?)(?: (\d+?))??\s*?$'), SPEC_TS, {"t": 1, "u": 2, "l": 3}, True),
    ("capture", P(r'^\s*?(\d+?) = TS (\d+?)(?: (\d+?))?\s*?'), SPEC_TS, {"t": 1, "u": 2, "l": 3}, False),
    ("capture", P(HEADER), SPEC_HDR, {"v": 1}, True),
    ("capture", P(r'^\[(.+?)\]'), SPEC_HDR, {"v": 1}, False),
    ("capture", P(LYRIC), SPEC_LYR, {"t": 1, "v": 1 + 1}, True),
    ("capture", P(r'^\s*?(\d+?) = E \"lyric (.*)\"\s*?$'), SPEC_LYR, {"t": 1, "v": 2}, True),
    ("capture", P(TEXT), SPEC_TEXT, {"t": 1, "v": 2}, True),
    ("capture", P(RESOLUTION), SPEC_RES, {"v": 1}, True),
    ("capture", P(PLAYER2), SPEC_P2, {"v": 1}, True),
    ("capture", P(field("Player2", r'[^"]+')), SPEC_P2, {"v": 1}, False),
    ("contents", P(N), 1, P(r'\d+', "fullmatch"), True),
    ("contents", P(N), 2, P(r'[0-7]', "fullmatch"), True),
    ("contents", P(N), 3, P(r'[0-9]+', "fullmatch"), False),
    ("contents", P(E), 2, P(r'[^\s]*', "fullmatch"), False),
    ("contents", P(E), 2, P(r'[^ ]*', "fullmatch"), True),
    ("contents", P(field("Name", r'.+')), 1, P(r'[^\n]+', "fullmatch"), True),
    ("contents", P(NAME), 1, P(r'[^\n]*[^\s"]', "fullmatch"), False),
    ("contents", P(TS), 3, P(r'\d+', "fullmatch"), True),
]


def bounded_strings(guide, others, budget_exh=100_000, budget_live=500_000):
    """Exhaustive strings over the joint representatives up to a small length,
    then strings with live proper prefixes in the DFA of ``guide``."""
    pats = [guide] + list(others)
    part = rx.partition_of(*pats)
    reps = part.reps
    L0 = exh_length(len(reps), budget_exh)
    for l in range(L0 + 1):
        for tup in itertools.product(reps, repeat=l):
            yield "".join(tup)
    dfa = guide.dfa(part)
    live = live_states(dfa)
    L1 = live_length(dfa, live, budget_live)
    if L1 <= L0:
        return
    stack = [("", dfa.start)]
    while stack:
        s, d = stack.pop()
        for a, c in enumerate(reps):
            s2, d2 = s + c, dfa.trans[d][a]
            if len(s2) > L0:
                yield s2
            if len(s2) < L1 and live[d2]:
                stack.append((s2, d2))


def _is(regex_method, s):
    return getattr(compiled(regex_method[0]), regex_method[1])(s) is not None


def _check(idx):
    chk = CHECKS[idx]
    kind, expect = chk[0], chk[-1]
    bad = []
    n = 0
    label = f"check#{idx} {kind} {chk[1:-1]!r}"
    t0 = time.time()
    if kind in ("disjoint", "included", "equivalent"):
        a, b = chk[1], chk[2]
        pa, pb = Pattern(*a), Pattern(*b)
        verdict = getattr(rx, kind)(pa, pb)
        if kind == "disjoint":
            viol = lambda s: _is(a, s) and _is(b, s)
        elif kind == "included":
            viol = lambda s: _is(a, s) and not _is(b, s)
        else:
            viol = lambda s: _is(a, s) != _is(b, s)
        guides = [(pa, [pb])] + ([(pb, [pa])] if kind == "equivalent" else [])
        brute = None
        for g, o in guides:
            for s in bounded_strings(g, o):
                n += 1
                if viol(s) and (brute is None or len(s) < len(brute)):
                    brute = s
        if verdict is not None and not viol(verdict):
            bad.append(f"{label}: witness {verdict!r} is not a counterexample under re")
    elif kind == "capture":
        impl, spec, gmap = chk[1], chk[2], chk[3]
        pi, ps = Pattern(*impl), Pattern(*spec)
        verdict = rx.capture_exact(pi, ps, gmap)
        cspec = compiled(spec[0])
        fimpl = getattr(compiled(impl[0]), impl[1])

        def viol(s):
            ms = cspec.fullmatch(s)
            if ms is None:
                return False
            mi = fimpl(s)
            if mi is None:
                return True
            return any(ms.span(g) != mi.span(k) for g, k in gmap.items())
        brute = None
        for s in bounded_strings(Pattern(spec[0], "fullmatch"), [pi]):
            n += 1
            if viol(s) and (brute is None or len(s) < len(brute)):
                brute = s
        if verdict is not None:
            w = verdict.string
            if not viol(w):
                bad.append(f"{label}: witness {w!r} is not a counterexample under re")
            else:
                ms, mi = cspec.fullmatch(w), fimpl(w)
                want = {g: ms.group(g) for g in gmap}
                got = None if mi is None else {k: mi.group(k) for k in gmap.values()}
                if want != verdict.want or got != verdict.got:
                    bad.append(f"{label}: witness groups {verdict} but re says want={want} got={got}")
            verdict = w
    elif kind == "contents":
        a, g, b = chk[1], chk[2], chk[3]
        pa, pb = Pattern(*a), Pattern(*b)
        res = rx.group_contents_included(pa, g, pb)
        fa = getattr(compiled(a[0]), a[1])

        def viol(s):
            m = fa(s)
            return m is not None and m.group(g) is not None and not _is(b, m.group(g))
        brute = None
        for s in bounded_strings(pa, [pb]):
            n += 1
            if viol(s) and (brute is None or len(s) < len(brute)):
                brute = s
        verdict = None
        if res is not None:
            verdict = res[0]
            if not viol(verdict) or fa(verdict).group(g) != res[1]:
                bad.append(f"{label}: witness {res!r} is not a counterexample under re")
    else:
        raise AssertionError(kind)
    # independent recomputation with the un-merged alphabet (every pool char its own atom)
    rx.set_merge(False)
    try:
        if kind in ("disjoint", "included", "equivalent"):
            v2 = getattr(rx, kind)(Pattern(*chk[1]), Pattern(*chk[2]))
        elif kind == "capture":
            v2 = rx.capture_exact(Pattern(*chk[1]), Pattern(*chk[2]), chk[3])
            v2 = None if v2 is None else v2.string
        else:
            v2 = rx.group_contents_included(Pattern(*chk[1]), chk[2], Pattern(*chk[3]))
            v2 = None if v2 is None else v2[0]
    finally:
        rx.set_merge(True)
    if (v2 is None) != (verdict is None) or (v2 is not None and len(v2) != len(verdict)):
        bad.append(f"{label}: merged verdict {verdict!r} but un-merged verdict {v2!r}")
    if verdict is None and brute is not None:
        bad.append(f"{label}: verdict holds, but brute force found {brute!r}")
    if verdict is not None and brute is not None and len(brute) < len(verdict):
        bad.append(f"{label}: witness {verdict!r} is not shortest, brute force found {brute!r}")
    if (verdict is None) != expect:
        bad.append(f"{label}: expected {'holds' if expect else 'violated'}, verdict {verdict!r}")
    confirmed = verdict is not None and brute is not None
    return n, bad, f"{label} -> {verdict!r} brute={brute!r} ({n} strings, {time.time() - t0:.1f}s)", confirmed


# --------------------------------------------------------------------------- trusted-base spot checks

def unicode_facts():
    """isdecimal / isspace disjoint; ``.`` == not newline; every sampled code
    point is re-equivalent to the representative of its atom."""
    bad = []
    for cp in range(0x110000):
        c = chr(cp)
        if c.isdecimal() and c.isspace():
            bad.append(f"U+{cp:04X} is both decimal and space")
    part = rx.partition_of(Pattern(N), Pattern(UPPER_N[0], "fullmatch"), Pattern(NAME))
    probes = [re.compile(x) for x in (r'\d', r'\s', r'.', r'[0-7]', r'[^ ]', r'[^"]')]
    n = 0
    for cp in itertools.chain(range(0, 0x3000), range(0x3000, 0x110000, 7)):
        c = chr(cp)
        r = part.reps[part.atom_of(c)]
        n += 1
        for pr in probes:
            if (pr.fullmatch(c) is None) != (pr.fullmatch(r) is None):
                bad.append(f"U+{cp:04X} and its representative {r!r} differ on {pr.pattern}")
    return n, bad[:10]


def unsupported_rejected():
    bad = []
    for pat in [r'(a)\1', r'(?=a)b', r'(?!a)b', r'(?<=a)b', r'\w', r'\W', r'a\b', r'\Ba', r'(?i)a',
                r'(?m)^a$', r'(?s).', r'(?s:.)', r'(?:a*)*', r'(?:a|)+', r'(a?){2}', r'(?:^)*', r'a*+',
                r'(?>a)', r'(a)(?(1)b|c)', r'(?a)\d']:
        try:
            Pattern(pat)
        except rx.RxUnsupported:
            continue
        bad.append(f"pattern {pat!r} should be rejected as unsupported")
    return bad


# --------------------------------------------------------------------------- main

def main(argv):
    verbose = "-v" in argv
    t0 = time.time()
    procs = min(16, os.cpu_count() or 1)
    patterns = SHIPPED + VARIANTS
    tasks = []
    for regex, method, fam in patterns:
        tasks += tasks_for(regex, method, fam)
    # big tasks first for better balance
    order = {"live": 0, "exh": 1, "edit": 2}
    tasks.sort(key=lambda t: order[t[0]])
    res = _run(tasks, _task, procs)
    strings = sum(r[0] for r in res)
    matches = sum(r[2] for r in res)
    bad = [b for r in res for b in r[1]]
    t1 = time.time()
    cres = _run(list(range(len(CHECKS))), _check, procs)
    cstrings = sum(r[0] for r in cres)
    confirmed = sum(r[3] for r in cres)
    violated = sum(1 for c in CHECKS if not c[-1])
    for _, bs, line, _ in cres:
        bad += bs
        if verbose:
            print(line)
    t2 = time.time()
    un, ubad = unicode_facts()
    bad += ubad
    bad += unsupported_rejected()
    st = rx.stats()
    print(f"rx-validate: simulate-vs-re strings={strings} of which matching={matches} ({t1 - t0:.1f}s)  "
          f"verdict checks={len(CHECKS)} (expected violated={violated}, violation re-found by brute force={confirmed}) "
          f"brute-force strings={cstrings} ({t2 - t1:.1f}s)  "
          f"code points spot-checked={un}  total {time.time() - t0:.1f}s")
    if bad:
        for b in bad[:50]:
            print("DISAGREEMENT:", b)
        print(f"RX-VALIDATE FAIL strings={strings + cstrings} patterns={len(patterns)} "
              f"disagreements={len(bad)}")
        return 1
    print(f"RX-VALIDATE ok strings={strings + cstrings} patterns={len(patterns)} disagreements=0")
    return 0


if __name__ == "__main__":
    sys.exit(main(sys.argv[1:]))
