#!/venv/bin/python
"""Pairs (and triples) of filed behaviour-preserving refactorings applied together -- a larger clean-up commit touching several
functions or files -- must still be accepted by all 20 checks when each member is accepted alone (the second chance works on several
reshaped functions at once).  A fixed-seed random sample.  Development tool: not a MANIFEST command.
usage: pair_refactorings.py [--n 120] [--k 2] [--seed 1] [--jobs 10]"""
import argparse, glob, os, random, shutil, subprocess, tempfile
from concurrent.futures import ThreadPoolExecutor

PROPS = [f"C{i:02d}" for i in range(1, 21)]
SKIP = {"ben14-1.diff", "ben22-4.diff"}  # KNOWN_UNPROVEN


def run(combo):
    tmp = tempfile.mkdtemp(prefix="pr-", dir="/tmp")
    try:
        shutil.copytree("/repo/chartparse", tmp + "/chartparse")
        for p in combo:
            if subprocess.run(f"patch -p1 -s -F0 < {p}", shell=True, cwd=tmp, capture_output=True).returncode:
                return combo, "no-apply", []
        alarms = []
        for pr in PROPS:
            r = subprocess.run(["/verif/check", pr, "--root", tmp, "--evidence-dir", tmp + "/ev"], cwd="/verif", capture_output=True, text=True)
            if r.returncode:
                alarms.append((pr, r.returncode, [l.strip()[:260] for l in r.stdout.splitlines() if l.strip().startswith(("FINDING", "ANALYSIS"))][:1]))
        return combo, "ok", alarms
    finally:
        shutil.rmtree(tmp, ignore_errors=True)


def main():
    ap = argparse.ArgumentParser()
    ap.add_argument("--n", type=int, default=120)
    ap.add_argument("--k", type=int, default=2)
    ap.add_argument("--seed", type=int, default=1)
    ap.add_argument("--jobs", type=int, default=10)
    a = ap.parse_args()
    refs = [r for r in sorted(glob.glob("/verif/selftest/refactorings/*.diff")) if os.path.basename(r) not in SKIP]
    rnd = random.Random(a.seed)
    combos = [tuple(rnd.sample(refs, a.k)) for _ in range(a.n)]
    tot = {"ok-silent": 0, "alarm": 0, "no-apply": 0}
    with ThreadPoolExecutor(a.jobs) as ex:
        for combo, st, alarms in ex.map(run, combos):
            names = " + ".join(os.path.basename(c) for c in combo)
            if st == "no-apply":
                tot["no-apply"] += 1
            elif alarms:
                tot["alarm"] += 1
                print("ALARM", names, " ".join(f"{p}:{rc}" for p, rc, _ in alarms), flush=True)
                print("     ", alarms[0][2][:1], flush=True)
            else:
                tot["ok-silent"] += 1
    print("totals:", tot)


if __name__ == "__main__":
    main()
