#!/venv/bin/python
"""Cross-demonstration: which *other* properties does each seeded change break?

Every seeded change M (filed against property P_M) is applied to a scratch copy of /repo; then the demonstration programs of all
seeded changes of the other properties are run there.  A demonstration of property Q that exits 1 *without a traceback* on M shows
that M also violates Q in that demonstration's scenario, so Q's check ought to report M as well.  Comparing with the check matrix
(`run_seeded.py --all` log) lists the pairs (M, Q) where Q's demonstration fails and Q's check is silent: candidates for a premise
that Q's check is missing (triage by hand: the demonstration may be observing more than Q states).
Development tool: not a MANIFEST command.   usage: cross_demo.py <matrix log> [--jobs N] [--out file]"""
import argparse, json, os, re, shutil, subprocess, sys, tempfile
from concurrent.futures import ThreadPoolExecutor

SEEDED = "/verif/seeded"


def prepare(m):
    d = tempfile.mkdtemp(prefix=f"xd-{m}-", dir="/tmp")
    subprocess.run(f"git -C /repo archive HEAD chartparse | tar -x -C {d}", shell=True, check=True)
    p = subprocess.run(f"patch -p1 -s < {SEEDED}/{m}/patch.diff", shell=True, cwd=d, capture_output=True, text=True)
    if p.returncode:
        shutil.rmtree(d, ignore_errors=True)
        return None
    return d


def run_demo(d, demo):
    try:
        p = subprocess.run(["/venv/bin/python", "-B", f"{SEEDED}/{demo}/demo.py"], cwd=d, capture_output=True, text=True, timeout=25,
                           env={**os.environ, "PYTHONPATH": d, "PYTHONDONTWRITEBYTECODE": "1"})
    except subprocess.TimeoutExpired:
        return "timeout"
    if p.returncode == 0:
        return "ok"
    if "Traceback (most recent call last)" in p.stderr:
        return "crash"
    return "fail" if p.returncode == 1 else f"rc{p.returncode}"


def main():
    ap = argparse.ArgumentParser()
    ap.add_argument("matrix")
    ap.add_argument("--jobs", type=int, default=14)
    ap.add_argument("--out", default="/tmp/cross_demo.json")
    ap.add_argument("--skip-slow", default="C20,C17")
    a = ap.parse_args()
    checks = {}
    for l in open(a.matrix):
        if re.match(r"^C\d\d-\d+\s", l):
            name = l.split()[0]
            checks[name] = dict(c.split(":") for c in l.split()[2:] if ":" in c)
    muts = sorted(checks)
    slow = set(a.skip_slow.split(","))
    demos = [m for m in muts if os.path.exists(f"{SEEDED}/{m}/demo.py") and m.split("-")[0] not in slow]
    # demos must pass on the clean tree from a scratch copy too (they do by construction; verify once)
    clean = tempfile.mkdtemp(prefix="xd-clean-", dir="/tmp")
    subprocess.run(f"git -C /repo archive HEAD chartparse | tar -x -C {clean}", shell=True, check=True)
    with ThreadPoolExecutor(a.jobs) as ex:
        ok = dict(zip(demos, ex.map(lambda dm: run_demo(clean, dm), demos)))
    shutil.rmtree(clean, ignore_errors=True)
    demos = [dm for dm in demos if ok[dm] == "ok"]
    print(f"{len(muts)} changes, {len(demos)} demonstrations usable", flush=True)
    results = {}

    def one(m):
        d = prepare(m)
        if d is None:
            return m, None
        try:
            own = m.split("-")[0]
            out = {}
            for dm in demos:
                q = dm.split("-")[0]
                if q == own:
                    continue
                r = run_demo(d, dm)
                if r != "ok":
                    out[dm] = r
            return m, out
        finally:
            shutil.rmtree(d, ignore_errors=True)

    with ThreadPoolExecutor(a.jobs) as ex:
        for k, (m, out) in enumerate(ex.map(one, muts)):
            results[m] = out
            if k % 20 == 0:
                print(f"  {k}/{len(muts)}", flush=True)
    json.dump(results, open(a.out, "w"), indent=1)
    # candidates
    cand = {}
    for m, out in results.items():
        if not out:
            continue
        for dm, r in out.items():
            if r != "fail":
                continue
            q = dm.split("-")[0]
            if checks[m].get(q) != "VIOL":
                cand.setdefault((m, q), []).append(dm)
    print(f"candidate pairs (demonstration of Q fails on change M, check Q silent): {len(cand)}")
    for (m, q), dms in sorted(cand.items()):
        print(f"  {m}  breaks {q} according to {', '.join(dms[:6])}{' ...' if len(dms) > 6 else ''}")


if __name__ == "__main__":
    main()
