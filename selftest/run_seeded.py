#!/venv/bin/python
"""Run checks against every seeded change under /verif/seeded/ on scratch copies (never in /repo).

usage: run_seeded.py [--props C01,C02 | --own | --all] [--only C01-1,...] [--tier quick]
  --own : for each seeded change run only the check of the property it targets (default)
  --all : run every available check on every change (detection matrix)
Development tool: not a MANIFEST command."""
import argparse, json, os, shutil, subprocess, sys, tempfile
from concurrent.futures import ThreadPoolExecutor

SEEDED = "/verif/seeded"


def sh(cmd, cwd=None, timeout=900):
    p = subprocess.run(cmd, shell=True, cwd=cwd, capture_output=True, text=True, timeout=timeout)
    return p.returncode, p.stdout + p.stderr


def available():
    return sorted(f[:-3] for f in os.listdir("/verif/sa/rules") if f.startswith("C") and f.endswith(".py"))


def run(name, props, tier):
    d = f"{SEEDED}/{name}"
    tmp = tempfile.mkdtemp(prefix=f"seed-{name}-", dir="/tmp")
    try:
        shutil.copytree("/repo/chartparse", f"{tmp}/chartparse")
        rc, out = sh(f"patch -p1 -s < {d}/patch.diff", cwd=tmp)
        if rc:
            return name, {"_": ("PATCH-FAIL", out[-200:])}
        res = {}
        for p in props:
            rc, out = sh(f"/verif/check {p} --tier {tier} --root {tmp} --evidence-dir {tmp}/ev", cwd="/verif")
            finds = [l.strip() for l in out.splitlines() if l.strip().startswith(("FINDING", "ANALYSIS-ERROR"))]
            res[p] = (rc, finds)
        return name, res
    finally:
        shutil.rmtree(tmp, ignore_errors=True)


def main():
    ap = argparse.ArgumentParser()
    ap.add_argument("--props", default=None)
    ap.add_argument("--all", action="store_true")
    ap.add_argument("--only", default=None)
    ap.add_argument("--tier", default="quick")
    ap.add_argument("-v", action="store_true")
    a = ap.parse_args()
    names = sorted(os.listdir(SEEDED))
    if a.only:
        names = [n for n in names if n in a.only.split(",") or n.split("-")[0] in a.only.split(",")]
    av = available()
    jobs = []
    for n in names:
        own = n.split("-")[0]
        if a.props:
            props = [p for p in a.props.split(",") if p in av]
        elif a.all:
            props = av
        else:
            props = [own] if own in av else []
        if props:
            jobs.append((n, props))
    caught = missed = 0
    with ThreadPoolExecutor(16) as ex:
        for name, res in ex.map(lambda j: run(j[0], j[1], a.tier), jobs):
            own = name.split("-")[0]
            cells = []
            for p, (rc, finds) in sorted(res.items()):
                cells.append(f"{p}:{ {0: 'pass', 1: 'VIOL', 2: 'ERR'}.get(rc, rc)}")
            own_rc = res.get(own, (None, []))[0]
            any_viol = any(rc == 1 for rc, _ in res.values())
            status = "CAUGHT" if own_rc == 1 else ("caught-by-other" if any_viol else ("ERR" if own_rc == 2 else "MISSED"))
            if own_rc == 1:
                caught += 1
            else:
                missed += 1
            print(f"{name:8s} {status:16s} " + " ".join(cells))
            if a.v or own_rc != 1:
                for p, (rc, finds) in sorted(res.items()):
                    for f in finds[:3]:
                        print(f"      {p}: {f[:260]}")
    print(f"caught by own check: {caught}; not caught by own check: {missed}")


if __name__ == "__main__":
    main()
