"""Validate sa.importsim against the real interpreter.

For a catalogue of small synthetic variants of the package (one or two textual edits each, applied
to a copy under /tmp) this script

* runs the abstract import machine (`analyse`, both tiers, and `ImportMachine.run_sequence`), and
* obtains ground truth from fresh `/venv/bin/python` processes -- one per first-imported module and
  one per multi-step client sequence -- with the temp copy first on sys.path,

and compares, per sequence, the index of the first failing step and the exception class; for
sequences that succeed it also compares the public names each module ends up with.

Prints ``IMPORTSIM-VALIDATE ok variants=<n> sequences=<n> disagreements=0`` and exits 0, otherwise
prints every disagreement and exits 1.

The package is never imported into *this* process.
"""

from __future__ import annotations

import json
import os
import shutil
import subprocess
import sys
import tempfile
from concurrent.futures import ProcessPoolExecutor, ThreadPoolExecutor

HERE = os.path.dirname(os.path.abspath(__file__))
sys.path.insert(0, os.path.dirname(HERE))

from sa.importsim import (  # noqa: E402
    K_ATTR,
    K_ATTR_ABSENT,
    K_FROM,
    K_MISSING,
    K_NAME,
    K_UNDEF,
    ImportMachine,
    analyse,
)

PYTHON = "/venv/bin/python"
SRC = os.environ.get("IMPORTSIM_VALIDATE_SRC", "/repo/chartparse")
PKG = "chartparse"
JOBS = 16

EXC_OF_KIND = {
    K_FROM: "ImportError",
    K_UNDEF: "ImportError",
    K_MISSING: "ImportError",
    K_ATTR: "AttributeError",
    K_ATTR_ABSENT: "AttributeError",
    K_NAME: "NameError",
}


# --------------------------------------------------------------------------------------------------
# textual edits
# --------------------------------------------------------------------------------------------------

FUTURE = "from __future__ import annotations\n"


def after(anchor: str, text: str):
    def f(src: str) -> str:
        assert src.count(anchor) >= 1, f"anchor not found: {anchor!r}"
        i = src.index(anchor) + len(anchor)
        return src[:i] + text + src[i:]

    return f


def at_top(text: str):
    """Right after the __future__ import (or at the very top when there is none)."""

    def f(src: str) -> str:
        if FUTURE in src:
            return after(FUTURE, text)(src)
        return text + src

    return f


def at_end(text: str):
    return lambda src: src + ("" if src.endswith("\n") else "\n") + text


def replace(old: str, new: str):
    def f(src: str) -> str:
        assert src.count(old) == 1, f"expected exactly one occurrence of {old!r}"
        return src.replace(old, new)

    return f


OLD_TRACK = after(
    "from chartparse.exceptions import RegexNotMatchError, UnreachableError\n",
    "from chartparse.instrument import StarPowerEvent, TrackEvent\n"
    "from chartparse.sync import AnchorEvent, BPMEvent, BPMEvents, TimeSignatureEvent\n",
)

CLASSBODY_ATTR = after(
    '    Self = typ.TypeVar("Self", bound="InstrumentTrack")\n',
    "    _m = chartparse.track.logger\n",
)

# name -> (edits [(file, fn)], expectation, extra sequences [(machine steps, real python steps)])
# expectation: "clean" (no failing first import), "fails" (>= 1 failing first import),
#              "side[:text]" (no failing import but >= 1 side-condition finding [mentioning text]),
#              "over" (documented over-approximation: compared for soundness only)
VARIANTS: list[tuple[str, list[tuple[str, object]], str, list[list[str]]]] = [
    ("head", [], "clean", [["chartparse.track", "call chartparse.track.build_events_from_data"]]),
    ("old_track_from_imports", [("track.py", OLD_TRACK)], "fails", []),
    (
        "sync_from_instrument_top",
        [("sync.py", at_top("from chartparse.instrument import NoteEvent\n"))],
        "clean",
        [],
    ),
    (
        "sync_instrument_from_cycle",
        [
            ("sync.py", at_top("from chartparse.instrument import NoteEvent\n")),
            ("instrument.py", after("import chartparse.track\n", "from chartparse.sync import BPMEvents\n")),
        ],
        "fails",
        [],
    ),
    (
        "globalevents_module_attr_read",
        [("globalevents.py", after("import chartparse.track\n", "_x = chartparse.track.ParsedDataMap\n"))],
        "fails",
        [],
    ),
    ("instrument_classbody_attr", [("instrument.py", CLASSBODY_ATTR)], "clean", []),
    (
        "instrument_classbody_attr_old_track",
        [("instrument.py", CLASSBODY_ATTR), ("track.py", OLD_TRACK)],
        "fails",
        [],
    ),
    (
        "track_import_moved_below_use",
        [
            ("track.py", replace("from chartparse.event import Event\n", "")),
            ("track.py", at_end("from chartparse.event import Event\n")),
        ],
        "fails",
        [],
    ),
    (
        "annotation_no_future_import",
        [("time.py", after("from chartparse.exceptions import UnreachableError\n", "\ndef _f(x: Seconds) -> None:\n    ...\n"))],
        "fails",
        [],
    ),
    (
        "annotation_with_future_import",
        [("tick.py", after("from chartparse.time import Seconds\n", "\ndef _f(x: NoteDuration) -> None:\n    ...\n"))],
        "clean",
        [],
    ),
    (
        "tick_function_local_import",
        [
            (
                "tick.py",
                replace(
                    "    return Tick(a + b)\n",
                    "    from chartparse.chart import Chart\n\n    return Tick(a + b)\n",
                ),
            )
        ],
        "clean",
        [
            ["chartparse.tick", "call chartparse.tick.add"],
            ["chartparse.event", "call chartparse.tick.add", "chartparse.sync"],
        ],
    ),
    (
        "tick_function_local_import_called_at_import",
        [
            (
                "tick.py",
                replace(
                    "    return Tick(a + b)\n",
                    "    from chartparse.chart import Chart\n\n    return Tick(a + b)\n\n\n_zero = add(Tick(0), Ticks(0))\n",
                ),
            )
        ],
        "fails",
        [],
    ),
    ("util_plain_import_chart_top", [("util.py", at_top("import chartparse.chart\n"))], "fails", []),
    # not benign: e.g. event -> util -> chart -> globalevents -> track -> `from chartparse.event import Event`
    ("util_plain_import_chart_bottom", [("util.py", at_end("import chartparse.chart\n"))], "fails", []),
    ("hints_plain_import_util_bottom", [("hints.py", at_end("import chartparse.util\n"))], "clean", []),
    ("hints_plain_import_util_top", [("hints.py", at_top("import chartparse.util\n"))], "fails", []),
    ("util_from_chart_top", [("util.py", at_top("from chartparse.chart import Chart\n"))], "fails", []),
    ("util_relative_from_chart_top", [("util.py", at_top("from .chart import Chart\n"))], "fails", []),
    (
        "util_type_checking_guarded",
        [("util.py", at_top("import typing as typ\nif typ.TYPE_CHECKING:\n    from chartparse.chart import Chart\n"))],
        "clean",
        [],
    ),
    (
        "util_bare_type_checking_guarded",
        [("util.py", at_top("from typing import TYPE_CHECKING\nif TYPE_CHECKING:\n    from chartparse.chart import Chart\n"))],
        "clean",
        [],
    ),
    (
        "util_try_except_optional_dependency",
        [("util.py", at_end("try:\n    import no_such_module_xyz as _opt\nexcept ImportError:\n    _opt = None\n"))],
        "side",
        [],
    ),
    # CPython swallows the circular ImportError here (and silently re-imports modules later, which
    # is exactly why the construct is a side condition); the machine deliberately still reports the
    # failing import inside the try body -> compared for soundness only.
    (
        "util_try_except_swallows_cycle",
        [("util.py", at_end("try:\n    import chartparse.chart\nexcept ImportError:\n    pass\n"))],
        "over",
        [],
    ),
    (
        "globalevents_import_as_attr_read",
        [("globalevents.py", after("import chartparse.track\n", "import chartparse.track as _trk\n_y = _trk.logger\n"))],
        "fails",
        [],
    ),
    (
        "globalevents_import_as_only",
        [("globalevents.py", after("import chartparse.track\n", "import chartparse.track as _trk\n"))],
        "clean",
        [],
    ),
    (
        "globalevents_from_package_import_submodule",
        [("globalevents.py", after("import chartparse.track\n", "from chartparse import track as _trk2\nfrom . import track as _trk3\n"))],
        "clean",
        [],
    ),
    (
        "metadata_ctor_reads_late_global",
        [
            ("metadata.py", replace("        self.regex = regex\n", "        self.regex = regex\n        self._late = _LATE_CONST\n")),
            ("metadata.py", at_end("_LATE_CONST = 1\n")),
        ],
        "fails",
        [],
    ),
    (
        "sync_relative_imports",
        [
            ("sync.py", replace("from chartparse.event import Event\n", "from .event import Event\nfrom . import tick as _tk\n")),
        ],
        "clean",
        [],
    ),
    (
        "event_from_undefined_name",
        [("event.py", replace("from chartparse.tick import Tick\n", "from chartparse.tick import Tick, NoSuchName\n"))],
        "fails",
        [],
    ),
    (
        "globalevents_base_class_attr_chain",
        [("globalevents.py", at_end("\n\nclass _Sub(chartparse.track.ParsedDataMap):\n    pass\n"))],
        "fails",  # fine when globalevents starts first, not when track (or instrument/sync) does
        [],
    ),
    (
        "globalevents_base_class_attr_chain_early",
        [("globalevents.py", after("import chartparse.track\n", "\n\nclass _Sub(chartparse.track.ParsedDataMap):\n    pass\n\n"))],
        "fails",
        [],
    ),
    (
        "globalevents_default_arg_attr_chain",
        [("globalevents.py", after("import chartparse.track\n", "\n\ndef _g(x=chartparse.track.logger):\n    return x\n\n"))],
        "fails",
        [],
    ),
    (
        "globalevents_function_body_attr_chain",
        [("globalevents.py", after("import chartparse.track\n", "\n\ndef _g():\n    return chartparse.track.logger, _NOT_DEFINED_ANYWHERE\n\n\n_h = lambda: _ALSO_NOT_DEFINED\n"))],
        "clean",
        [],
    ),
    (
        "event_nested_class_reads_outer_class_name",
        [("event.py", after('        Self = typ.TypeVar("Self", bound="Event.ParsedData")\n', "        _q = _proximal_bpm_event_index\n"))],
        "fails",
        [],
    ),
    (
        "event_class_body_comprehension_scope",
        [("event.py", after("    _proximal_bpm_event_index: int = 0\n", "    _cc = [_proximal_bpm_event_index for _ in range(1)]\n"))],
        "fails",
        [],
    ),
    (
        "event_class_body_comprehension_first_iter",
        [("event.py", after("    _proximal_bpm_event_index: int = 0\n", "    _cc = [_ for _ in range(_proximal_bpm_event_index)]\n"))],
        "clean",
        [],
    ),
    (
        "hints_module_comprehension_reads_late_global",
        [("hints.py", after("import typing as typ\n", "_early = [T_co for _ in range(1)]\n"))],
        "fails",
        [],
    ),
    (
        "cross_module_callee_with_local_import",
        [
            ("exceptions.py", at_end("\n\ndef _probe():\n    from chartparse.chart import Chart\n\n    return Chart\n")),
            ("metadata.py", after("from chartparse.util import DictPropertiesEqMixin, DictReprMixin\n", "from chartparse.exceptions import _probe\n\n_p = _probe()\n")),
        ],
        "fails",
        [],
    ),
    (
        "package_decorator_reads_late_global",
        [
            ("util.py", after("from chartparse.hints import T\n", "\n\ndef _deco(f):\n    _REGISTRY.append(f)\n    return f\n\n\n@_deco\ndef _decorated():\n    pass\n\n\n_REGISTRY = []\n")),
        ],
        "fails",
        [],
    ),
    (
        "staticmethod_in_class_body_with_local_import",
        [
            ("tick.py", replace("        if (i := int(f)) == f:\n", "        from chartparse.event import Event\n\n        if (i := int(f)) == f:\n")),
        ],
        "fails",
        [],
    ),
    # --- syntactic side conditions (all harmless at run time; the machine must flag each) ---------
    ("side_import_under_plain_if", [("util.py", at_end("import sys\n\nif sys.version_info >= (3, 0):\n    import chartparse.hints\n"))], "side:under an `if`", []),
    ("side_sys_modules", [("util.py", at_end("import sys\n\n_mods = sys.modules\n"))], "side:sys.modules", []),
    ("side_importlib", [("util.py", at_end("import importlib\n"))], "side:importlib", []),
    ("side_dunder_import", [("util.py", at_end("_json = __import__(\"json\")\n"))], "side:__import__", []),
    ("side_rebinds_imported_name", [("util.py", at_end("Sequence = Sequence\n"))], "side:rebinds 'Sequence'", []),
    ("side_import_star", [("util.py", at_end("from chartparse.hints import *\n"))], "side:import *", []),
    ("side_global_write_to_import", [("util.py", at_end("\n\ndef _w():\n    global enum\n    enum = None\n"))], "side:global enum", []),
    ("side_module_getattr", [("util.py", at_end("\n\ndef __getattr__(name):\n    raise AttributeError(name)\n"))], "side:__getattr__", []),
    (
        "package_init_imports_chart",
        [("__init__.py", at_end("from chartparse.chart import Chart\n"))],
        "clean",
        [],
    ),
]

GENERIC_SEQUENCES = [
    ["chartparse.event", "chartparse.instrument"],
    ["chartparse.track", "chartparse.sync"],
    ["chartparse.util", "chartparse.chart"],
    ["chartparse.hints", "chartparse.util", "chartparse.chart"],
    ["chartparse.tick", "chartparse.track", "chartparse.instrument"],
    ["chartparse.exceptions", "chartparse.sync", "chartparse.instrument"],
    ["chartparse.globalevents", "chartparse.track", "chartparse.metadata"],
]

# how a "call ..." step is performed for real (arguments chosen so the function-local imports run)
REAL_CALLS = {
    "call chartparse.track.build_events_from_data": "chartparse.track.build_events_from_data(object, [])",
    "call chartparse.tick.add": "chartparse.tick.add(1, 2)",
}

# --------------------------------------------------------------------------------------------------
# ground truth
# --------------------------------------------------------------------------------------------------

CHILD = r"""
import json, sys
steps = json.loads(sys.argv[1]); root = sys.argv[2]
out = {"failed_step": -1, "exc": None, "msg": None, "public": {}, "file_ok": True}
def import_error_like(e):
    if isinstance(e, (ImportError, NameError)):
        return True
    return isinstance(e, AttributeError) and "module" in str(e)
for i, (kind, code) in enumerate(steps):
    try:
        exec(code, {})
    except BaseException as e:
        if kind == "call" and not import_error_like(e):
            continue  # the function-local imports ran; what the body does afterwards is irrelevant
        out["failed_step"] = i; out["exc"] = type(e).__name__; out["msg"] = str(e)[:300]
        break
pkg = sys.argv[3]
for name, mod in sorted(sys.modules.items()):
    if name == pkg or name.startswith(pkg + "."):
        f = getattr(mod, "__file__", "") or ""
        if not f.startswith(root):
            out["file_ok"] = False
        spec = getattr(mod, "__spec__", None)
        if out["failed_step"] < 0 and not getattr(spec, "_initializing", False):
            subs = {n.rpartition(".")[2] for n in sys.modules if n.startswith(name + ".")}
            out["public"][name] = sorted(
                n for n in vars(mod) if not n.startswith("_") and not (n in subs and getattr(vars(mod)[n], "__name__", "") == name + "." + n)
            )
print(json.dumps(out))
"""


def real_run(root: str, steps: list[str]) -> dict:
    real_steps = []
    for st in steps:
        if st.startswith("call "):
            mod = st[5:].rsplit(".", 1)[0]
            real_steps.append(("call", f"import {mod}\n{REAL_CALLS[st]}"))
        else:
            real_steps.append(("import", f"import {st}"))
    env = {
        "PATH": os.environ.get("PATH", "/usr/bin:/bin"),
        "PYTHONPATH": root,
        "PYTHONDONTWRITEBYTECODE": "1",
        "PYTHONHASHSEED": "0",
    }
    p = subprocess.run(
        [PYTHON, "-c", CHILD, json.dumps(real_steps), root, PKG],
        cwd=root,
        env=env,
        capture_output=True,
        text=True,
        timeout=120,
    )
    if p.returncode != 0 or not p.stdout.strip():
        return {"failed_step": -2, "exc": "HARNESS", "msg": (p.stderr or "")[-400:], "public": {}, "file_ok": False}
    return json.loads(p.stdout.strip().splitlines()[-1])


# --------------------------------------------------------------------------------------------------
# main
# --------------------------------------------------------------------------------------------------


def build_variant(base: str, name: str, edits) -> str:
    root = os.path.join(base, name)
    os.makedirs(root)
    dst = os.path.join(root, PKG)
    shutil.copytree(SRC, dst, ignore=shutil.ignore_patterns("__pycache__", "*.pyc"))
    for fname, fn in edits:
        p = os.path.join(dst, fname)
        with open(p, "r", encoding="utf-8") as fh:
            src = fh.read()
        new = fn(src)
        assert new != src, f"{name}: edit of {fname} changed nothing"
        with open(p, "w", encoding="utf-8") as fh:
            fh.write(new)
    return root


def simulate_variant(name: str, root: str, sequences: list[list[str]]):
    """Machine side for one variant (runs in a worker process)."""
    pkg_dir = os.path.join(root, PKG)
    quick = analyse(pkg_dir, PKG, "quick")
    thorough = analyse(pkg_dir, PKG, "thorough")
    machine = ImportMachine(pkg_dir, PKG)
    return name, quick, thorough, [machine.run_sequence(steps) for steps in sequences]


def main() -> int:
    verbose = "-v" in sys.argv[1:]
    base = tempfile.mkdtemp(prefix="importsim_validate_", dir="/tmp")
    disagreements: list[str] = []
    n_sequences = 0
    n_name_checks = 0
    n_conservative = 0
    expect_of = {n: e for n, _ed, e, _x in VARIANTS}
    try:
        # the variants are built first; then 16 worker processes run the machine on them while
        # 16 threads drive the fresh-interpreter ground-truth processes
        roots = {name: build_variant(base, name, edits) for name, edits, _e, _x in VARIANTS}
        modules = sorted(ImportMachine(os.path.join(roots["head"], PKG), PKG).mods)
        jobs = []  # (variant, root, steps)
        for name, _edits, _expect, extra in VARIANTS:
            for steps in [[m] for m in modules] + GENERIC_SEQUENCES + extra:
                jobs.append((name, roots[name], steps))
        sims: dict[tuple[str, tuple[str, ...]], object] = {}
        reports = {}
        with ProcessPoolExecutor(max_workers=JOBS) as procs, ThreadPoolExecutor(max_workers=JOBS) as pool:
            sim_futs = [
                procs.submit(simulate_variant, name, roots[name], [j[2] for j in jobs if j[0] == name])
                for name, *_ in VARIANTS
            ]
            reals = list(pool.map(lambda j: real_run(j[1], j[2]), jobs))
            for fut in sim_futs:
                name, quick, thorough, results = fut.result()
                reports[name] = (quick, thorough)
                for r in results:
                    sims[(name, tuple(r.steps))] = r

        real_first_fail: dict[str, set[str]] = {n: set() for n, *_ in VARIANTS}
        for (name, root, steps), real in zip(jobs, reals):
            n_sequences += 1
            sim = sims[(name, tuple(steps))]
            tag = f"{name}: {' ; '.join(steps)}"
            if real["failed_step"] == -2 or not real["file_ok"]:
                disagreements.append(f"{tag}: harness problem: {real['msg']}")
                continue
            if len(steps) == 1 and real["failed_step"] == 0:
                real_first_fail[name].add(steps[0])
            if expect_of[name] == "over" and sim.failed_step >= 0 and (
                real["failed_step"] < 0 or real["failed_step"] >= sim.failed_step
            ):
                if sim.failed_step != real["failed_step"]:
                    n_conservative += 1
                continue
            if sim.failed_step != real["failed_step"]:
                disagreements.append(
                    f"{tag}: machine failed_step={sim.failed_step} "
                    f"({sim.failure.render() if sim.failure else 'ok'}) but CPython failed_step="
                    f"{real['failed_step']} ({real['exc']}: {real['msg']})"
                )
                continue
            if sim.failed_step >= 0:
                want = EXC_OF_KIND.get(sim.failure.kind)
                got = "ImportError" if real["exc"] == "ModuleNotFoundError" else real["exc"]
                if want != got:
                    disagreements.append(f"{tag}: machine kind {sim.failure.kind!r} but CPython raised {real['exc']}: {real['msg']}")
            else:
                # same public names bound in every module that got imported
                n_name_checks += 1
                for mod, names in real["public"].items():
                    simnames = sim.public_names.get(mod)
                    if simnames is None:
                        disagreements.append(f"{tag}: CPython imported {mod}, machine did not")
                    elif simnames != names:
                        a, b = set(simnames), set(names)
                        disagreements.append(
                            f"{tag}: public names of {mod} differ: machine-only {sorted(a - b)}, CPython-only {sorted(b - a)}"
                        )
                for mod in sim.public_names:
                    if mod not in real["public"]:
                        disagreements.append(f"{tag}: machine imported {mod}, CPython did not")
            if verbose:
                print("agree", tag, "->", "ok" if sim.failed_step < 0 else f"fails at step {sim.failed_step} ({real['exc']})")

        # analyse() itself: first-import verdicts in both tiers, expectations, side conditions
        for name, edits, expect, extra in VARIANTS:
            quick, thorough = reports[name]
            truth = sorted(real_first_fail[name])
            for rep in (quick, thorough):
                got = rep.failing_first_imports()
                if expect == "over":
                    if not set(truth) <= set(got) or not rep.side_conditions:
                        disagreements.append(f"{name}: analyse({rep.tier}) is not a sound over-approximation: {got} vs CPython {truth}")
                    continue
                if got != truth:
                    disagreements.append(f"{name}: analyse({rep.tier}) failing first imports {got} != CPython {truth}")
                v = sorted(m for m, s in rep.first_import_verdicts.items() if s == "fail")
                if v != truth:
                    disagreements.append(f"{name}: analyse({rep.tier}) verdict table {v} != CPython {truth}")
            # (the last key component is the first module of the witness path, which depends on the
            # path under which the thorough tier memoised the node -> compare without it)
            if {f.key().rsplit("|", 1)[0] for f in quick.failures} - {f.key().rsplit("|", 1)[0] for f in thorough.failures}:
                disagreements.append(f"{name}: quick tier reports a failure the thorough tier does not")
            if expect == "clean" and (truth or quick.failures or thorough.failures or quick.side_conditions):
                disagreements.append(f"{name}: expected clean, got truth={truth} failures={len(thorough.failures)} side={len(quick.side_conditions)}")
            if expect == "fails" and not truth:
                disagreements.append(f"{name}: expected at least one failing first import; CPython reports none (vacuous variant)")
            if expect.startswith("side"):
                want = expect.partition(":")[2]
                hits = [f for f in quick.side_conditions if want in f.detail]
                if truth or thorough.failures or not hits or thorough.side_conditions != quick.side_conditions:
                    disagreements.append(
                        f"{name}: expected only a side-condition finding mentioning {want!r}, got truth={truth} "
                        f"failures={len(thorough.failures)} side={[f.detail for f in quick.side_conditions]}"
                    )
            if verbose:
                print(f"variant {name}: failing first imports {truth}; thorough states={thorough.states} "
                      f"transitions={thorough.transitions} failures={len(thorough.failures)} side={len(quick.side_conditions)}")
    finally:
        shutil.rmtree(base, ignore_errors=True)

    if disagreements:
        for d in disagreements:
            print("DISAGREEMENT", d)
        print(f"IMPORTSIM-VALIDATE FAILED variants={len(VARIANTS)} sequences={n_sequences} disagreements={len(disagreements)}")
        return 1
    print(f"IMPORTSIM-VALIDATE ok variants={len(VARIANTS)} sequences={n_sequences} disagreements=0")
    print(
        f"  ({n_name_checks} successful sequences also compared name-for-name; {n_conservative} sequences of the "
        f"try/except-swallowed-cycle variant are deliberately conservative: machine FAIL + side-condition, CPython swallows)"
    )
    return 0


if __name__ == "__main__":
    raise SystemExit(main())
