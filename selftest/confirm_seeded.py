#!/venv/bin/python
"""Confirm sub-agent mutants independently and file them under /verif/seeded/<prop>-<k>/.

For each /tmp/mut/<prop>/out/<k>/: fresh scratch worktree of /repo HEAD (under /tmp), demo must exit 0 on the clean
tree; apply patch.diff; the pinned suite must still give exactly the baseline (251 passed, the 1 known failure);
demo must exit 1.  The worktree is removed afterwards.  Development tool: not a MANIFEST command."""
import json, os, shutil, subprocess, sys
from concurrent.futures import ThreadPoolExecutor

SRC = os.environ.get("SEED_SRC", "/tmp/mut")
DST = "/verif/seeded"
OFFSET = int(os.environ.get("SEED_OFFSET", "0"))  # round 2 is filed as <prop>-<k+3>


def sh(cmd, cwd=None, timeout=600):
    p = subprocess.run(cmd, shell=True, cwd=cwd, capture_output=True, text=True, timeout=timeout)
    return p.returncode, p.stdout + p.stderr


def confirm(prop, k):
    src = f"{SRC}/{prop}/out/{k}"
    name = f"{prop}-{int(k) + OFFSET}" if str(k).isdigit() else f"{prop}-{k}"
    if not os.path.exists(f"{src}/patch.diff") or not os.path.exists(f"{src}/demo.py"):
        return name, False, "missing files"
    if os.path.exists(f"{DST}/{name}/meta.json"):
        return name, True, "already filed"
    wt = f"/tmp/confirm/{name}"
    sh(f"git -C /repo worktree remove --force {wt}")
    shutil.rmtree(wt, ignore_errors=True)
    rc, out = sh(f"git -C /repo worktree add -q --detach {wt} HEAD")
    if rc:
        return name, False, "worktree: " + out[-200:]
    try:
        shutil.copy(f"{src}/demo.py", f"{wt}/_demo.py")
        rc0, o0 = sh("/venv/bin/python _demo.py", cwd=wt)
        rc, out = sh(f"git apply {src}/patch.diff", cwd=wt)
        if rc:
            return name, False, "apply: " + out[-300:]
        rct, ot = sh("/venv/bin/python -m pytest -q -p no:cacheprovider -x --deselect tests/test_instrument.py::TestNoteEvent::TestEndTick::test_wrapper 2>&1 | tail -3", cwd=wt)
        passed = "251 passed" in ot and "failed" not in ot
        rc1, o1 = sh("/venv/bin/python _demo.py", cwd=wt)
        ok = rc0 == 0 and rc1 == 1 and passed
        detail = f"clean demo rc={rc0}, tests={'251 passed' if passed else ot.strip()[-120:]}, mutated demo rc={rc1}"
        if ok:
            os.makedirs(f"{DST}/{name}", exist_ok=True)
            shutil.copy(f"{src}/patch.diff", f"{DST}/{name}/patch.diff")
            shutil.copy(f"{src}/demo.py", f"{DST}/{name}/demo.py")
            try:
                meta = json.load(open(f"{src}/meta.json"))
            except Exception:
                meta = {"property": prop}
            meta["property"] = prop
            meta["confirmed"] = {
                "what_i_ran": [
                    "git -C /repo worktree add --detach <scratch> HEAD",
                    "python demo.py  (clean tree)  -> exit 0",
                    "git apply patch.diff",
                    "python -m pytest -q -p no:cacheprovider (known failing test deselected) -> 251 passed",
                    "python demo.py  (mutated tree) -> exit 1",
                    "git worktree remove --force <scratch>",
                ],
                "result": detail,
                "demo_output_tail": o1.strip()[-400:],
            }
            json.dump(meta, open(f"{DST}/{name}/meta.json", "w"), indent=1)
        return name, ok, detail
    finally:
        sh(f"git -C /repo worktree remove --force {wt}")
        shutil.rmtree(wt, ignore_errors=True)


def main():
    jobs = []
    props = sys.argv[1:] or sorted(os.listdir(SRC))
    for prop in props:
        d = f"{SRC}/{prop}/out"
        if not os.path.isdir(d):
            continue
        for k in sorted(os.listdir(d)):
            jobs.append((prop, k))
    with ThreadPoolExecutor(8) as ex:
        for name, ok, detail in ex.map(lambda a: confirm(*a), jobs):
            print(("CONFIRMED " if ok else "REJECTED  ") + name + " : " + detail)
    sh("git -C /repo worktree prune")


if __name__ == "__main__":
    main()
