#!/venv/bin/python
"""Refactoring x seeded-change combinations, at scale.

For every filed behaviour-preserving refactoring R (selftest/refactorings/*.diff) that all checks accept, and every seeded change M
(seeded/<Cxx>-<k>/patch.diff) that touches a file R touches and still applies on top of R (patch -F1), the check of M's own
property is run on tree + R + M.  R preserves behaviour, so R + M breaks the property like M does, and the check must still report
it: a silent pair is a place where a normal form (second chance, desugaring, admitted spelling) hides a defect -- or where the
two patches interact so that M's defect disappears (triage by hand).
Development tool: not a MANIFEST command.   usage: cross_combos.py [--jobs N] [--refs glob] [--limit N]"""
import argparse, glob, os, re, shutil, subprocess, sys, tempfile
from concurrent.futures import ThreadPoolExecutor

REFS = "/verif/selftest/refactorings"
SEEDED = "/verif/seeded"


def files_of(patch):
    return set(re.findall(r"^\+\+\+ b/(\S+)", open(patch).read(), re.M))


def sh(cmd, cwd=None):
    p = subprocess.run(cmd, shell=True, cwd=cwd, capture_output=True, text=True)
    return p.returncode, p.stdout + p.stderr


def job(args):
    ref, muts = args
    base = tempfile.mkdtemp(prefix="xc-", dir="/tmp")
    out = []
    try:
        shutil.copytree("/repo/chartparse", base + "/chartparse")
        rc, _ = sh(f"patch -p1 -s -F0 < {ref}", cwd=base)
        if rc:
            return [(os.path.basename(ref), None, "REF-PATCH-FAIL")]
        for m in muts:
            prop = m.split("-")[0]
            d = tempfile.mkdtemp(prefix="xcm-", dir="/tmp")
            try:
                shutil.copytree(base + "/chartparse", d + "/chartparse")
                rc, _ = sh(f"patch -p1 -s -F1 < {SEEDED}/{m}/patch.diff", cwd=d)
                if rc:
                    out.append((os.path.basename(ref), m, "no-apply"))
                    continue
                try:
                    for root, _, fs in os.walk(d + "/chartparse"):
                        for f in fs:
                            if f.endswith(".py"):
                                compile(open(os.path.join(root, f)).read(), f, "exec")
                            elif f.endswith((".orig", ".rej")):
                                os.remove(os.path.join(root, f))
                except SyntaxError:
                    out.append((os.path.basename(ref), m, "no-apply"))
                    continue
                rc, o = sh(f"/verif/check {prop} --root {d} --evidence-dir {d}/ev", cwd="/verif")
                out.append((os.path.basename(ref), m, {0: "SILENT", 1: "reported", 2: "ERR"}.get(rc, str(rc))))
            finally:
                shutil.rmtree(d, ignore_errors=True)
        return out
    finally:
        shutil.rmtree(base, ignore_errors=True)


def main():
    ap = argparse.ArgumentParser()
    ap.add_argument("--jobs", type=int, default=12)
    ap.add_argument("--refs", default=f"{REFS}/*.diff")
    ap.add_argument("--limit", type=int, default=0)
    a = ap.parse_args()
    muts = {m: files_of(f"{SEEDED}/{m}/patch.diff") for m in sorted(os.listdir(SEEDED)) if os.path.exists(f"{SEEDED}/{m}/patch.diff")}
    jobs = []
    for ref in sorted(glob.glob(a.refs)):
        fs = files_of(ref)
        ms = [m for m, mf in muts.items() if mf & fs]
        if a.limit:
            ms = ms[: a.limit]
        # split into chunks so that the pool stays busy
        for i in range(0, len(ms), 25):
            jobs.append((ref, ms[i:i + 25]))
    tot = {"reported": 0, "SILENT": 0, "no-apply": 0, "ERR": 0}
    with ThreadPoolExecutor(a.jobs) as ex:
        for res in ex.map(job, jobs):
            for ref, m, st in res:
                tot[st] = tot.get(st, 0) + 1
                if st not in ("reported", "no-apply"):
                    print(f"{st:8s} {ref} + {m}", flush=True)
    print("totals:", tot)


if __name__ == "__main__":
    main()
