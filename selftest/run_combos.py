#!/venv/bin/python
"""Refactoring + defect combinations: a behaviour-preserving refactoring that needs the second-chance normal form (a private helper
inlined at its call site, DESIGN A.2 item 8) is applied to a scratch copy, then one behaviour-changing edit is made *inside the new
helper*.  The listed checks must still report a violation (the normal form must not hide what the helper does).
Development tool: not a MANIFEST command."""
import os, re, shutil, subprocess, sys, tempfile

R = "/verif/selftest/refactorings/"
COMBOS = [
    # (refactoring, file, regex, replacement, checks that must report)
    ("ben7-4.diff", "chart.py", r"if end is not None", "if end", ["C16"]),
    ("ben5-1.diff", "sync.py", r"(?m)^    return m\.groups\(\)$", "    return m.groups()[::-1]", ["C01", "C08", "C14"]),
    ("ben7-3.diff", "chart.py", r"if want_tracks is not None and", "if want_tracks and", ["C13"]),
    ("ben5-2.diff", "sync.py", r"if tick <= prev_event\.tick:", "if tick < prev_event.tick:", ["C15", "C12"]),
    ("ben7-2.diff", "chart.py", r"return m\.group\(1\)", "return m.group(0)", ["C06"]),
    ("ben6-5.diff", "instrument.py", r"(?m)^    if not m:$", "    if m is None and line:", ["C02", "C07", "C14"]),
    # helpers that return from inside their loop (expanded to the loop with breaks)
    ("ben6-4.diff", "instrument.py", r"if not star_power_events\[candidate_index\]\.tick_is_after_event\(tick\):\n\s+return candidate_index",
     "if star_power_events[candidate_index].tick_is_during_event(tick):\n                return candidate_index", ["C05"]),
    ("ben7-5.diff", "track.py", r"(?m)^        m\[t\]\.append\(data\)\n        return True", "        return True", ["C14", "C02"]),
    ("ben7-5.diff", "track.py", r"(?m)^    return False$", "    return True", ["C14"]),
    # a tail call `return self._helper(...)` expanded to the helper's body
    ("ben13-6.diff", "sync.py", r"for index in range\(first_candidate_index, index_of_last_event\):", "for index in range(first_candidate_index + 1, index_of_last_event):", ["C11", "C01"]),
    # a pure boolean helper inlined in the middle of a condition
    ("ben14-6.diff", "instrument.py", r"(?m)^        return not note\.is_chord\(\)$", "        return True", ["C04"]),
    # a generator whose yield sits in an elif arm, fused into the consuming loop
    ("ben15-5.diff", "chart.py", r"yield curr_header_tag, curr_first_line_index, i - 1", "yield curr_header_tag, curr_first_line_index, i", ["C06", "C02"]),
    # constructor reached through a parameter annotated type[C]
    ("ben15-3.diff", "track.py", r"return bpm_events_type\(events=events, resolution=resolution\)", "return bpm_events_type(events=events[:1] + events[1:], resolution=resolution)", []),
    # helper whose fall-through result is `hi - 1` (T1b): the guard that makes the range non-empty is part of what is proved
    ("ben14-2.diff", "instrument.py", r"if proximal_star_power_event_index >= len\(star_power_events\):", "if proximal_star_power_event_index > len(star_power_events):", ["C05", "C18"]),
    ("ben14-2.diff", "instrument.py", r"return len\(star_power_events\) - 1", "return len(star_power_events) - 2", ["C05"]),
    # "find the first ... or None" helper followed by the test of its result (T3)
    ("ben19-5.diff", "track.py", r"(?m)^        return t, data$", "        return types[0], data", ["C14", "C02"]),
    # a private generator fused into the loop that consumes it
    ("ben6-1.diff", "instrument.py", r"(?m)^            left = right$", "            left = right + 1", ["C02", "C18"]),
    ("ben6-1.diff", "instrument.py", r"datas\[last \+ 1\]\.tick == datas\[last\]\.tick", "datas[last + 1].tick >= datas[last].tick", ["C02"]),
    # metadata helpers cut differently (field tracer, sa/rules/fieldtrace.py): defects inside the new helpers
    ("ben16-1.diff", "metadata.py", r"kwargs\[field_name\] = _parse_all_lines_for_field\(lines, field_name\)", "kwargs.setdefault(field_name, _parse_all_lines_for_field(lines, field_name))", ["C10"]),
    ("ben16-1.diff", "metadata.py", r"for line in lines:\n        m = regex_prog\.match\(line\)", "for line in lines[1:]:\n        m = regex_prog.match(line)", ["C10"]),
    ("ben16-1.diff", "metadata.py", r"regex_not_match_callback=lambda: raise_\(MissingRequiredField\(field_name\)\),", "regex_not_match_callback=None,", ["C10"]),
    ("ben16-1.diff", "metadata.py", r'_maybe_set_kwarg\(kwargs, lines, "year"\)', '_maybe_set_kwarg(dict(kwargs), lines, "year")', ["C10"]),
    ("ben8-2.diff", "metadata.py", r"(?m)^                if required:$", "                if not required:", ["C10"]),
    ("ben8-2.diff", "metadata.py", r"set_kwarg\(field_name, required=False\)", "set_kwarg(field_name, required=field_name.startswith('pre'))", ["C10"]),
    ("ben8-1.diff", "metadata.py", r"return self\.processing_fn\(m\.group\(1\)\)", "return self.processing_fn(m.group(0))", ["C10"]),
    ("ben8-1.diff", "metadata.py", r"spec = _field_parsing_specs\[field_name\]", "spec = _field_parsing_specs.get(field_name, _field_parsing_specs['name'])", ["C10"]),
    ("ben16-2.diff", "metadata.py", r"parse_all_lines_for_field\(_field_parsing_specs\[field_name\]\)", "parse_all_lines_for_field(_field_parsing_specs['album' if field_name == 'artist' else field_name])", ["C10"]),
    ("ben24-1.diff", "metadata.py", r"(?m)^        if regex_not_match_callback is not None:$", "        if regex_not_match_callback is None:", ["C10", "C18"]),
    # "find the first ... or None" helper returning the element (T3) for the open note: the dead carry of the expanded local is admitted,
    # a defect inside the helper is not
    ("ben6-2.diff", "instrument.py", r"(?m)^            return d$", "            return datas[0]", ["C03"]),
    ("ben6-2.diff", "instrument.py", r"if open_data is not None:\n        return open_data\.sustain", "if open_data is not None and open_data.sustain:\n        return open_data.sustain", ["C03"]),
    # single-exit style (`x = V; break ... else: x = W ... return x`) turned back into returns by tail duplication (T5)
    ("ben29-2.diff", "sync.py", r"(?m)^            index = index_of_last_event$", "            index = index_of_last_event - 1", ["C11", "C01"]),
    ("ben29-2.diff", "sync.py", r"(?m)^                break\n        else:", "                index += 1\n                break\n        else:", ["C11"]),
    ("ben30-4.diff", "instrument.py", r"(?m)^            sustain = d\.sustain\n            break", "            sustain = datas[0].sustain\n            break", ["C03"]),
    ("ben32-2.diff", "metadata.py", r"(?m)^            return _field_parsing_specs\[field_name\]\.processing_fn\(m\.group\(1\)\)", "            return _field_parsing_specs[field_name].processing_fn(m.group(0))", ["C10"]),
    # `with contextlib.suppress(E)` is `try ... except E: pass`: a validator's error swallowed that way is still seen
    ("ben29-6.diff", "sync.py", r"with contextlib\.suppress\(TypeError\):", "with contextlib.suppress(TypeError, ValueError):", ["C08"]),
    # `match` desugared to if/elif: a defect in a case is still seen
    ("ben29-3.diff", "time.py", r"case float\(\):", "case float() | int():", ["C01"]),
    # a private generator drained by str.join is evaluated as the list builder it is: a defect inside it is still seen
    ("ben32-4.diff", "util.py", r"if isinstance\(v, Sequence\) and len\(v\) > 1:", "if isinstance(v, Sequence):", ["C18"]),
    ("ben31-5.diff", "chart.py", r'yield f"\{self\.sync_track\}"', 'yield f"{self.sync_track:>10d}"', ["C18"]),
    # guard-style option helper (`m = _first(...); if m is None: raise; use m`) and a scan returning the range variable or None
    ("ben36-2.diff", "metadata.py", r"(?m)^        if m:\n            return m$", "        if m and line:\n            return m", ["C10"]),
    ("ben36-2.diff", "metadata.py", r"processing_fn\(m\.group\(1\)\)", "processing_fn(m.group(0))", ["C10"]),
    ("ben33-6.diff", "sync.py", r"for index in range\(start_index, index_of_last_event\):", "for index in range(start_index + 1, index_of_last_event):", ["C11", "C01"]),
    # a private procedure called as a statement in the routing loop (spliced): a defect inside it is still seen
    ("ben35-1.diff", "chart.py", r"if want_tracks is not None and", "if want_tracks and", ["C13"]),
    ("ben35-1.diff", "chart.py", r"instrument_tracks\.setdefault\(instrument, dict\(\)\)\[difficulty\] = track", "instrument_tracks.setdefault(instrument, dict()).setdefault(difficulty, track)", ["C06", "C13"]),
]


def main():
    bad = 0
    for ref, file, pat, rep, props in COMBOS:
        d = tempfile.mkdtemp(prefix="combo-", dir="/tmp")
        try:
            shutil.copytree("/repo/chartparse", d + "/chartparse")
            if subprocess.run(f"patch -p1 -s < {R}{ref}", shell=True, cwd=d).returncode:
                print(ref, "PATCH-FAIL"); bad += 1; continue
            # the refactoring alone must be silent
            for p in props:
                rc = subprocess.run(["/verif/check", p, "--root", d, "--evidence-dir", d + "/ev"], capture_output=True, text=True).returncode
                if rc != 0:
                    print(f"{ref} alone: {p} exit {rc} (expected silent)"); bad += 1
            path = f"{d}/chartparse/{file}"
            src = open(path).read()
            new, n = re.subn(pat, rep, src, count=1)
            if n != 1:
                print(ref, "edit did not apply"); bad += 1; continue
            open(path, "w").write(new)
            compile(new, path, "exec")
            for p in props:
                rc = subprocess.run(["/verif/check", p, "--root", d, "--evidence-dir", d + "/ev"], capture_output=True, text=True).returncode
                print(f"{ref} + {rep.strip()!r}: {p} -> {'reported' if rc == 1 else 'NOT REPORTED (exit %d)' % rc}")
                bad += rc != 1
        finally:
            shutil.rmtree(d, ignore_errors=True)
    print("problems:", bad)
    return 1 if bad else 0


if __name__ == "__main__":
    sys.exit(main())
