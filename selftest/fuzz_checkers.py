#!/venv/bin/python
"""Robustness fuzzing of the checkers: apply classic syntactic mutation operators (comparison / arithmetic / boolean operator
swaps, constant tweaks, statement deletion, condition negation, argument swaps, return-value changes) to scratch copies of
/repo/chartparse and run every check.  Purpose: find inputs on which a checker *crashes* or reports ANALYSIS-ERROR (exit 2)
instead of deciding; and get a rough picture of how many syntactic mutants are noticed at all.  Whether a given mutant breaks a
property is NOT known here (many are equivalent or test-killed), so silent mutants are listed, not judged.
Development tool: not a MANIFEST command.   usage: fuzz_checkers.py [N] [seed]"""
import ast, os, random, shutil, subprocess, sys, tempfile, json
from concurrent.futures import ThreadPoolExecutor

SRC = "/repo/chartparse"
PROPS = [f"C{i:02d}" for i in range(1, 21)]
SKIP_FILES = {"hints.py", "__init__.py"}


def sites(tree):
    out = []
    for n in ast.walk(tree):
        if isinstance(n, ast.Compare) and len(n.ops) == 1:
            out.append(("cmp", n))
        elif isinstance(n, ast.BinOp) and isinstance(n.op, (ast.Add, ast.Sub, ast.Mult, ast.Div, ast.FloorDiv, ast.Pow)):
            out.append(("binop", n))
        elif isinstance(n, ast.BoolOp):
            out.append(("boolop", n))
        elif isinstance(n, ast.Constant) and isinstance(n.value, int) and not isinstance(n.value, bool):
            out.append(("int", n))
        elif isinstance(n, ast.If):
            out.append(("negif", n))
        elif isinstance(n, ast.UnaryOp) and isinstance(n.op, ast.Not):
            out.append(("dropnot", n))
        elif isinstance(n, ast.Call) and len(n.args) >= 2:
            out.append(("swapargs", n))
        elif isinstance(n, (ast.FunctionDef,)):
            for i, s in enumerate(n.body):
                if isinstance(s, (ast.Expr, ast.Assign, ast.AugAssign, ast.Raise, ast.If)) and not (isinstance(s, ast.Expr) and isinstance(s.value, ast.Constant)) and len(n.body) > 1:
                    out.append(("delstmt", (n, i)))
        elif isinstance(n, ast.Break):
            out.append(("break2continue", n))
        elif isinstance(n, ast.Subscript) and isinstance(n.slice, ast.Constant) and n.slice.value in (0, -1):
            out.append(("index", n))
    return out


def mutate(kind, n, rnd):
    if kind == "cmp":
        alt = {ast.Lt: [ast.LtE, ast.Gt], ast.LtE: [ast.Lt, ast.GtE], ast.Gt: [ast.GtE, ast.Lt], ast.GtE: [ast.Gt, ast.LtE],
               ast.Eq: [ast.NotEq], ast.NotEq: [ast.Eq], ast.Is: [ast.IsNot], ast.IsNot: [ast.Is], ast.In: [ast.NotIn], ast.NotIn: [ast.In]}
        c = alt.get(type(n.ops[0]))
        if not c:
            return False
        n.ops = [rnd.choice(c)()]
        return True
    if kind == "binop":
        alt = {ast.Add: ast.Sub, ast.Sub: ast.Add, ast.Mult: ast.Div, ast.Div: ast.Mult, ast.FloorDiv: ast.Div, ast.Pow: ast.Mult}
        n.op = alt[type(n.op)]()
        return True
    if kind == "boolop":
        n.op = ast.Or() if isinstance(n.op, ast.And) else ast.And()
        return True
    if kind == "int":
        n.value = n.value + rnd.choice([1, -1])
        return True
    if kind == "negif":
        n.test = ast.UnaryOp(op=ast.Not(), operand=n.test)
        return True
    if kind == "dropnot":
        n.op = ast.UAdd() if False else n.op
        # replace `not x` by `x`: mutate in place by turning into `not not x`
        n.operand = ast.UnaryOp(op=ast.Not(), operand=n.operand)
        return True
    if kind == "swapargs":
        n.args[0], n.args[1] = n.args[1], n.args[0]
        return True
    if kind == "delstmt":
        f, i = n
        f.body[i] = ast.Pass()
        return True
    if kind == "break2continue":
        return False
    if kind == "index":
        n.slice = ast.Constant(value=-1 if n.slice.value == 0 else 0)
        return True
    return False


def one(i, seed):
    rnd = random.Random(seed * 100003 + i)
    files = sorted(f for f in os.listdir(SRC) if f.endswith(".py") and f not in SKIP_FILES)
    f = rnd.choice(files)
    src = open(os.path.join(SRC, f)).read()
    tree = ast.parse(src)
    ss = sites(tree)
    if not ss:
        return None
    kind, node = rnd.choice(ss)
    line = getattr(node, "lineno", None) or (node[0].body[node[1]].lineno if isinstance(node, tuple) else 0)
    if not mutate(kind, node, rnd):
        return None
    ast.fix_missing_locations(tree)
    try:
        new = ast.unparse(tree)
        compile(new, f, "exec")
    except Exception:
        return None
    tmp = tempfile.mkdtemp(prefix=f"fuzz-{i}-", dir="/tmp")
    try:
        shutil.copytree(SRC, f"{tmp}/chartparse")
        open(f"{tmp}/chartparse/{f}", "w").write(new + "\n")
        res = {}
        for p in PROPS:
            pr = subprocess.run(["/verif/check", p, "--root", tmp, "--evidence-dir", f"{tmp}/ev"], cwd="/verif", capture_output=True, text=True)
            res[p] = pr.returncode
            if pr.returncode == 2:
                res[p + "_msg"] = [l for l in pr.stdout.splitlines() if "ANALYSIS-ERROR" in l][:1] + pr.stderr.strip().splitlines()[-3:]
        return {"i": i, "file": f, "line": line, "kind": kind, "res": res}
    finally:
        shutil.rmtree(tmp, ignore_errors=True)


def main():
    n = int(sys.argv[1]) if len(sys.argv) > 1 else 100
    seed = int(sys.argv[2]) if len(sys.argv) > 2 else 1
    results = []
    with ThreadPoolExecutor(16) as ex:
        for r in ex.map(lambda i: one(i, seed), range(n)):
            if r:
                results.append(r)
    crashes = [r for r in results if any(v == 2 for k, v in r["res"].items() if not k.endswith("_msg"))]
    noticed = [r for r in results if any(v == 1 for k, v in r["res"].items() if not k.endswith("_msg"))]
    silent = [r for r in results if all(v == 0 for k, v in r["res"].items() if not k.endswith("_msg"))]
    print(f"mutants: {len(results)}  reported by >=1 check: {len(noticed)}  silent: {len(silent)}  with exit 2: {len(crashes)}")
    for r in crashes:
        bad = [k for k, v in r["res"].items() if v == 2]
        print(f"  EXIT2 #{r['i']} {r['file']}:{r['line']} {r['kind']} -> {bad}")
        for k in bad[:2]:
            for m in r["res"].get(k + "_msg", [])[:4]:
                print("       ", m[:220])
    print("silent mutants (not judged):")
    for r in silent:
        print(f"  #{r['i']} {r['file']}:{r['line']} {r['kind']}")
    json.dump(results, open("/tmp/fuzz_results.json", "w"))


if __name__ == "__main__":
    main()
