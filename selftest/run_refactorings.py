#!/venv/bin/python
"""Run all 20 checks on scratch copies with each independent behaviour-preserving refactoring applied.
Sources: /tmp/ben/<n>/out/<k>/patch.diff while a round is in flight, and /verif/selftest/refactorings/<name>.diff once filed.
Development tool: not a MANIFEST command."""
import glob, os, shutil, subprocess, sys, tempfile
from concurrent.futures import ThreadPoolExecutor
PROPS = [f"C{i:02d}" for i in range(1, 21)]
pats = sys.argv[1:] or sorted(glob.glob('/verif/selftest/refactorings/*.diff'))


def run(path):
    tmp = tempfile.mkdtemp(prefix='rf-', dir='/tmp')
    try:
        shutil.copytree('/repo/chartparse', tmp + '/chartparse')
        rc = subprocess.run(f'patch -p1 -s < {path}', shell=True, cwd=tmp, capture_output=True, text=True)
        if rc.returncode:
            return path, 'PATCH-FAIL', []
        alarms = []
        for p in PROPS:
            pr = subprocess.run(['/verif/check', p, '--root', tmp, '--evidence-dir', tmp + '/ev'], cwd='/verif', capture_output=True, text=True)
            if pr.returncode != 0:
                alarms.append((p, pr.returncode, [l.strip()[:300] for l in pr.stdout.splitlines() if l.strip().startswith(('FINDING', 'ANALYSIS'))][:2]))
        return path, 'ok', alarms
    finally:
        shutil.rmtree(tmp, ignore_errors=True)


# refactorings outside the verified forms even after the second-chance normal form (DESIGN A.7): reported as "unproven"
KNOWN_UNPROVEN = {
    "ben14-1.diff": "grouping rewritten as a different algorithm (for right in range(1, n+1) with continue) inside a generator: not in the S1 family",
    "ben22-4.diff": "grouping rewritten as a third algorithm (for i in range(1, n) with continue, a second yield after the loop) inside a generator",
}
bad = 0
with ThreadPoolExecutor(8) as ex:
    for path, st, alarms in ex.map(run, pats):
        name = os.path.basename(path)
        known = name in KNOWN_UNPROVEN and path.startswith('/verif/') and alarms and all(rc == 1 for _, rc, _ in alarms)
        print(path.replace('/verif/selftest/refactorings/', ''), '|', st, '|', 'all silent' if not alarms else
              ('known-unproven ' if known else 'ALARMS ') + ' '.join(f'{p}:{rc}' for p, rc, _ in alarms))
        if known:
            continue
        for p, rc, fs in alarms:
            bad += 1
            for x in fs[:1]:
                print('     ', p, x)
print('alarms', bad)
