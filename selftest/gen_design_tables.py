#!/venv/bin/python
"""Regenerate the generated appendices of DESIGN.md (between the BEGIN/END GENERATED markers):
  appendix D -- which checks report which seeded change (from a `run_seeded.py --all` log given as argv[1]);
  appendix E -- the premises each check evaluates on the current tree (rule id, text, instances), from /verif/evidence.
Development tool: not a MANIFEST command."""
import glob, json, os, re, sys

VERIF = "/verif"


def appendix_d(logpath):
    rows = [l for l in open(logpath) if re.match(r"^C\d\d-\d+\s", l)]
    out = ["## Appendix D — which checks report which seeded change (generated)", "",
           "Every change under `/verif/seeded/` was applied to a scratch copy and *all* 20 quick checks were run on it",
           "(`selftest/run_seeded.py --all`). `own` = the check of the property the change was written against; `also` = other checks",
           "that report it (because they share the broken premise, A.2 item 4). Round: 0 = original defect re-introduced, 1–3 = first",
           "round (engine core only existed), 4–6 = second round (outside the anchors / cooperating edits), 7–9 = third round, 10–12 = fourth (value-level), 13–15 = fifth (improvements gone wrong), 16–18 = sixth (indirection), 19–21 = seventh (semantic subtleties), 22–24 = eighth (edge paths and evolution), 25–27 = ninth (the fix that breaks), 28–30 = tenth (informed adversaries), 31–33 = eleventh (informed, second attempt), 34–36 = twelfth (plain), 37–39 = thirteenth (secondary paths), 40–42 = fourteenth (plain), 43–45 = fifteenth (feature commits), 46–48 = sixteenth (informed, third attempt), 49–51 = seventeenth (plain, second idea), 52–54 = eighteenth (modernisation gone wrong).", "",
           "| change | what it does | own | also reported by |", "|---|---|---|---|"]
    n = own_ok = 0
    for l in rows:
        name = l.split()[0]
        own = name.split("-")[0]
        cells = dict(c.split(":") for c in l.split()[2:] if ":" in c)
        also = [p for p, v in cells.items() if v == "VIOL" and p != own]
        title = ""
        mp = os.path.join(VERIF, "seeded", name, "meta.json")
        if os.path.exists(mp):
            try:
                m = json.load(open(mp))
                title = (m.get("title") or m.get("what_it_breaks") or "").replace("|", "/").replace("\n", " ")[:110]
            except Exception:
                pass
        v = {"VIOL": "reported", "pass": "**missed**", "ERR": "analysis-error"}.get(cells.get(own), cells.get(own))
        n += 1
        own_ok += cells.get(own) == "VIOL"
        out.append(f"| {name} | {title} | {v} | {', '.join(also) or '—'} |")
    out += ["", f"Total: {n} seeded changes, {own_ok} reported by their own property's check."]
    return "\n".join(out)


def appendix_e():
    out = ["## Appendix E — premises evaluated per property on the current tree (generated from the evidence files)", ""]
    for f in sorted(glob.glob(os.path.join(VERIF, "evidence", "C??.json"))):
        d = json.load(open(f))
        c = d["coverage"]
        out.append(f"### {d['property_id']}  (level `{d['level']}`, {c['obligations']} rule instances, {d['wall_s']} s)")
        out.append("")
        for r in c["rules"]:
            out.append(f"* `{r['id']}` — {r['text']}  [{r['instances']} instance(s), floor {r['floor']}]")
        out.append("")
    return "\n".join(out)


def main():
    p = os.path.join(VERIF, "DESIGN.md")
    s = open(p).read()
    gen = "<!-- BEGIN GENERATED -->\n"
    if len(sys.argv) > 1:
        gen += appendix_d(sys.argv[1]) + "\n\n"
    gen += appendix_e() + "\n<!-- END GENERATED -->\n"
    if "<!-- BEGIN GENERATED -->" in s:
        s = re.sub(r"<!-- BEGIN GENERATED -->.*<!-- END GENERATED -->\n", lambda m: gen, s, flags=re.S)
    else:
        s = s.rstrip("\n") + "\n\n---------------------------------------------------------------------------------------------------\n\n" + gen
    open(p, "w").write(s)
    print("DESIGN.md appendices regenerated")


if __name__ == "__main__":
    main()
