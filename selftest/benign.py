#!/venv/bin/python
"""Behaviour-preserving variants of /repo/chartparse on scratch copies: every check must stay silent (exit 0).

Transformations (AST level, then ast.unparse):  reformat, rename-locals, flip-comparisons, swap-if-arms, rename-private,
change-messages, augassign-expand, insert-noops, reorder-independent, all-combined.
Development tool: not a MANIFEST command."""
import ast, copy, os, shutil, subprocess, sys, tempfile
from concurrent.futures import ThreadPoolExecutor

SRC = "/repo/chartparse"
PROPS = [f"C{i:02d}" for i in range(1, 21)]


class RenameLocals(ast.NodeTransformer):
    """Rename variables assigned inside each top-level function/method (not parameters, not globals)."""

    def visit_FunctionDef(self, node):
        if getattr(self, "_inside", False):
            return self.generic_visit(node)
        params = set()
        for sub in ast.walk(node):
            if isinstance(sub, (ast.FunctionDef, ast.Lambda)):
                a = sub.args
                for p in a.posonlyargs + a.args + a.kwonlyargs:
                    params.add(p.arg)
                if a.vararg:
                    params.add(a.vararg.arg)
                if a.kwarg:
                    params.add(a.kwarg.arg)
        assigned = set()
        banned = set()
        for sub in ast.walk(node):
            if isinstance(sub, ast.Name) and isinstance(sub.ctx, (ast.Store, ast.Del)):
                assigned.add(sub.id)
            if isinstance(sub, (ast.Global, ast.Nonlocal)):
                banned.update(sub.names)
            if isinstance(sub, (ast.FunctionDef, ast.ClassDef)) and sub is not node:
                banned.add(sub.name)
            if isinstance(sub, (ast.Import, ast.ImportFrom)):
                for al in sub.names:
                    banned.add((al.asname or al.name).split(".")[0])
            if isinstance(sub, ast.comprehension):
                for n in ast.walk(sub.target):
                    if isinstance(n, ast.Name):
                        assigned.add(n.id)
        names = {n for n in assigned if n not in params and n not in banned and not n.startswith("__")}
        mapping = {n: f"{n}_v" for n in names}

        class R(ast.NodeTransformer):
            def visit_Name(self, n):
                if n.id in mapping:
                    return ast.copy_location(ast.Name(id=mapping[n.id], ctx=n.ctx), n)
                return n
        self._inside = True
        new = R().visit(node)
        self._inside = False
        return new


class FlipCompare(ast.NodeTransformer):
    FL = {ast.Lt: ast.Gt, ast.Gt: ast.Lt, ast.LtE: ast.GtE, ast.GtE: ast.LtE, ast.Eq: ast.Eq, ast.NotEq: ast.NotEq}

    def visit_Compare(self, node):
        self.generic_visit(node)
        if len(node.ops) == 1 and type(node.ops[0]) in self.FL:
            return ast.copy_location(ast.Compare(left=node.comparators[0], ops=[self.FL[type(node.ops[0])]()], comparators=[node.left]), node)
        return node


class SwapIf(ast.NodeTransformer):
    def visit_If(self, node):
        self.generic_visit(node)
        if node.orelse and not (len(node.orelse) == 1 and isinstance(node.orelse[0], ast.If)) and not _is_tc(node.test):
            return ast.copy_location(ast.If(test=ast.UnaryOp(op=ast.Not(), operand=node.test), body=node.orelse, orelse=node.body), node)
        return node

    def visit_IfExp(self, node):
        self.generic_visit(node)
        return ast.copy_location(ast.IfExp(test=ast.UnaryOp(op=ast.Not(), operand=node.test), body=node.orelse, orelse=node.body), node)


def _is_tc(t):
    return "TYPE_CHECKING" in ast.unparse(t)


class Messages(ast.NodeTransformer):
    def visit_Raise(self, node):
        class S(ast.NodeTransformer):
            def visit_Constant(self, n):
                if isinstance(n.value, str) and n.value:
                    return ast.copy_location(ast.Constant(value=n.value + " [reworded]"), n)
                return n
        if node.exc is not None and isinstance(node.exc, ast.Call):
            # only message arguments of builtin exceptions (package exceptions take structured arguments)
            if isinstance(node.exc.func, ast.Name) and node.exc.func.id in ("ValueError", "TypeError", "KeyError", "RuntimeError"):
                node.exc = S().visit(node.exc)
        return node


class AugExpand(ast.NodeTransformer):
    def visit_AugAssign(self, node):
        if isinstance(node.target, ast.Name):
            return ast.copy_location(ast.Assign(targets=[ast.Name(id=node.target.id, ctx=ast.Store())],
                                                value=ast.BinOp(left=ast.Name(id=node.target.id, ctx=ast.Load()), op=node.op, right=node.value)), node)
        return node


class Noops(ast.NodeTransformer):
    def visit_FunctionDef(self, node):
        self.generic_visit(node)
        body = list(node.body)
        i = 1 if body and isinstance(body[0], ast.Expr) and isinstance(body[0].value, ast.Constant) else 0
        if not (len(body) == i + 1 and isinstance(body[i], ast.Return)):  # keep single-expression wrappers as they are
            body.insert(i, ast.Pass())
        node.body = body
        return node


class Reorder(ast.NodeTransformer):
    """Swap two adjacent simple assignments to plain names when neither reads the other's target and both are
    call-free (no side effects, no exceptions ordering)."""

    def _simple(self, s):
        if not (isinstance(s, ast.Assign) and len(s.targets) == 1 and isinstance(s.targets[0], ast.Name)):
            return None
        for n in ast.walk(s.value):
            if isinstance(n, (ast.Call, ast.Subscript, ast.Attribute, ast.NamedExpr, ast.Await, ast.Yield)):
                return None
        return s.targets[0].id, {n.id for n in ast.walk(s.value) if isinstance(n, ast.Name)}

    def _do(self, body):
        i = 0
        while i + 1 < len(body):
            a, b = self._simple(body[i]), self._simple(body[i + 1])
            if a and b and a[0] != b[0] and a[0] not in b[1] and b[0] not in a[1]:
                body[i], body[i + 1] = body[i + 1], body[i]
                i += 2
            else:
                i += 1
        return body

    def generic_visit(self, node):
        super().generic_visit(node)
        for f in ("body", "orelse", "finalbody"):
            b = getattr(node, f, None)
            if isinstance(b, list) and b and isinstance(b[0], ast.stmt):
                setattr(node, f, self._do(b))
        return node


def rename_private(trees):
    """Rename private functions/methods (leading underscore, not dunder) consistently across the package."""
    names = set()
    for t in trees.values():
        for n in ast.walk(t):
            if isinstance(n, ast.FunctionDef) and n.name.startswith("_") and not n.name.startswith("__"):
                names.add(n.name)
    # do not rename names that also occur as plain class attributes / fields / string-keyed
    for t in trees.values():
        for n in ast.walk(t):
            if isinstance(n, (ast.Assign, ast.AnnAssign)):
                tg = n.targets if isinstance(n, ast.Assign) else [n.target]
                for x in tg:
                    if isinstance(x, ast.Name) and x.id in names:
                        names.discard(x.id)
    mp = {n: n + "_renamed" for n in names}

    class R(ast.NodeTransformer):
        def visit_FunctionDef(self, n):
            self.generic_visit(n)
            if n.name in mp:
                n.name = mp[n.name]
            return n

        def visit_Attribute(self, n):
            self.generic_visit(n)
            if n.attr in mp:
                n.attr = mp[n.attr]
            return n

        def visit_Name(self, n):
            if n.id in mp:
                n.id = mp[n.id]
            return n
    return {k: R().visit(v) for k, v in trees.items()}


TRANSFORMS = {
    "reformat": lambda trees: trees,
    "rename-locals": lambda trees: {k: RenameLocals().visit(v) for k, v in trees.items()},
    "flip-comparisons": lambda trees: {k: FlipCompare().visit(v) for k, v in trees.items()},
    "swap-if-arms": lambda trees: {k: SwapIf().visit(v) for k, v in trees.items()},
    "rename-private": rename_private,
    "change-messages": lambda trees: {k: Messages().visit(v) for k, v in trees.items()},
    "augassign-expand": lambda trees: {k: AugExpand().visit(v) for k, v in trees.items()},
    "insert-noops": lambda trees: {k: Noops().visit(v) for k, v in trees.items()},
    "reorder-independent": lambda trees: {k: Reorder().visit(v) for k, v in trees.items()},
}


def build(name, src=None):
    src = src or SRC
    trees = {}
    for f in sorted(os.listdir(src)):
        if f.endswith(".py"):
            trees[f] = ast.parse(open(os.path.join(src, f)).read())
    if name == "all-combined":
        for t in ("rename-locals", "flip-comparisons", "swap-if-arms", "rename-private", "change-messages", "augassign-expand",
                  "insert-noops", "reorder-independent"):
            trees = TRANSFORMS[t](trees)
    else:
        trees = TRANSFORMS[name](trees)
    tmp = tempfile.mkdtemp(prefix=f"benign-{name}-", dir="/tmp")
    os.makedirs(f"{tmp}/chartparse")
    for f, t in trees.items():
        ast.fix_missing_locations(t)
        src = ast.unparse(t)
        compile(src, f, "exec")
        open(f"{tmp}/chartparse/{f}", "w").write(src + "\n")
    return tmp


def run(name, props, keep=False, sanity=True):
    tmp = build(name)
    try:
        res = {}
        if sanity:
            # the variant must still be the same program: import every module in a fresh interpreter
            rc = subprocess.run(["/venv/bin/python", "-c", "import chartparse.chart, chartparse.instrument, chartparse.sync, chartparse.track"],
                                cwd=tmp, capture_output=True, text=True)
            if rc.returncode != 0:
                return name, {"_import": (9, [rc.stderr.strip()[-300:]])}
        for p in props:
            pr = subprocess.run(["/verif/check", p, "--root", tmp, "--evidence-dir", f"{tmp}/ev"], cwd="/verif", capture_output=True, text=True)
            finds = [l.strip() for l in pr.stdout.splitlines() if l.strip().startswith(("FINDING", "ANALYSIS-ERROR"))]
            res[p] = (pr.returncode, finds)
        return name, res
    finally:
        if not keep:
            shutil.rmtree(tmp, ignore_errors=True)
        else:
            print("kept", tmp)


def main():
    names = list(TRANSFORMS) + ["all-combined"]
    props = PROPS
    args = sys.argv[1:]
    keep = "--keep" in args
    args = [a for a in args if a != "--keep"]
    if args:
        names = [a for a in args if a in names] or names
        pp = [a for a in args if a.startswith("C")]
        props = pp or props
    bad = 0
    with ThreadPoolExecutor(11) as ex:
        for name, res in ex.map(lambda n: run(n, props, keep), names):
            fails = {p: v for p, v in res.items() if v[0] != 0}
            print(f"{name:22s} " + ("all silent" if not fails else "ALARMS: " + " ".join(f"{p}:{v[0]}" for p, v in sorted(fails.items()))))
            for p, (rc, finds) in sorted(fails.items()):
                bad += 1
                for f in finds[:3]:
                    print(f"      {p}: {f[:300]}")
    print("false alarms:", bad)
    return 1 if bad else 0


if __name__ == "__main__":
    sys.exit(main())
