#!/venv/bin/python
"""Hand-written behaviour-preserving refactors (selftest/benign_patches/*.diff) on scratch copies: every check must stay silent."""
import os, shutil, subprocess, sys, tempfile
PROPS = [f"C{i:02d}" for i in range(1, 21)]
bad = 0
for f in sorted(os.listdir('/verif/selftest/benign_patches')):
    tmp = tempfile.mkdtemp(prefix='bp-', dir='/tmp')
    try:
        shutil.copytree('/repo/chartparse', tmp + '/chartparse')
        rc = subprocess.run(f'patch -p1 -s < /verif/selftest/benign_patches/{f}', shell=True, cwd=tmp, capture_output=True, text=True)
        if rc.returncode:
            print(f, 'PATCH-FAIL', rc.stdout[-200:]); bad += 1; continue
        alarms = []
        for p in PROPS:
            pr = subprocess.run(['/verif/check', p, '--root', tmp, '--evidence-dir', tmp + '/ev'], cwd='/verif', capture_output=True, text=True)
            if pr.returncode != 0:
                alarms.append((p, [l.strip()[:260] for l in pr.stdout.splitlines() if l.strip().startswith(('FINDING', 'ANALYSIS'))][:2]))
        print(f, '|', 'all silent' if not alarms else 'ALARMS')
        for p, fs in alarms:
            bad += 1
            for x in fs:
                print('     ', p, x)
    finally:
        shutil.rmtree(tmp, ignore_errors=True)
print('false alarms', bad)
sys.exit(1 if bad else 0)
