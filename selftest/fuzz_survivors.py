#!/venv/bin/python
"""Exhaustive first-order syntactic mutation of /repo/chartparse, to look for *holes*: a mutant that every check passes AND the
repository's own test suite passes is listed with its diff for triage by hand (equivalent mutant / outside every property /
genuine hole -> add the missing premise).  Mutants reported by any check, or killed by the tests, are only counted.
Scratch copies live under /tmp and are removed.  Development tool: not a MANIFEST command.
usage: fuzz_survivors.py [--files a.py,b.py] [--jobs N] [--limit N] [--skip-tests]"""
import argparse, ast, copy, difflib, json, os, shutil, subprocess, sys, tempfile
from concurrent.futures import ThreadPoolExecutor

SRC = "/repo/chartparse"
PROPS = [f"C{i:02d}" for i in range(1, 21)]
# checks ordered so that the ones sharing most premises come first (a reported mutant stops the loop early)
ORDER = ["C14", "C16", "C18", "C02", "C01", "C13", "C17", "C19", "C10", "C06", "C03", "C04", "C05", "C07", "C08", "C09", "C11", "C12",
         "C15", "C20"]
SKIP_FILES = {"hints.py", "__init__.py"}

CMP_ALT = {ast.Lt: [ast.LtE, ast.Gt], ast.LtE: [ast.Lt, ast.GtE], ast.Gt: [ast.GtE, ast.Lt], ast.GtE: [ast.Gt, ast.LtE],
           ast.Eq: [ast.NotEq], ast.NotEq: [ast.Eq], ast.Is: [ast.IsNot], ast.IsNot: [ast.Is], ast.In: [ast.NotIn], ast.NotIn: [ast.In]}
BIN_ALT = {ast.Add: [ast.Sub], ast.Sub: [ast.Add], ast.Mult: [ast.Div, ast.FloorDiv], ast.Div: [ast.Mult, ast.FloorDiv],
           ast.FloorDiv: [ast.Div], ast.Pow: [ast.Mult], ast.Mod: [ast.FloorDiv]}


def _scopes(tree):
    """node id -> sorted local names (params + assigned) of the innermost enclosing function."""
    out = {}

    def visit(fn):
        names = set()
        a = fn.args
        for p in a.posonlyargs + a.args + a.kwonlyargs:
            names.add(p.arg)
        for sub in ast.walk(fn):
            if isinstance(sub, ast.Name) and isinstance(sub.ctx, ast.Store):
                names.add(sub.id)
        names -= {"self", "cls", "_"}
        for sub in ast.walk(fn):
            if isinstance(sub, ast.Name) and isinstance(sub.ctx, ast.Load):
                out[id(sub)] = sorted(names)
    for fn in ast.walk(tree):
        if isinstance(fn, ast.FunctionDef):
            visit(fn)
    return out


def variants(tree, ops="classic"):
    """Yield (description, mutated tree) for every first-order mutant."""
    nodes = list(ast.walk(tree))
    if ops == "dataflow":
        scopes = _scopes(tree)
        for idx, n in enumerate(nodes):
            def mk(fn, desc):
                t2 = copy.deepcopy(tree)
                n2 = list(ast.walk(t2))[idx]
                if fn(n2) is False:
                    return None
                return (f"{desc} @{getattr(n, 'lineno', 0)}", t2)
            if isinstance(n, ast.Name) and isinstance(n.ctx, ast.Load) and id(n) in scopes and n.id in scopes[id(n)]:
                alts = [x for x in scopes[id(n)] if x != n.id]
                # at most three alternatives, rotated by position so that different sites try different names
                k0 = (getattr(n, "lineno", 0) + getattr(n, "col_offset", 0)) % max(1, len(alts))
                for alt in (alts[k0:] + alts[:k0])[:3]:
                    yield mk(lambda m, alt=alt: setattr(m, "id", alt), f"name {n.id}->{alt}")
            elif isinstance(n, ast.Call):
                for k, a in enumerate(n.args):
                    if isinstance(a, (ast.Name, ast.Attribute)):
                        yield mk(lambda m, k=k: m.args.__setitem__(k, ast.Constant(value=None)), f"arg{k}->None")
                for k, kw in enumerate(n.keywords):
                    if kw.arg and isinstance(kw.value, (ast.Name, ast.Attribute)):
                        yield mk(lambda m, k=k: setattr(m.keywords[k], "value", ast.Constant(value=None)), f"kw {kw.arg}->None")
                if len(n.keywords) >= 2:
                    for k in range(len(n.keywords) - 1):
                        if n.keywords[k].arg and n.keywords[k + 1].arg:
                            yield mk(lambda m, k=k: (lambda a, b: (setattr(m.keywords[k], "value", b), setattr(m.keywords[k + 1], "value", a)))(
                                m.keywords[k].value, m.keywords[k + 1].value), f"swap-kw {n.keywords[k].arg}<->{n.keywords[k + 1].arg}")
            elif isinstance(n, ast.Return) and n.value is not None and isinstance(n.value, ast.Tuple) and len(n.value.elts) == 2:
                yield mk(lambda m: m.value.elts.reverse(), "swap-return-pair")
        return
    for idx, n in enumerate(nodes):
        def mk(fn, desc):
            t2 = copy.deepcopy(tree)
            n2 = list(ast.walk(t2))[idx]
            if fn(n2) is False:
                return None
            return (f"{desc} @{getattr(n, 'lineno', 0)}", t2)
        if isinstance(n, ast.Compare) and len(n.ops) == 1:
            for alt in CMP_ALT.get(type(n.ops[0]), []):
                yield mk(lambda m, alt=alt: setattr(m, "ops", [alt()]), f"cmp->{alt.__name__}")
        elif isinstance(n, ast.BinOp):
            for alt in BIN_ALT.get(type(n.op), []):
                yield mk(lambda m, alt=alt: setattr(m, "op", alt()), f"binop->{alt.__name__}")
        elif isinstance(n, ast.BoolOp):
            yield mk(lambda m: setattr(m, "op", ast.Or() if isinstance(m.op, ast.And) else ast.And()), "and<->or")
            for k in range(len(n.values)):
                yield mk(lambda m, k=k: m.values.__delitem__(k) if len(m.values) > 2 else False, f"drop-operand{k}")
        elif isinstance(n, ast.Constant) and isinstance(n.value, int) and not isinstance(n.value, bool):
            for d in (1, -1):
                yield mk(lambda m, d=d: setattr(m, "value", m.value + d), f"int{d:+d}")
        elif isinstance(n, ast.Constant) and isinstance(n.value, bool):
            yield mk(lambda m: setattr(m, "value", not m.value), "bool-flip")
        elif isinstance(n, ast.Constant) and n.value is None:
            pass
        elif isinstance(n, (ast.If, ast.While, ast.IfExp)):
            yield mk(lambda m: setattr(m, "test", ast.UnaryOp(op=ast.Not(), operand=m.test)), "negate-test")
        elif isinstance(n, ast.UnaryOp) and isinstance(n.op, ast.Not):
            yield mk(lambda m: setattr(m, "operand", ast.UnaryOp(op=ast.Not(), operand=m.operand)), "drop-not")
        elif isinstance(n, ast.UnaryOp) and isinstance(n.op, ast.USub):
            yield mk(lambda m: setattr(m, "op", ast.UAdd()), "drop-minus")
        elif isinstance(n, ast.Call):
            if len(n.args) >= 2:
                yield mk(lambda m: m.args.__setitem__(slice(0, 2), [m.args[1], m.args[0]]), "swap-args")
            if isinstance(n.func, ast.Name) and n.func.id in ("max", "min"):
                yield mk(lambda m: setattr(m.func, "id", "min" if m.func.id == "max" else "max"), "max<->min")
            if isinstance(n.func, ast.Name) and n.func.id in ("any", "all"):
                yield mk(lambda m: setattr(m.func, "id", "all" if m.func.id == "any" else "any"), "any<->all")
            if isinstance(n.func, ast.Name) and n.func.id in ("round", "int") and n.args:
                yield mk(lambda m: setattr(m.func, "id", "int" if m.func.id == "round" else "round"), "round<->int")
        elif isinstance(n, (ast.FunctionDef, ast.For, ast.While, ast.If, ast.With, ast.Try)):
            body = n.body
            for i, s in enumerate(body):
                if isinstance(s, (ast.Expr, ast.Assign, ast.AugAssign, ast.Raise, ast.If, ast.Return, ast.Continue, ast.Break)) and \
                        not (isinstance(s, ast.Expr) and isinstance(s.value, ast.Constant)):
                    if isinstance(s, ast.Return) and isinstance(n, ast.FunctionDef) and i == len(body) - 1:
                        continue
                    yield mk(lambda m, i=i: m.body.__setitem__(i, ast.Pass()), f"delete-{type(s).__name__}")
            for i, s in enumerate(getattr(n, "orelse", []) or []):
                if isinstance(s, (ast.Expr, ast.Assign, ast.AugAssign, ast.Raise)):
                    yield mk(lambda m, i=i: m.orelse.__setitem__(i, ast.Pass()), f"delete-else-{type(s).__name__}")
        elif isinstance(n, ast.Break):
            yield mk(lambda m: None, "noop") if False else None
        elif isinstance(n, ast.Subscript) and isinstance(n.slice, ast.Constant) and n.slice.value in (0, -1, 1):
            yield mk(lambda m: setattr(m, "slice", ast.Constant(value={0: -1, -1: 0, 1: 0}[m.slice.value])), "index")
        elif isinstance(n, ast.Slice):
            if n.lower is not None:
                yield mk(lambda m: setattr(m, "lower", None), "slice-drop-lower")
            if n.upper is not None:
                yield mk(lambda m: setattr(m, "upper", None), "slice-drop-upper")
        elif isinstance(n, ast.keyword) and isinstance(n.value, ast.Constant) and isinstance(n.value.value, bool):
            pass  # covered by bool-flip
        elif isinstance(n, ast.Attribute) and n.attr in ("tick", "end_tick", "timestamp", "end_timestamp", "sustain", "upper", "lower"):
            other = {"tick": "end_tick", "end_tick": "tick", "timestamp": "end_timestamp", "end_timestamp": "timestamp",
                     "upper": "lower", "lower": "upper"}.get(n.attr)
            if other and isinstance(n.ctx, ast.Load):
                yield mk(lambda m, other=other: setattr(m, "attr", other), f"attr->{other}")


def run_checks(tmp):
    for p in ORDER:
        pr = subprocess.run(["/verif/check", p, "--root", tmp, "--evidence-dir", f"{tmp}/ev"], cwd="/verif", capture_output=True, text=True)
        if pr.returncode != 0:
            return p, pr.returncode
    return None, 0


def run_tests(tmp, f, new):
    wt = tempfile.mkdtemp(prefix="fuzzt-", dir="/tmp")
    try:
        subprocess.run(f"git -C /repo archive HEAD | tar -x -C {wt}", shell=True, check=True)
        open(f"{wt}/chartparse/{f}", "w").write(new + "\n")
        pr = subprocess.run("/venv/bin/python -m pytest -q -x -p no:cacheprovider --deselect "
                            "tests/test_instrument.py::TestNoteEvent::TestEndTick::test_wrapper 2>&1 | tail -3",
                            shell=True, cwd=wt, capture_output=True, text=True, timeout=600)
        return "251 passed" in pr.stdout and "failed" not in pr.stdout
    except Exception:
        return False
    finally:
        shutil.rmtree(wt, ignore_errors=True)


def one(job):
    f, desc, new, orig, skip_tests = job
    try:
        compile(new, f, "exec")
    except Exception:
        return None
    if new == orig:
        return None
    tmp = tempfile.mkdtemp(prefix="fuzzs-", dir="/tmp")
    try:
        shutil.copytree(SRC, f"{tmp}/chartparse")
        open(f"{tmp}/chartparse/{f}", "w").write(new + "\n")
        p, rc = run_checks(tmp)
        if rc == 2:
            return {"file": f, "desc": desc, "status": "exit2", "by": p}
        if rc == 1:
            return {"file": f, "desc": desc, "status": "reported", "by": p}
        if not skip_tests and not run_tests(tmp, f, new):
            return {"file": f, "desc": desc, "status": "killed-by-tests"}
        d = [l for l in difflib.unified_diff(orig.splitlines(), new.splitlines(), lineterm="", n=2) if not l.startswith(("+++", "---"))]
        return {"file": f, "desc": desc, "status": "SURVIVOR", "diff": d[:24]}
    finally:
        shutil.rmtree(tmp, ignore_errors=True)


def main():
    ap = argparse.ArgumentParser()
    ap.add_argument("--files", default="")
    ap.add_argument("--jobs", type=int, default=16)
    ap.add_argument("--limit", type=int, default=0)
    ap.add_argument("--skip-tests", action="store_true")
    ap.add_argument("--out", default="/tmp/fuzz_survivors.json")
    ap.add_argument("--ops", default="classic", choices=["classic", "dataflow"])
    a = ap.parse_args()
    files = [x for x in a.files.split(",") if x] or sorted(f for f in os.listdir(SRC) if f.endswith(".py") and f not in SKIP_FILES)
    jobs = []
    for f in files:
        src = open(os.path.join(SRC, f)).read()
        tree = ast.parse(src)
        orig = ast.unparse(tree)
        for v in variants(tree, a.ops):
            if v is None:
                continue
            desc, t2 = v
            ast.fix_missing_locations(t2)
            try:
                new = ast.unparse(t2)
            except Exception:
                continue
            jobs.append((f, desc, new, orig, a.skip_tests))
    if a.limit:
        jobs = jobs[:a.limit]
    print(f"{len(jobs)} mutants over {len(files)} files", flush=True)
    res = []
    with ThreadPoolExecutor(a.jobs) as ex:
        for k, r in enumerate(ex.map(one, jobs)):
            if r:
                res.append(r)
                if r["status"] in ("SURVIVOR", "exit2"):
                    print(f"== {r['status']} {r['file']} {r['desc']}" + (f" by {r.get('by')}" if r.get("by") else ""), flush=True)
                    for l in r.get("diff", []):
                        print("    " + l[:200], flush=True)
    c = {}
    for r in res:
        c[r["status"]] = c.get(r["status"], 0) + 1
    print("totals:", c)
    json.dump(res, open(a.out, "w"), indent=1)


if __name__ == "__main__":
    main()
