"""Positive controls for the purity rules: every function below must be reported on every run."""
import functools
import logging
import os

logger = logging.getLogger(__name__)

_seen = []
_memo = {}


class Holder:
    shared = {}

    def __init__(self):
        self.d = self.shared
        self.d.clear()


def appends_module_list(x):
    _seen.append(x)
    return len(_seen)


def fills_module_memo(k):
    if k not in _memo:
        _memo[k] = k * 2
    return _memo[k]


def mutable_default(x, acc=[]):
    acc.append(x)
    return acc


def reads_environment():
    return os.environ.get("FX")


def iterates_a_set(xs):
    out = []
    for k in set(xs) - {"a"}:
        out.append(k)
    return out


@functools.lru_cache
def cached_returns_list(n):
    return [n]


def extends_alias_in_place(x):
    seen = _seen
    seen += [x]
    return len(seen)


@functools.lru_cache
def cached_logs(line):
    logger.warning("unparsable %s", line)


def entry(xs):
    Holder()
    cached_logs("x")
    extends_alias_in_place(0)
    appends_module_list(1)
    fills_module_memo(2)
    mutable_default(3)
    reads_environment()
    iterates_a_set(xs)
    cached_returns_list(4)
