"""context -- one analysis session: program model, evaluator, folder, and shared discovery helpers."""
from __future__ import annotations

import ast
import os
from typing import Any, Optional

from .constfold import Folder, NotConstant
from .report import AnalysisError, Unproven, UnprovenScope
from .srcmodel import ClassInfo, FuncInfo, Program
from .terms import Evaluator, Summary, show

EXPECTED_MODULES = 13


class Ctx:
    def __init__(self, root: str, tier: str = "quick", package: str = "chartparse", min_modules: int = 12) -> None:
        self.root = root
        self.tier = tier
        self.prog = Program(root, package)
        if len(self.prog.modules) < min_modules:
            raise AnalysisError(f"only {len(self.prog.modules)} modules parsed under {root}/chartparse; the shipped "
                                f"package has {EXPECTED_MODULES}")
        self.ev = Evaluator(self.prog)
        self.fold = Folder(self.ev)
        self._touched_funcs: set = set()
        self._touched_classes: set = set()

    # ------------------------------------------------------------------ anchors
    def func(self, qual: str) -> FuncInfo:
        f = self.prog.func(qual)
        self._touched_funcs.add(f.qual)
        return f

    def cls(self, qual: str) -> ClassInfo:
        c = self.prog.cls(qual)
        self._touched_classes.add(c.qual)
        return c

    def summary(self, f: "FuncInfo | str") -> Summary:
        if isinstance(f, str):
            f = self.func(f)
        self._touched_funcs.add(f.qual)
        s = self.ev.summary(f)
        if s.unsupported:
            raise UnprovenScope(f.qual, f.module.path, s.unsupported)
        return s

    def specialise(self, f: FuncInfo, args: dict) -> Summary:
        self._touched_funcs.add(f.qual)
        return self.ev.evaluate(f, args, None, 0)

    def where(self, f: Any, node: Optional[ast.AST] = None) -> dict:
        path = f.module.path if hasattr(f, "module") else str(f)
        line = getattr(node, "lineno", None) or getattr(f, "lineno", 0)
        return {"file": path, "line": line}

    def stmt_text(self, f: Any, node: Optional[ast.AST]) -> str:
        if node is None:
            return ""
        try:
            return f.module.text(node)
        except Exception:
            return ast.unparse(node)

    def const(self, term: Any) -> Any:
        try:
            return self.fold.fold(term)
        except NotConstant as e:
            raise Unproven(show(term)[:80], f"a value the rules must evaluate is not a constant any more: {show(term)[:160]}: {e}")

    def analysed(self) -> dict:
        return {
            "root": self.root,
            "modules": sorted(self.prog.modules),
            "functions_in_package": sum(1 for _ in self.prog.all_functions()),
            "classes_in_package": len(self.prog.classes),
            "functions_examined": sorted(self._touched_funcs),
            "classes_examined": sorted(self._touched_classes),
        }
