"""types -- a small type language read off the repository's own annotations (DESIGN 3.A).

mypy is not available in this sandbox; the repository is written for `mypy --strict`, so every
parameter, return and field is annotated.  Those annotations are the type source.
Types:  ('inst', class qual) | ('ext', dotted) | ('type', T) | ('seq', T) | ('tup', (T..)) |
        ('dict', K, V) | ('union', (T..)) | ('none',) | ('callable',) | ('any',)
"""
from __future__ import annotations

import ast
from typing import Any, Optional

from .srcmodel import ClassInfo, FuncInfo, ModuleInfo, Program, dotted

INT = ("ext", "builtins.int")
FLOAT = ("ext", "builtins.float")
STR = ("ext", "builtins.str")
BOOL = ("ext", "builtins.bool")
NONE = ("none",)
ANY = ("any",)
TIMEDELTA = ("ext", "datetime.timedelta")

_SEQ_NAMES = {
    "collections.abc.Sequence", "collections.abc.Iterable", "collections.abc.Collection", "builtins.list",
    "typing.Sequence", "typing.Iterable", "typing.List", "collections.abc.Iterator", "builtins.set",
    "builtins.frozenset", "typing.Collection", "collections.abc.MutableSequence",
}


def mk_union(ts) -> tuple:
    flat = []
    for t in ts:
        if t[0] == "union":
            flat += list(t[1])
        else:
            flat.append(t)
    out = []
    for t in flat:
        if t not in out:
            out.append(t)
    if len(out) == 1:
        return out[0]
    return ("union", tuple(out))


def strip_none(t):
    if t is None:
        return None
    if t[0] == "union":
        rest = [x for x in t[1] if x != NONE]
        return mk_union(rest) if rest else NONE
    return t


class Types:
    def __init__(self, prog: Program, ev) -> None:
        self.prog = prog
        self.ev = ev
        self._memo: dict = {}

    # ------------------------------------------------------------------ annotations
    def parse(self, a: Any, m: ModuleInfo, cls: Optional[ClassInfo] = None, func: Optional[FuncInfo] = None,
              _depth: int = 0):
        if a is None or _depth > 12:
            return ANY
        if isinstance(a, str):
            try:
                a = ast.parse(a, mode="eval").body
            except SyntaxError:
                return ANY
        if isinstance(a, ast.Constant):
            if a.value is None:
                return NONE
            if isinstance(a.value, str):
                return self.parse(a.value, m, cls, func, _depth + 1)
            return ANY
        if isinstance(a, ast.BinOp) and isinstance(a.op, ast.BitOr):
            return mk_union([self.parse(a.left, m, cls, func, _depth + 1), self.parse(a.right, m, cls, func, _depth + 1)])
        if isinstance(a, ast.Subscript):
            head = self._canon(a.value, m, cls, func)
            sl = a.slice
            els = list(sl.elts) if isinstance(sl, ast.Tuple) else [sl]
            if head in ("typing.Final", "typing.ClassVar", "typing.Annotated", "typing.Required", "typing.NotRequired"):
                return self.parse(els[0], m, cls, func, _depth + 1)
            if head in ("typing.Optional",):
                return mk_union([self.parse(els[0], m, cls, func, _depth + 1), NONE])
            if head in ("typing.Union",):
                return mk_union([self.parse(e, m, cls, func, _depth + 1) for e in els])
            if head in ("builtins.type", "typing.Type"):
                return ("type", self.parse(els[0], m, cls, func, _depth + 1))
            if head in ("builtins.tuple", "typing.Tuple"):
                if len(els) == 2 and isinstance(els[1], ast.Constant) and els[1].value is Ellipsis:
                    return ("seq", self.parse(els[0], m, cls, func, _depth + 1))
                return ("tup", tuple(self.parse(e, m, cls, func, _depth + 1) for e in els))
            if head in _SEQ_NAMES:
                return ("seq", self.parse(els[0], m, cls, func, _depth + 1))
            if head in ("builtins.dict", "typing.Dict", "collections.abc.Mapping", "typing.Mapping",
                        "collections.defaultdict", "typing.DefaultDict"):
                if len(els) == 2:
                    return ("dict", self.parse(els[0], m, cls, func, _depth + 1), self.parse(els[1], m, cls, func, _depth + 1))
                return ("dict", ANY, ANY)
            if head in ("typing.Pattern", "re.Pattern"):
                return ("ext", "re.Pattern")
            if head in ("typing.Match", "re.Match"):
                return ("ext", "re.Match")
            if head in ("collections.abc.Callable", "typing.Callable"):
                return ("callable",)
            if head in ("typing.Literal",):
                vals = [e.value for e in els if isinstance(e, ast.Constant)]
                if vals and all(isinstance(v, str) for v in vals):
                    return STR
                if vals and all(isinstance(v, int) for v in vals):
                    return INT
                return ANY
            # generic class of the package, e.g. Sequence subclass
            base = self.parse(a.value, m, cls, func, _depth + 1)
            return base
        d = dotted(a)
        if d is None:
            return ANY
        return self._named(d, m, cls, func, _depth)

    def _canon(self, n: ast.AST, m: ModuleInfo, cls, func) -> str:
        d = dotted(n)
        if d is None:
            return "?"
        head = d.split(".")[0]
        if head in m.import_names:
            c = self.prog._canon_ext(m, d)
        else:
            import builtins

            c = f"builtins.{d}" if hasattr(builtins, head) and "." not in d else d
        return {"typ": "typing"}.get(c, c)

    def _named(self, d: str, m: ModuleInfo, cls, func, _depth):
        head, _, rest = d.partition(".")
        r = None
        # function-local classes / typevars
        g = func
        while g is not None and r is None:
            if head in g.nested_classes:
                r = ("class", g.nested_classes[head])
            g = g.parent
        c = cls
        while c is not None and r is None:
            r0 = self.prog.resolve_name(m, head, c)
            if r0 is not None and r0[0] in ("class", "classvar") and (r0[0] == "class" or r0[1] is c):
                r = r0
            c = c.outer
        if r is None:
            r = self.prog.resolve_name(m, head)
        if r is None:
            return ANY
        for p in rest.split(".") if rest else []:
            r = self.prog.getattr_static(r, p)
            if r is None:
                return ANY
        return self._ref_type(r, _depth)

    def _ref_type(self, r, _depth: int = 0):
        k = r[0]
        if k == "class":
            return ("inst", r[1].qual)
        if k == "builtin":
            return {"int": INT, "float": FLOAT, "str": STR, "bool": BOOL, "object": ANY}.get(r[1], ("ext", f"builtins.{r[1]}"))
        if k == "ext":
            d = r[1]
            if d in ("typing.Any",):
                return ANY
            if d in ("typing.TextIO", "typing.IO"):
                return ("ext", "typing.TextIO")
            if d in _SEQ_NAMES:
                return ("seq", ANY)
            if d in ("collections.abc.Callable", "typing.Callable"):
                return ("callable",)
            return ("ext", d)
        if k in ("modvar", "classvar"):
            if k == "modvar":
                mod, name = r[1], r[2]
                v, a, ln = mod.assigns[name]
                ctx_cls = None
            else:
                cc, name = r[1], r[2]
                mod = cc.module
                v, a, ln = cc.body_assigns[name]
                ctx_cls = cc
            if isinstance(v, ast.Call):
                fn = self.prog._canon_ext(mod, dotted(v.func))
                if fn == "typing.NewType" and len(v.args) == 2:
                    return self.parse(v.args[1], mod, ctx_cls, None, _depth + 1)
                if fn == "typing.TypeVar":
                    for kw in v.keywords:
                        if kw.arg == "bound":
                            return self.parse(kw.value, mod, ctx_cls.outer if ctx_cls is not None and False else ctx_cls,
                                              None, _depth + 1)
                    return ANY
            if v is not None and isinstance(v, (ast.BinOp, ast.Subscript, ast.Name, ast.Attribute)):
                return self.parse(v, mod, ctx_cls, None, _depth + 1)  # type alias
            return ANY
        return ANY

    # ------------------------------------------------------------------ terms
    def func_of(self, fe) -> Optional[FuncInfo]:
        return fe.f if fe is not None else None

    def param_type(self, f: FuncInfo, name: str):
        a = f.node.args
        for p in a.posonlyargs + a.args + a.kwonlyargs:
            if p.arg == name:
                return self.parse(p.annotation, f.module, f.cls or self._owner(f), f)
        return ANY

    def _owner(self, f: FuncInfo) -> Optional[ClassInfo]:
        g = f
        while g is not None:
            if g.cls is not None:
                return g.cls
            g = g.parent
        return None

    def return_type(self, f: FuncInfo):
        return self.parse(getattr(f.node, "returns", None), f.module, f.cls or self._owner(f), f)

    def field_type(self, c: ClassInfo, name: str):
        found = c.find_annotation(name)
        if found is not None:
            owner, a = found
            return self.parse(a, owner.module, owner, None)
        # property / cached_property
        f = c.find_method(name)
        if f is not None and f.kind in ("property", "cached_property"):
            return self.return_type(f)
        # attributes assigned in __init__ with annotation
        init = c.find_method("__init__")
        if init is not None:
            for n in ast.walk(init.node):
                if isinstance(n, ast.AnnAssign) and isinstance(n.target, ast.Attribute) and n.target.attr == name:
                    return self.parse(n.annotation, init.module, c, init)
                if isinstance(n, ast.Assign):
                    for t in n.targets:
                        if isinstance(t, ast.Attribute) and t.attr == name and isinstance(n.value, ast.Name):
                            return self.param_type(init, n.value.id)
        return None

    def type_of(self, t, fe=None):
        """Static type of a term (None if unknown)."""
        if not isinstance(t, tuple) or not t:
            return None
        k = t[0]
        if k == "const":
            v = t[1]
            if v is None:
                return NONE
            return {bool: BOOL, int: INT, float: FLOAT, str: STR}.get(type(v), ("tup", ()) if isinstance(v, tuple) else None)
        if k == "self":
            return ("inst", t[1])
        if k == "clsparam":
            return ("type", ("inst", t[1]))
        if k == "class":
            return ("type", ("inst", t[1]))
        if k == "enum":
            return ("inst", t[1])
        if k in ("param", "free"):
            e = fe
            while e is not None:
                g = e.f
                while g is not None:
                    if t[1] in g.params():
                        return self.param_type(g, t[1])
                    g = g.parent
                e = getattr(e, "parent_eval", None)
            return None
        if k == "attr":
            bt = strip_none(self.type_of(t[1], fe))
            if bt is None:
                return None
            if bt[0] == "inst":
                c = self.prog.classes.get(bt[1])
                if c is not None:
                    if c.is_enum() and t[2] == "value":
                        fa = c.find_annotation("value")
                        if fa is not None:
                            return self.parse(fa[1], fa[0].module, fa[0], None)
                        return None
                    if c.is_enum() and t[2] == "name":
                        return STR
                    return self.field_type(c, t[2])
            if bt[0] == "type" and bt[1][0] == "inst":
                c = self.prog.classes.get(bt[1][1])
                if c is not None:
                    if t[2] in ("__name__", "__qualname__"):
                        return STR
                    if t[2] in c.nested or any(t[2] in k2.nested for k2 in c.pkg_mro()):
                        for k2 in c.pkg_mro():
                            if t[2] in k2.nested:
                                return ("type", ("inst", k2.nested[t[2]].qual))
                    return self.field_type(c, t[2])
            return None
        if k == "call":
            fn = t[1]
            if fn[0] in ("func", "closure", "boundcls"):
                f = self.prog.functions.get(fn[1]) or self.prog.lambdas.get(fn[1])
                if f is not None and not isinstance(f.node, ast.Lambda):
                    rt = self.return_type(f)
                    return rt
                return None
            if fn[0] == "class":
                return ("inst", fn[1])
            if fn[0] == "clsparam":
                return ("inst", fn[1])
            if fn[0] == "ext":
                return {"datetime.timedelta": TIMEDELTA, "re.compile": ("ext", "re.Pattern"),
                        "collections.defaultdict": ("dict", ANY, ANY),
                        "itertools.islice": ("seq", ANY), "itertools.product": ("seq", ANY)}.get(fn[1])
            if fn[0] == "builtin":
                return {"int": INT, "float": FLOAT, "str": STR, "len": INT, "bool": BOOL, "round": INT if len(t[2]) == 1 else FLOAT,
                        "abs": self.type_of(t[2][0], fe) if t[2] else None, "repr": STR, "isinstance": BOOL,
                        "any": BOOL, "all": BOOL, "sum": None, "dict": ("dict", ANY, ANY), "list": ("seq", ANY),
                        "tuple": ("seq", ANY)}.get(fn[1])
            if fn[0] == "meth":
                recv = strip_none(self.type_of(t[2][0], fe)) if t[2] else None
                m = fn[1]
                if recv == ("ext", "re.Pattern") and m in ("match", "search", "fullmatch"):
                    return mk_union([("ext", "re.Match"), NONE])
                if recv == ("ext", "re.Match") and m == "group":
                    return mk_union([STR, NONE])
                if recv == ("ext", "re.Match") and m == "groups":
                    return ("seq", mk_union([STR, NONE]))
                if recv == TIMEDELTA and m == "total_seconds":
                    return FLOAT
                if recv == STR and m in ("format", "join", "strip", "lower", "upper", "rstrip", "lstrip", "replace"):
                    return STR
                if recv == STR and m in ("splitlines", "split"):
                    return ("seq", STR)
                if recv is not None and recv[0] == "dict" and m == "get":
                    return mk_union([recv[2], NONE])
                if recv is not None and recv[0] == "dict" and m in ("setdefault", "pop", "__getitem__"):
                    return recv[2]
                if recv == ("ext", "typing.TextIO") and m == "read":
                    return STR
            return None
        if k == "proj":
            bt = self.type_of(t[1], fe)
            if bt is None:
                return None
            if bt[0] == "tup" and t[2] < len(bt[1]):
                return bt[1][t[2]]
            if bt[0] == "seq":
                return bt[1]
            return None
        if k == "sub":
            bt = strip_none(self.type_of(t[1], fe))
            if bt is None:
                return None
            if t[2][0] == "slice":
                return bt
            if bt[0] == "seq":
                return bt[1]
            if bt[0] == "dict":
                return bt[2]
            if bt[0] == "tup":
                if t[2][0] == "const" and isinstance(t[2][1], int) and -len(bt[1]) <= t[2][1] < len(bt[1]):
                    return bt[1][t[2][1]]
                return mk_union(bt[1]) if bt[1] else None
            if bt == STR:
                return STR
            return None
        if k == "ite":
            a, b = self.type_of(t[2], fe), self.type_of(t[3], fe)
            if a is None or b is None:
                return None
            return mk_union([a, b])
        if k == "binop":
            a, b = self.type_of(t[2], fe), self.type_of(t[3], fe)
            if t[1] == "/" and a in (INT, FLOAT) and b in (INT, FLOAT):
                return FLOAT
            if a == INT and b == INT and t[1] in "+-*//%**":
                return INT
            if FLOAT in (a, b) and a in (INT, FLOAT) and b in (INT, FLOAT):
                return FLOAT
            if a == STR and b == STR and t[1] == "+":
                return STR
            if a == TIMEDELTA and b == TIMEDELTA and t[1] in "+-":
                return TIMEDELTA
            return None
        if k in ("cmp", "not", "and", "or"):
            return BOOL if k in ("cmp", "not") else None
        if k in ("fstr",):
            return STR
        if k == "tuple":
            return ("tup", tuple(self.type_of(x, fe) or ANY for x in t[1]))
        if k == "list":
            return ("seq", ANY)
        if k == "dict":
            return ("dict", ANY, ANY)
        if k == "elem":
            # element of the iterable of loop t[1]
            e = fe
            while e is not None and t[1] not in e.s.loops:
                e = getattr(e, "parent_eval", None)
            if e is not None:
                it = e.s.loops[t[1]].iter
                bt = strip_none(self.type_of(it, fe)) if it is not None else None
                if bt is not None and bt[0] == "seq":
                    return bt[1]
                if bt is not None and bt[0] == "inst":
                    c = self.prog.classes.get(bt[1])
                    if c is not None:
                        for b in c.node.bases:
                            if isinstance(b, ast.Subscript):
                                bb = self.parse(b, c.module, c, None)
                                if bb[0] == "seq":
                                    return bb[1]
            return None
        if k == "gvar":
            mod, _, name = t[1].rpartition(".")
            m = self.prog.modules.get(mod)
            if m is not None and name in m.assigns:
                v, a, ln = m.assigns[name]
                if a is not None:
                    return self.parse(a, m, None, None)
            return None
        if k == "cattr":
            c = self.prog.classes.get(t[1])
            if c is not None:
                return self.field_type(c, t[2])
            return None
        if k == "maybe":
            return None
        return None

    # ------------------------------------------------------------------ isinstance
    def static_isinstance(self, which: str, obj, clsterm, fe) -> Optional[bool]:
        """Decide isinstance/issubclass statically from types, or None if not decidable."""
        targets = []
        cands = clsterm[1] if clsterm[0] == "tuple" else (clsterm,)
        for c in cands:
            if c[0] == "class":
                targets.append(("inst", c[1]))
            elif c[0] == "builtin":
                targets.append({"int": INT, "float": FLOAT, "str": STR, "bool": BOOL}.get(c[1], ("ext", f"builtins.{c[1]}")))
            elif c[0] == "ext":
                targets.append(("ext", c[1]))
            else:
                return None
        if which == "issubclass":
            if obj[0] != "class":
                return None
            ot = ("inst", obj[1])
        else:
            ot = self.type_of(obj, fe)
            if ot is None or ot == ANY:
                return None
        alts = ot[1] if ot[0] == "union" else (ot,)
        verdicts = set()
        for a in alts:
            verdicts.add(self._is_sub(a, targets))
        if verdicts == {True}:
            return True
        if verdicts == {False}:
            return False
        return None

    def _is_sub(self, a, targets) -> Optional[bool]:
        for tg in targets:
            if a == tg:
                return True
            if a == BOOL and tg == INT:
                return True
            if a[0] == "inst" and tg[0] == "inst":
                ca, ct = self.prog.classes.get(a[1]), self.prog.classes.get(tg[1])
                if ca is not None and ct is not None:
                    if ct in ca.mro:
                        return True
                    # runtime-checkable protocol: structural test on method names
                    if any(isinstance(b, str) and b.endswith("Protocol") for b in ct.mro):
                        names = [n for n in ct.methods if not n.startswith("__")]
                        if names and all(ca.find_method(n) is not None for n in names):
                            return True
                        return False
            if a[0] == "inst" and tg[0] == "ext":
                ca = self.prog.classes.get(a[1])
                if ca is not None and tg[1] in ca.mro:
                    return True
        # all targets differ from a: decide False only for concrete scalar types and package classes; a value annotated with
        # an abstract container type (Sequence / Iterable / dict / tuple) may be a list, tuple, ... at run time
        if a[0] in ("tup", "seq", "dict"):
            return None
        if a in (INT, FLOAT, STR, BOOL, TIMEDELTA, NONE) or a[0] in ("inst",):
            if a[0] == "inst":
                ca = self.prog.classes.get(a[1])
                if ca is None:
                    return None
                # could a subclass of `a` be an instance of the target?  classes here are mostly @final; be exact:
                for tg in targets:
                    if tg[0] == "inst":
                        ct = self.prog.classes.get(tg[1])
                        if ct is not None and ca in ct.mro:
                            return None  # a is a base of target: value might be the subclass
                return False
            return False
        return None
