"""setup self-diagnostic: the analyser imports, parses /repo, and its positive controls fire (nothing to build)."""
import os, sys
sys.path.insert(0, os.path.dirname(os.path.dirname(os.path.abspath(__file__))))
from sa.context import Ctx
from sa import rx

ctx = Ctx("/repo")
assert len(ctx.prog.modules) >= 12
# positive control for the automata engine: a greedy value group must be reported
w = rx.capture_exact(rx.Pattern(r'^\s*?Name = \"?(.+)\"?\s*?$', "match"),
                     rx.Pattern(r'[ \t]*Name = "(?P<value>[^\n]+)"[ \t]*', "fullmatch"), {"value": 1})
assert w is not None, "rx positive control silent"
assert rx.disjoint(rx.Pattern(r"^a+$"), rx.Pattern(r"^aa$")) == "aa"
print("selfdiag ok: modules=%d functions=%d classes=%d" % (len(ctx.prog.modules), sum(1 for _ in ctx.prog.all_functions()), len(ctx.prog.classes)))
