"""driver -- ./check <property> : run one property's static rules against the current source tree."""
from __future__ import annotations

import argparse
import importlib
import json
import os
import sys
import traceback

HERE = os.path.dirname(os.path.abspath(__file__))
VERIF = os.path.dirname(HERE)
sys.path.insert(0, VERIF)

from sa.report import AnalysisError, Report, load_known  # noqa: E402

ALL = [f"C{i:02d}" for i in range(1, 21)]


def run_one(prop: str, tier: str, root: str, evidence_dir: str) -> int:
    from sa.context import Ctx

    try:
        mod = importlib.import_module(f"sa.rules.{prop}")
    except ModuleNotFoundError:
        print(f"ANALYSIS-ERROR property={prop} no rule module (property not claimed)")
        return 2
    rep = Report(prop, tier, getattr(mod, "LEVEL", "other"), root)
    try:
        ctx = Ctx(root, tier)
        mod.run(ctx, rep)
        rep.analysed.update(ctx.analysed())
        return rep.finish(load_known(), evidence_dir)
    except AnalysisError as e:
        print(f"ANALYSIS-ERROR property={prop} {e}")
        return 2
    except Exception:
        traceback.print_exc()
        print(f"ANALYSIS-ERROR property={prop} checker raised (see traceback)")
        return 2


def explain(path: str) -> int:
    with open(path) as fh:
        d = json.load(fh)
    print(f"property {d['property']} root {d['root']} tier {d['tier']}: {len(d['findings'])} finding(s)")
    for f in d["findings"]:
        print(f"- [{f['rule']}] {f['construct']}  ({f['file']}:{f['line']})")
        print(f"    {f['message']}")
        if f.get("stmt"):
            print(f"    statement: {f['stmt']}")
        if f.get("witness") is not None:
            print(f"    witness: {f['witness']!r}")
        try:
            lines = open(f["file"]).read().splitlines()
            lo, hi = max(0, f["line"] - 3), min(len(lines), f["line"] + 2)
            for i in range(lo, hi):
                print(f"      {i + 1:4d} | {lines[i]}")
        except Exception:
            pass
    return 0


def main() -> int:
    ap = argparse.ArgumentParser()
    ap.add_argument("prop")
    ap.add_argument("--tier", default=os.environ.get("VERIF_TIER", "quick"), choices=["quick", "thorough"])
    ap.add_argument("--root", default="/repo")
    ap.add_argument("--evidence-dir", default=os.path.join(VERIF, "evidence"))
    ap.add_argument("--explain", default=None)
    a = ap.parse_args()
    if a.explain:
        return explain(a.explain)
    if a.prop == "all":
        worst = 0
        for p in ALL:
            if os.path.exists(os.path.join(HERE, "rules", f"{p}.py")):
                rc = run_one(p, a.tier, a.root, a.evidence_dir)
                worst = max(worst, rc)
        return worst
    return run_one(a.prop, a.tier, a.root, a.evidence_dir)


if __name__ == "__main__":
    rc = main()
    sys.stdout.flush()
    os._exit(rc)
