"""driver -- ./check <property> : run one property's static rules against the current source tree."""
from __future__ import annotations

import argparse
import importlib
import json
import os
import sys
import traceback

HERE = os.path.dirname(os.path.abspath(__file__))
VERIF = os.path.dirname(HERE)
sys.path.insert(0, VERIF)

from sa.report import AnalysisError, Report, Unproven, UnprovenScope, load_known  # noqa: E402

ALL = [f"C{i:02d}" for i in range(1, 21)]


def run_one(prop: str, tier: str, root: str, evidence_dir: str) -> int:
    from sa.context import Ctx

    try:
        mod = importlib.import_module(f"sa.rules.{prop}")
    except ModuleNotFoundError:
        print(f"ANALYSIS-ERROR property={prop} no rule module (property not claimed)")
        return 2
    rep = Report(prop, tier, getattr(mod, "LEVEL", "other"), root)
    try:
        ctx = Ctx(root, tier)
        scope_callers: set = set()
        try:
            try:
                # a rule that does not come to an end on some tree (a term that grows beyond what its matching was written for) is a
                # rule that cannot decide that tree: stopped after a generous budget and reported like any other rule that gives up
                import signal as _signal

                def _too_long(signum, frame):
                    raise TimeoutError(f"no verdict after {budget} s of analysis")
                budget = int(os.environ.get("SA_RULE_BUDGET_S", "150"))
                old_handler = _signal.signal(_signal.SIGALRM, _too_long)
                _signal.alarm(budget)
                try:
                    mod.run(ctx, rep)
                finally:
                    _signal.alarm(0)
                    _signal.signal(_signal.SIGALRM, old_handler)
            except (UnprovenScope, Unproven, AnalysisError):
                raise
            except Exception as exc:  # noqa: BLE001
                # A rule met a shape it did not anticipate and raised.  On the pinned tree this never happens (every rule runs to its
                # end there); on another tree it means the construct at that anchor is outside what the rule can reason about, which
                # is "not proved for this tree" like every other unrecognised shape (DESIGN A.2 items 1 and 12): a finding, with the
                # place in the rule that gave up.  (An unreadable tree, a vanished public anchor or a silent control stay exit 2.)
                timed_out = isinstance(exc, TimeoutError)
                tb = traceback.extract_tb(exc.__traceback__)
                where = next((fr for fr in reversed(tb) if "/sa/rules/" in fr.filename), tb[-1])
                traceback.print_exc()
                r = rep.rule("internal", "every rule of this property runs to its end on the tree (a rule that cannot is reported, not ignored)")
                r.fail(f"{os.path.basename(where.filename)}:{where.name}",
                       f"the rule {os.path.basename(where.filename)}:{where.name} (line {where.lineno}) could not be evaluated on this tree "
                       f"({type(exc).__name__}: {str(exc)[:160]}): the code at its anchor has a shape the rule does not anticipate, so the "
                       f"premise is not proved for this tree", file=root, line=0, stmt="")
        except UnprovenScope as e:
            # a function the argument reaches is outside the analysed subset: a finding -- unless the second-chance normal form
            # (which can fuse a private generator into the loop that consumes it) removes the need to analyse it by itself
            r = rep.rule("scope", "every function the argument depends on is within the analysed statement/expression subset")
            for kind, line in e.constructs:
                r.fail(e.qual, f"{e.qual} uses `{kind}` (line {line}), a construct outside the analysed subset; the argument for this "
                               f"property depends on this function, so the property is not proved for this tree",
                       file=e.path, line=line, stmt=kind)
            import ast as _ast
            short = e.qual.rsplit(".", 1)[-1]
            for fq, fi in ctx.prog.functions.items():
                if any(isinstance(n, _ast.Call) and ((isinstance(n.func, _ast.Attribute) and n.func.attr == short) or
                                                     (isinstance(n.func, _ast.Name) and n.func.id == short)) for n in _ast.walk(fi.node)):
                    scope_callers.add(fq)
        if not locals().get("timed_out"):
            import signal as _signal2

            def _too_long2(signum, frame):
                raise TimeoutError("no verdict within the analysis budget (second chance)")
            _old2 = _signal2.signal(_signal2.SIGALRM, _too_long2)
            _signal2.alarm(int(os.environ.get("SA_RULE_BUDGET_S", "150")))
            try:
                rep, ctx = second_chance(prop, mod, tier, root, rep, ctx, extra_targets=scope_callers)
            except TimeoutError:
                pass  # the first run's findings stand
            finally:
                _signal2.alarm(0)
                _signal2.signal(_signal2.SIGALRM, _old2)
        from sa.rules.model import check_model
        check_model(ctx, rep)  # premises of the resolved-program model itself (whole package), part of every property's argument
        rep.analysed.update(ctx.analysed())
        if tier == "thorough":
            thorough_extras(prop, mod, root, rep)
        return rep.finish(load_known(), evidence_dir)
    except UnprovenScope as e:
        # a function the argument needs is written with constructs the evaluator does not model: not proved for this tree
        try:
            r = rep.rule("scope", "every function the argument depends on is within the analysed statement/expression subset")
            for kind, line in e.constructs:
                r.fail(e.qual, f"{e.qual} uses `{kind}` (line {line}), a construct outside the analysed subset; the argument for this "
                               f"property depends on this function, so the property is not proved for this tree",
                       file=e.path, line=line, stmt=kind)
            return rep.finish(load_known(), evidence_dir)
        except Exception:
            traceback.print_exc()
            print(f"ANALYSIS-ERROR property={prop} checker raised (see traceback)")
            return 2
    except Unproven as e:
        try:
            r = rep.rule("decidable", "every value the rules must evaluate statically is still a constant of the tree")
            r.fail(e.construct, f"{e.message}; the premise that needs it is not proved for this tree", file=e.path, line=e.line, stmt=e.construct)
            return rep.finish(load_known(), evidence_dir)
        except Exception:
            traceback.print_exc()
            print(f"ANALYSIS-ERROR property={prop} checker raised (see traceback)")
            return 2
    except AnalysisError as e:
        print(f"ANALYSIS-ERROR property={prop} {e}")
        return 2
    except Exception:
        traceback.print_exc()
        print(f"ANALYSIS-ERROR property={prop} checker raised (see traceback)")
        return 2


def second_chance(prop: str, mod, tier: str, root: str, rep: Report, ctx, extra_targets: set = frozenset()):
    """A shape at an anchor matched no verified form.  Before reporting it, re-evaluate the functions the findings name on a
    finer normal form: private helpers called there that no rule looks at by itself are inlined even when they have several
    returns or contain loops (inlining preserves behaviour, so a proof on the normal form is a proof for the tree).  If every
    rule is then satisfied that run is the verdict; otherwise the original findings stand."""
    from sa.context import Ctx

    # two attempts: first keeping every function a rule looked at in the first run as a unit of its own (many are anchors with
    # their own premises); then, if that does not suffice, keeping none (discovery scans look at functions that are not anchors)
    # and the functions named by the findings with or without their callers (a finding may name the new helper itself)
    for with_callers in (False, True):
        for use_protect in (True, False):
            r2, c2 = _second_chance_once(prop, mod, tier, root, rep, ctx, extra_targets, use_protect, with_callers)
            if r2 is not rep:
                return r2, c2
    # a rule whose first run looked *into* the new helper (a taint or effect scan touches every function it reaches) protects it
    # in the attempts above, and without any protection the anchors get inlined as well: release one touched private helper
    # called from the named functions at a time
    import ast as _ast
    named = {f.construct for f in rep.findings() if f.construct in ctx.prog.functions}
    cands = []
    for q in sorted(named):
        fi = ctx.prog.functions[q]
        for n_ in _ast.walk(fi.node):
            if isinstance(n_, _ast.Call):
                nm = n_.func.attr if isinstance(n_.func, _ast.Attribute) else n_.func.id if isinstance(n_.func, _ast.Name) else None
                if nm and nm.startswith("_") and not nm.startswith("__"):
                    for hq in ctx.prog.functions:
                        if hq.rsplit(".", 1)[-1] == nm and hq in ctx._touched_funcs and hq not in cands and hq not in named:
                            cands.append(hq)
    for hq in cands[:6]:
        r2, c2 = _second_chance_once(prop, mod, tier, root, rep, ctx, extra_targets, True, False, release={hq})
        if r2 is not rep:
            return r2, c2
    return rep, ctx


def _second_chance_once(prop: str, mod, tier: str, root: str, rep: Report, ctx, extra_targets, use_protect: bool, with_callers: bool,
                        release: set = frozenset()):
    from sa.context import Ctx

    targets: set = set()
    cur = rep
    protect = (set(ctx._touched_funcs) - set(release)) if use_protect else set()
    for _ in range(3):
        named = {f.construct for f in cur.findings()}
        # a finding may name a new private helper itself (e.g. a conversion site that moved into it): its callers are where it is inlined
        import ast as _ast
        shorts = {q.rsplit(".", 1)[-1]: q for q in named if q in ctx.prog.functions and q.rsplit(".", 1)[-1].startswith("_")
                  and not q.rsplit(".", 1)[-1].startswith("__")}
        callers = set()
        if shorts and with_callers:
            for fq, fi in ctx.prog.functions.items():
                for n_ in _ast.walk(fi.node):
                    if isinstance(n_, _ast.Call):
                        nm = n_.func.attr if isinstance(n_.func, _ast.Attribute) else n_.func.id if isinstance(n_.func, _ast.Name) else None
                        if nm in shorts and fq != shorts[nm]:
                            callers.add(fq)
        new = (named | callers | set(extra_targets)) - targets
        if not cur.findings() or not new:
            break
        targets |= new
        ctx2 = Ctx(root, tier)
        ctx2.ev.deep_inline_in = set(targets)
        ctx2.ev.deep_protect = protect - targets
        rep2 = Report(prop, tier, rep.level, root)
        try:
            mod.run(ctx2, rep2)
        except Exception:
            return rep, ctx
        if not ctx2.ev.deep_inlined:
            break
        if not rep2.findings():
            rep2.extra["normal_form"] = {"private_helpers_inlined_at_their_call_sites": sorted(ctx2.ev.deep_inlined),
                                         "inside": sorted(targets)}
            return rep2, ctx2
        cur = rep2
        if use_protect:
            protect |= set(ctx2._touched_funcs) - set(release)
    return rep, ctx


def thorough_extras(prop: str, mod, root: str, rep: Report) -> None:
    """Thorough tier: (a) recompute every automata obligation over the un-merged 128+4 character alphabet -- an independent
    computation that must agree; (b) validate the analyser's regex model against the real `re` engine on the shipped pattern
    constants (exercises the stdlib on constants, never repository code; disagreement = tool broken, exit 2); (c) adequacy:
    run the quick check on scratch copies with each seeded change of this property applied (informational only)."""
    import glob
    import importlib.util
    import shutil
    import subprocess
    import tempfile

    from sa import rx
    from sa.context import Ctx
    from sa.rules import lang

    if lang.IMPLS:
        impls = list(lang.IMPLS)
        keys1 = sorted(f.key() for f in rep.findings())
        rx.set_merge(False)
        try:
            lang._CACHE.clear()
            rep2 = Report(prop, "thorough", rep.level, root)
            mod.run(Ctx(root, "quick"), rep2)
            keys2 = sorted(f.key() for f in rep2.findings())
        finally:
            rx.set_merge(True)
            lang._CACHE.clear()
        if keys1 != keys2:
            raise AnalysisError(f"automata verdicts differ between the merged-atom and the un-merged alphabet: {set(keys1) ^ set(keys2)}")
        rep.extra["unmerged_alphabet_recomputation"] = {"agrees": True, "obligations": sum(len(r.instances) for r in rep2.rules)}
        sys.path.insert(0, os.path.join(VERIF, "selftest"))
        import rx_validate as rv  # importable by name so that its worker processes can unpickle their tasks
        n, dis = rv.validate(impls, 5)
        if dis:
            raise AnalysisError(f"regex model disagrees with the real engine on {dis} string(s): analyser broken")
        rep.extra["traces_validated_against_impl"] = n
        rep.extra["model_validation"] = f"ordered-thread simulation vs re on all strings up to length 5 over the extended atom alphabet of {len(impls)} shipped pattern(s): {n} strings, 0 disagreements"
    # (d) verdict stability: the same check on behaviour-preserving AST rewrites of the *current* tree must give the same verdict
    try:
        sys.path.insert(0, os.path.join(VERIF, "selftest"))
        import benign as _benign
        base_rc = 1 if rep.findings() else 0
        stab = {}
        for variant in ("rename-locals", "flip-comparisons", "swap-if-arms"):
            try:
                tmpv = _benign.build(variant, os.path.join(root, "chartparse"))
            except Exception as e:  # the current tree does not survive the rewrite (e.g. syntax the rewriter cannot print)
                stab[variant] = f"not applicable: {type(e).__name__}"
                continue
            vfind = []
            try:
                rcv = subprocess.run([os.path.join(VERIF, "check"), prop, "--tier", "quick", "--root", tmpv, "--evidence-dir", os.path.join(tmpv, "ev")],
                                     cwd=VERIF, capture_output=True, text=True).returncode
                try:
                    vfind = json.load(open(os.path.join(tmpv, "ev", f"{prop}.findings.json")))["findings"]
                except Exception:
                    vfind = []
            finally:
                shutil.rmtree(tmpv, ignore_errors=True)
            stab[variant] = {0: "holds", 1: "violation", 2: "analysis-error"}.get(rcv, str(rcv))
            if rcv == 1 and base_rc == 0:
                # the variant is the same program: a premise violated there is violated here; the rewrite only exposed it
                rv = rep.rule(f"rewrite.{variant}", f"premises re-evaluated on the behaviour-preserving rewrite '{variant}' of the current tree")
                for fd in vfind:
                    rv.inst(fd.get("construct", "?"))
                    rv.fail(fd.get("construct", "?"), f"(visible after the rewrite '{variant}') " + fd.get("message", ""), file=fd.get("file", ""),
                            line=fd.get("line", 0), stmt=fd.get("stmt", ""), witness=fd.get("witness"))
                base_rc = 1
        rep.extra["verdict_stability_under_rewrites"] = stab
    except ImportError:
        pass
    seeded = sorted(glob.glob(os.path.join(VERIF, "seeded", f"{prop}-*")))
    out = {}
    for d in seeded:
        tmp = tempfile.mkdtemp(prefix="adequacy-", dir="/tmp")
        try:
            shutil.copytree(os.path.join(root, "chartparse"), os.path.join(tmp, "chartparse"))
            pr = subprocess.run(f"patch -p1 -s < {d}/patch.diff", shell=True, cwd=tmp, capture_output=True, text=True)
            if pr.returncode:
                out[os.path.basename(d)] = "patch does not apply to this tree"
                continue
            rc = subprocess.run([os.path.join(VERIF, "check"), prop, "--tier", "quick", "--root", tmp, "--evidence-dir", os.path.join(tmp, "ev")],
                                cwd=VERIF, capture_output=True, text=True).returncode
            out[os.path.basename(d)] = {0: "MISSED", 1: "detected", 2: "analysis-error"}.get(rc, str(rc))
        finally:
            shutil.rmtree(tmp, ignore_errors=True)
    if out:
        rep.extra["seeded_change_adequacy_informational"] = out


def explain(path: str) -> int:
    with open(path) as fh:
        d = json.load(fh)
    print(f"property {d['property']} root {d['root']} tier {d['tier']}: {len(d['findings'])} finding(s)")
    for f in d["findings"]:
        print(f"- [{f['rule']}] {f['construct']}  ({f['file']}:{f['line']})")
        print(f"    {f['message']}")
        if f.get("stmt"):
            print(f"    statement: {f['stmt']}")
        if f.get("witness") is not None:
            print(f"    witness: {f['witness']!r}")
        try:
            lines = open(f["file"]).read().splitlines()
            lo, hi = max(0, f["line"] - 3), min(len(lines), f["line"] + 2)
            for i in range(lo, hi):
                print(f"      {i + 1:4d} | {lines[i]}")
        except Exception:
            pass
    return 0


def main() -> int:
    ap = argparse.ArgumentParser()
    ap.add_argument("prop")
    ap.add_argument("--tier", default=os.environ.get("VERIF_TIER", "quick"), choices=["quick", "thorough"])
    ap.add_argument("--root", default="/repo")
    ap.add_argument("--evidence-dir", default=os.path.join(VERIF, "evidence"))
    ap.add_argument("--explain", default=None)
    a = ap.parse_args()
    if a.explain:
        return explain(a.explain)
    if a.prop == "all":
        worst = 0
        for p in ALL:
            if os.path.exists(os.path.join(HERE, "rules", f"{p}.py")):
                rc = run_one(p, a.tier, a.root, a.evidence_dir)
                worst = max(worst, rc)
        return worst
    return run_one(a.prop, a.tier, a.root, a.evidence_dir)


if __name__ == "__main__":
    rc = main()
    sys.stdout.flush()
    os._exit(rc)
