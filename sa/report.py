"""report -- findings, evidence files, exit-code discipline (DESIGN R3-R5)."""
from __future__ import annotations

import json
import os
import re
import time
from dataclasses import dataclass, field
from typing import Any, Optional

VERIF = os.path.dirname(os.path.dirname(os.path.abspath(__file__)))


class AnalysisError(Exception):
    """The analysis cannot decide (anchor vanished, construct outside the analysed subset, instance
    count below its confirmed floor). Exit code 2, never a violation and never a pass."""


class Unproven(AnalysisError):
    """The tree has a construct the argument cannot be carried through (a value the rules must evaluate is no longer a constant,
    a helper became recursive, ...): not proved for this tree.  Reported as a finding naming the construct (exit 1)."""

    def __init__(self, construct: str, message: str, path: str = "", line: int = 0) -> None:
        super().__init__(message)
        self.construct, self.message, self.path, self.line = construct, message, path, line


class UnprovenScope(AnalysisError):
    """A function the argument depends on uses a construct outside the analysed subset (generator, async, match, ...): the property
    is not proved for this tree.  Reported as a finding naming the function and construct (exit 1), not as a broken analysis."""

    def __init__(self, qual: str, path: str, constructs: list) -> None:
        super().__init__(f"{qual} uses constructs outside the analysed subset: {constructs}")
        self.qual, self.path, self.constructs = qual, path, constructs


def norm_text(s: str) -> str:
    return re.sub(r"\s+", " ", s).strip()


@dataclass
class Finding:
    rule: str  # e.g. C15.G3.rejected-set
    construct: str  # qualified construct, e.g. chartparse.sync.BPMEvents.__post_init__
    message: str  # expected vs found
    file: str = ""
    line: int = 0
    stmt: str = ""  # normalised statement text (identity, with rule+construct)
    witness: Any = None

    def key(self) -> str:
        return f"{self.rule}|{self.construct}|{norm_text(self.stmt)}"

    def render(self) -> str:
        loc = f"{self.file}:{self.line}" if self.file else "?"
        w = f" witness={self.witness!r}" if self.witness is not None else ""
        return f"{loc} {self.construct} [{self.rule}] {self.message}{w}"


@dataclass
class Rule:
    """One premise of a property: what was examined, and what was found."""

    id: str
    text: str
    instances: list = field(default_factory=list)  # human readable instance descriptions
    nontrivial: int = 0
    findings: list = field(default_factory=list)
    floor: int = 0  # minimum instance count confirmed by hand
    nontrivial_set: set = field(default_factory=set)

    def inst(self, desc: str, nontrivial: bool = True) -> None:
        self.instances.append(desc)
        if nontrivial:
            self.nontrivial += 1
            self.nontrivial_set.add(desc)

    def fail(self, construct: str, message: str, *, file: str = "", line: int = 0, stmt: str = "",
             witness: Any = None) -> None:
        self.findings.append(Finding(self.id, construct, message, file, line, stmt, witness))


class Report:
    def __init__(self, prop: str, tier: str, level: str, root: str) -> None:
        self.prop = prop
        self.tier = tier
        self.level = level
        self.root = root
        self.rules: list[Rule] = []
        self.t0 = time.time()
        self.assumptions: list[str] = []
        self.trusted: list[str] = []
        self.extra: dict = {}
        self.explanation = ""
        self.analysed: dict = {}

    def rule(self, id: str, text: str, floor: int = 0) -> Rule:
        r = Rule(f"{self.prop}.{id}", text, floor=floor)
        self.rules.append(r)
        return r

    # ------------------------------------------------------------------------------------------
    def findings(self) -> list:
        out = []
        for r in self.rules:
            out += r.findings
        return out

    def check_floors(self) -> None:
        """Vacuous-pass guard.  A rule that examines fewer instances than were confirmed by hand on the pinned tree has lost
        sight of (part of) what its premise quantifies over: the code changed shape or is gone, and the premise is not proved.
        Reported as a finding on the rule (exit 1), like every other "unproven" (DESIGN A.2 items 1 and 10)."""
        for r in self.rules:
            if len(r.instances) < r.floor:
                r.fail(r.id, f"rule {r.id} ({r.text[:120]}) examined {len(r.instances)} instance(s), below the {r.floor} confirmed on "
                             f"the pinned tree: the constructs this premise quantifies over are gone or no longer recognisable, so the "
                             f"premise is not proved for this tree", stmt=f"floor {r.floor}")

    def finish(self, known: dict, evidence_dir: str) -> int:
        """Write evidence, print the verdict lines, return the exit code."""
        fs = self.findings()
        if not fs:
            # floors guard against vacuous passes; with findings the run is a violation anyway
            self.check_floors()
            fs = self.findings()
        known_keys = {k["key"]: k for k in known.get("known", []) if k.get("property") == self.prop}
        new = [f for f in fs if f.key() not in known_keys]
        old = [f for f in fs if f.key() in known_keys]
        wall = time.time() - self.t0
        obligations = sum(len(r.instances) for r in self.rules)
        failed_instances = len(fs)
        samples = []
        for r in self.rules:
            for i in r.instances[:4]:
                samples.append(f"{r.id}: {i}")
        cov: dict = {
            "explanation": self.explanation,
            "evaluations": obligations,
            "distinct_nontrivial": len(set().union(*[r.nontrivial_set for r in self.rules])) if self.rules else 0,
            "rule": "one evaluation = one rule instance examined on the current source tree (a premise of the "
                    "property's argument applied to one construct); non-trivial = the instance needed resolution "
                    "of the program (folded constant, term, automaton, path set), i.e. is not true by construction; distinct = distinct "
                    "instance descriptions, so a premise shared by several rules of one check is counted once",
            "samples": samples[:60],
            "obligations": obligations,
            "discharged": max(0, obligations - failed_instances),
            "checker_cmd": f"./check {self.prop} --tier {self.tier}",
            "trusted_base": self.trusted,
            "rules": [
                {"id": r.id, "text": r.text, "instances": len(r.instances), "floor": r.floor,
                 "violated": len(r.findings), "all_instances": r.instances[:400]}
                for r in self.rules
            ],
            "analysed": self.analysed,
            "exhaustive": True,
        }
        cov.update(self.extra)
        ev = {
            "property_id": self.prop,
            "tier": self.tier,
            "seed": int(os.environ.get("VERIF_SEED", "0") or 0),
            "level": self.level,
            "coverage": cov,
            "assumptions": self.assumptions + [f"trusted: {t}" for t in self.trusted],
            "wall_s": round(wall, 3),
            "violations": len(new),
        }
        os.makedirs(evidence_dir, exist_ok=True)
        with open(os.path.join(evidence_dir, f"{self.prop}.json"), "w") as fh:
            json.dump(ev, fh, indent=1, default=str)
        fpath = os.path.join(evidence_dir, f"{self.prop}.findings.json")
        with open(fpath, "w") as fh:
            json.dump(
                {"property": self.prop, "root": self.root, "tier": self.tier,
                 "findings": [dict(key=f.key(), rule=f.rule, construct=f.construct, message=f.message,
                                   file=f.file, line=f.line, stmt=f.stmt, witness=f.witness,
                                   known=f.key() in known_keys) for f in fs]},
                fh, indent=1, default=str)
        print(f"[{self.prop}] tier={self.tier} rules={len(self.rules)} instances={obligations} "
              f"violated={failed_instances} wall={wall:.2f}s")
        for r in self.rules:
            print(f"  {r.id}: {len(r.instances)} instance(s), {len(r.findings)} violated -- {r.text}")
        for f in old:
            print(f"KNOWN-FINDING: property={self.prop} {f.render()}")
        if new:
            for f in new:
                print("  FINDING " + f.render())
            print(f"VIOLATION property={self.prop} replay={fpath}")
            return 1
        print(f"OK property={self.prop}")
        return 0


def load_known() -> dict:
    p = os.path.join(VERIF, "known_findings.json")
    if not os.path.exists(p):
        return {"known": [], "fixed": []}
    with open(p) as fh:
        return json.load(fh)
