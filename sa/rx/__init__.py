"""``sa.rx`` -- exact automata for Python regular-expression *constants*.

A pattern string is parsed with ``re._parser.parse`` (never compiled, never run),
turned into a priority NFA (``pnfa``) with the use-site method (``match`` /
``fullmatch`` / ``search``) compiled in, and analysed over a finite *atom*
alphabet that is exact for all of Unicode (``alphabet``).  All verdicts are about
**all strings at once**; witnesses are real strings and *shortest* ones.

Language of a ``Pattern``:  ``L(p) = { w : getattr(re.compile(p.pattern), p.method)(w) is not None }``.

Priority-free questions (``included``, ``disjoint``, ``equivalent``, ``Lang``) use
subset construction and products (``dfa``).  Priority-dependent questions
(``capture_exact``, ``group_contents_included``, ``simulate``) use the ordered-thread
simulation and its determinisation (``capture``).

Trusted base: ``re._parser``; the equivalence "ordered threads with first-visit
de-duplication == sre backtracking" for patterns without back-references,
look-around and empty-width loops (all rejected with ``RxUnsupported``); the atom
partition lemma (``alphabet``).  ``selftest/rx_validate.py`` tests the second item
against the real engine.
"""
from __future__ import annotations

from dataclasses import dataclass
from typing import Dict, Iterable, List, Optional, Tuple, Union

from . import alphabet as _alphabet
from . import capture as _capture
from . import dfa as _dfa
from . import pnfa as _pnfa
from .alphabet import Partition, partition_for, set_merge, get_merge
from .parse import RxUnsupported, parse as _parse

__all__ = [
    "RxUnsupported", "Pattern", "Lang", "CaptureWitness",
    "included", "disjoint", "equivalent", "difference", "union", "intersect", "complement",
    "group_contents_included", "capture_exact", "ambiguity", "simulate", "stats",
    "set_merge", "get_merge", "atoms_of", "stepper", "spans_of", "partition_of",
]

_METHODS = ("match", "fullmatch", "search")


class Pattern:
    """A regex constant together with the method applied at its use site."""

    def __init__(self, pattern: str, method: str = "match"):
        if method not in _METHODS:
            raise ValueError(f"method must be one of {_METHODS}")
        parsed = _parse(pattern)
        self.pattern = pattern
        self.method = method
        self.ngroups: int = parsed.ngroups
        self.groupindex: Dict[str, int] = parsed.groupindex
        self.leaves = parsed.leaves
        self.multi_groups = parsed.multi_groups      # groups inside a repeat with max > 1
        self._ast = parsed.ast
        self._nfa: Dict[str, _pnfa.PNFA] = {}
        self._dfa: Dict[Tuple[int, str], Tuple[Partition, _dfa.DFA]] = {}

    # -- plumbing
    def key(self) -> Tuple[str, str]:
        return (self.pattern, self.method)

    def nfa(self, method: Optional[str] = None) -> _pnfa.PNFA:
        m = method or self.method
        n = self._nfa.get(m)
        if n is None:
            n = _pnfa.build_pnfa(self._ast, m)
            self._nfa[m] = n
        return n

    def dfa(self, part: Partition, method: Optional[str] = None) -> _dfa.DFA:
        m = method or self.method
        k = (id(part), m)
        hit = self._dfa.get(k)
        if hit is None or hit[0] is not part:
            hit = (part, _dfa.determinise(self.nfa(m), part))
            self._dfa[k] = hit
        return hit[1]

    def group_number(self, g: Union[int, str]) -> int:
        if isinstance(g, str):
            if g not in self.groupindex:
                raise ValueError(f"no group named {g!r} in {self.pattern!r}")
            return self.groupindex[g]
        if not (isinstance(g, int) and 1 <= g <= self.ngroups):
            raise ValueError(f"no group {g!r} in {self.pattern!r}")
        return g

    def __repr__(self) -> str:
        return f"Pattern({self.pattern!r}, {self.method!r})"

    # language algebra (results are ``Lang`` objects)
    def __or__(self, other):
        return union(self, other)

    def __and__(self, other):
        return intersect(self, other)

    def __sub__(self, other):
        return difference(self, other)

    def __invert__(self):
        return complement(self)


# --------------------------------------------------------------------------- languages

class Lang:
    """A boolean combination of pattern languages, kept symbolic.  A decision
    (``is_empty`` / ``included_in`` / ``equals``) collects all patterns involved
    in *both* operands, builds one common atom partition, one DFA per pattern,
    and searches the synchronous product breadth-first.

    NB (naming kept from the specification of this module): every decision
    returns ``None`` when the property HOLDS and a shortest witness string when
    it does not -- ``is_empty()`` returns ``None`` for the empty language and a
    member otherwise."""

    def __init__(self, op: str, args: tuple):
        self.op = op            # "pat" | "or" | "and" | "not"
        self.args = args

    # -- construction helpers
    def __or__(self, other):
        return union(self, other)

    def __and__(self, other):
        return intersect(self, other)

    def __sub__(self, other):
        return difference(self, other)

    def __invert__(self):
        return complement(self)

    # -- evaluation
    def patterns(self, out: Optional[dict] = None) -> Dict[Tuple[str, str], Pattern]:
        out = {} if out is None else out
        if self.op == "pat":
            out.setdefault(self.args[0].key(), self.args[0])
        else:
            for a in self.args:
                a.patterns(out)
        return out

    def _eval(self, env: Dict[Tuple[str, str], bool]) -> bool:
        if self.op == "pat":
            return env[self.args[0].key()]
        if self.op == "or":
            return any(a._eval(env) for a in self.args)
        if self.op == "and":
            return all(a._eval(env) for a in self.args)
        if self.op == "not":
            return not self.args[0]._eval(env)
        raise AssertionError(self.op)

    # -- decisions
    def is_empty(self) -> Optional[str]:
        """``None`` if the language is empty, else a shortest member."""
        pats = self.patterns()
        keys = list(pats)
        if not keys:
            return "" if self._eval({}) else None
        part = _partition(pats.values())
        dfas = [pats[k].dfa(part) for k in keys]
        path = _dfa.bool_product_witness(dfas, lambda acc: self._eval(dict(zip(keys, acc))))
        return None if path is None else part.render(path)

    witness = is_empty

    def included_in(self, other) -> Optional[str]:
        """``None`` if ``self`` is a subset of ``other``, else a shortest string in ``self - other``."""
        return difference(self, other).is_empty()

    def equals(self, other) -> Optional[str]:
        """``None`` if equal, else a shortest string of the symmetric difference."""
        o = _lang(other)
        return union(difference(self, o), difference(o, self)).is_empty()

    def contains(self, s: str) -> bool:
        """Membership of one concrete string (runs the DFAs, not ``re``)."""
        pats = self.patterns()
        part = _partition(pats.values())
        atoms = [part.atom_of(c) for c in s]
        return self._eval({k: p.dfa(part).accepts(atoms) for k, p in pats.items()})

    def to_dfa(self, part: Optional[Partition] = None) -> Tuple[Partition, _dfa.DFA]:
        """Explicit DFA (textbook complement / product), mostly for inspection."""
        pats = self.patterns()
        part = part or _partition(pats.values())

        def rec(node: "Lang") -> _dfa.DFA:
            if node.op == "pat":
                return node.args[0].dfa(part)
            if node.op == "not":
                return rec(node.args[0]).complement()
            ds = [rec(a) for a in node.args]
            if not ds:
                sink = _dfa.DFA(part.n, [[0] * part.n], [node.op == "and"])
                return sink
            cur = ds[0]
            for d in ds[1:]:
                cur = cur.product(d, (lambda x, y: x or y) if node.op == "or" else (lambda x, y: x and y))
            return cur
        return part, rec(self)


def _lang(x) -> Lang:
    if isinstance(x, Lang):
        return x
    if isinstance(x, Pattern):
        return Lang("pat", (x,))
    raise TypeError(f"expected Pattern or Lang, got {type(x).__name__}")


def _partition(patterns: Iterable[Pattern]) -> Partition:
    leaves = set()
    for p in patterns:
        leaves |= p.leaves
    return partition_for(leaves)


def union(*ps) -> Lang:
    return Lang("or", tuple(_lang(p) for p in ps))


def intersect(*ls) -> Lang:
    return Lang("and", tuple(_lang(p) for p in ls))


def complement(x) -> Lang:
    return Lang("not", (_lang(x),))


def difference(a, *bs) -> Lang:
    """``L(a)`` minus the union of the ``L(b)``."""
    if not bs:
        return _lang(a)
    return Lang("and", (_lang(a), Lang("not", (union(*bs),))))


def included(a, b) -> Optional[str]:
    """``None`` if ``L(a)`` is a subset of ``L(b)``, else a shortest witness in ``L(a) - L(b)``."""
    return difference(a, b).is_empty()


def disjoint(a, b) -> Optional[str]:
    """``None`` if ``L(a)`` and ``L(b)`` are disjoint, else a shortest common string."""
    return intersect(a, b).is_empty()


def equivalent(a, b) -> Optional[str]:
    """``None`` if ``L(a) == L(b)``, else a shortest string of the symmetric difference."""
    return _lang(a).equals(b)


def partition_of(*patterns: Pattern) -> Partition:
    """The common atom partition of the patterns."""
    return _partition(patterns)


def atoms_of(*patterns: Pattern) -> List[str]:
    """Representative characters of the common atom partition of the patterns."""
    return list(_partition(patterns).reps)


# --------------------------------------------------------------------------- priority-dependent

def _spans(regs: Tuple[int, ...], ngroups: int, group0: bool):
    out = []
    for g in range(0 if group0 else 1, ngroups + 1):
        s, e = regs[2 * g], regs[2 * g + 1]
        out.append(None if s < 0 or e < 0 else (s, e))
    return tuple(out)


def simulate(p: Pattern, s: str, group0: bool = False):
    """Ordered-thread simulation of ``p`` (under ``p.method``) on ONE string.

    ``None`` if there is no match, else the tuple of spans of groups
    ``1..ngroups`` (``None`` for a group that did not participate) -- exactly
    ``tuple(m.span(i) if m.group(i) is not None else None for i in 1..n)``.
    With ``group0=True`` the span of the whole match is prepended.  The string
    is first abstracted to atoms of ``p``'s own partition, so this runs the very
    model (atoms, flags, closure order, duplicate rule) that the symbolic
    operations use."""
    part = _partition([p])
    atoms = [part.atom_of(c) for c in s]
    regs = _capture.simulate_atoms(p.nfa(), part, atoms, p.ngroups)
    return None if regs is None else _spans(regs, p.ngroups, group0)


def stepper(p: Pattern, part: Optional[Partition] = None) -> _capture.Stepper:
    """Incremental form of ``simulate`` (same code path) for bulk enumeration:
    see ``capture.Stepper``.  ``spans_of`` converts its register tuples."""
    part = part or _partition([p])
    return _capture.Stepper(p.nfa(), part, p.ngroups)


def spans_of(p: Pattern, regs, group0: bool = False):
    return None if regs is None else _spans(regs, p.ngroups, group0)


def _check_single(p: Pattern, groups: Iterable[int], what: str) -> None:
    bad = sorted(set(groups) & set(p.multi_groups))
    if bad:
        raise RxUnsupported(
            f"{what}: group(s) {bad} of {p.pattern!r} lie inside a repeat with max > 1 "
            "(marker comparison is only exact when every tag fires at most once)")


def _spec_auto(spec: Pattern, part: Partition, spec_groups: List[int]) -> _capture.SpecAuto:
    tagmap = {}
    for j, g in enumerate(spec_groups):
        tagmap[("o", g)] = ("o", j)
        tagmap[("c", g)] = ("c", j)
    return _capture.SpecAuto(spec.nfa("fullmatch"), part, tagmap)


def ambiguity(spec: Pattern, groups) -> Optional[str]:
    """Is ``spec`` -- read as a *fullmatch* language -- ambiguous w.r.t. the spans
    of ``groups``?  Returns a shortest string with two parses that give different
    spans to one of the groups (set vs. unset counts as different), else ``None``."""
    if isinstance(groups, (str, int)):
        groups = [groups]
    nums = [spec.group_number(g) for g in groups]
    _check_single(spec, nums, "ambiguity")
    part = _partition([spec])
    path = _capture.ambiguity_search(_spec_auto(spec, part, nums))
    return None if path is None else part.render(path)


@dataclass
class CaptureWitness:
    """``string`` is in the spec language; ``want`` are the spec's substrings per
    spec group (as given in the groupmap), ``got`` the substrings of the shipped
    pattern's winning parse per shipped group, or ``None`` if it does not match."""
    string: str
    want: Dict[Union[str, int], Optional[str]]
    got: Optional[Dict[Union[str, int], Optional[str]]]


def capture_exact(impl: Pattern, spec: Pattern, groupmap: Dict[Union[str, int], Union[str, int]]
                  ) -> Optional[CaptureWitness]:
    """Decide: for ALL ``w`` fully matched by ``spec``: ``impl`` (under
    ``impl.method``) matches ``w`` and, for every ``spec group g -> impl group k``
    of ``groupmap``, the span captured for ``k`` by impl's winning (first in
    backtracking priority) parse equals the spec's span for ``g`` (both unset is
    equal).  ``None`` if so, else a ``CaptureWitness`` for a shortest such ``w``.

    ``spec.method`` is ignored: the spec is always a fullmatch language.  Raises
    ``ValueError`` if the spec is ambiguous for the mapped groups or the map is
    not one-to-one, ``RxUnsupported`` if a mapped group of either pattern lies
    inside a repeat with max > 1."""
    items = list(groupmap.items())
    sg = [spec.group_number(g) for g, _ in items]
    ig = [impl.group_number(k) for _, k in items]
    if len(set(sg)) != len(sg) or len(set(ig)) != len(ig):
        raise ValueError("groupmap must be one-to-one")
    _check_single(spec, sg, "capture_exact(spec)")
    _check_single(impl, ig, "capture_exact(impl)")
    amb = ambiguity(spec, [g for g, _ in items])
    if amb is not None:
        raise ValueError(f"specification is ambiguous for the mapped groups, e.g. on {amb!r}")
    part = _partition([impl, spec])
    sa = _spec_auto(spec, part, sg)
    impl_tagmap = {}
    for j, k in enumerate(ig):
        impl_tagmap[("o", k)] = ("o", j)
        impl_tagmap[("c", k)] = ("c", j)
    res = _capture.capture_exact_search(impl.nfa(), impl_tagmap, sa)
    if res is None:
        return None
    atoms, markers = res
    w = part.render(atoms)
    opened, closed = {}, {}
    for i, M in enumerate(markers):
        for kind, j in M:
            (opened if kind == "o" else closed)[j] = i
    want = {}
    for j, (g, _) in enumerate(items):
        want[g] = w[opened[j]:closed[j]] if j in opened and j in closed else None
    spans = simulate(impl, w)
    got = None
    if spans is not None:
        got = {}
        for (_, k), kn in zip(items, ig):
            sp = spans[kn - 1]
            got[k] = None if sp is None else w[sp[0]:sp[1]]
    # self-check: the re-run of the concrete simulation must exhibit the violation
    if got is not None and all(want[g] == got[k] for g, k in items):
        same_pos = True
        for j, kn in enumerate(ig):
            sp = spans[kn - 1]
            wsp = (opened[j], closed[j]) if j in opened and j in closed else None
            if sp != wsp:
                same_pos = False
        if same_pos:
            raise RuntimeError("internal error: symbolic and concrete simulation disagree on %r" % w)
    return CaptureWitness(w, want, got)


def group_contents_included(a: Pattern, group: Union[int, str], b: Pattern
                            ) -> Optional[Tuple[str, str]]:
    """For every ``w`` in ``L(a)`` take the substring captured by ``group`` in the
    WINNING parse of ``a`` (under ``a.method``); strings where the group did not
    participate are skipped.  ``None`` if that substring is always in ``L(b)``
    (``b`` under its own method -- pass a ``fullmatch`` pattern for "always
    fullmatches b"), else ``(w, captured)`` for a shortest such ``w``.  Groups
    inside repeats are handled (the last iteration wins, as in ``re``)."""
    g = a.group_number(group)
    part = _partition([a, b])
    path = _capture.group_contents_search(a.nfa(), part, g, b.dfa(part))
    if path is None:
        return None
    w = part.render(path)
    spans = simulate(a, w)
    if spans is None or spans[g - 1] is None:
        raise RuntimeError("internal error: symbolic and concrete simulation disagree on %r" % w)
    s, e = spans[g - 1]
    return (w, w[s:e])


def stats() -> dict:
    """Counters since import: NFA states built, DFA states built, product states
    visited, ordered configurations explored."""
    return dict(_pnfa.STATS)
