"""Character pool, leaf predicates and the atom partition.

Lemma (atom partition)
----------------------
Let ``Lv`` be a finite set of leaf predicates, each one of: a literal code
point, a code-point range, ``str.isdecimal``, ``str.isspace``.  Let the *pool*
be built by ``pool_for(Lv)``.  Then every Unicode character ``c`` (every ``str``
of length 1, surrogates included) has the same truth vector over ``Lv`` as some
pool character.

*Proof sketch.*  All 128 ASCII characters are in the pool.  For a non-ASCII
``c``: cut ``[0x80, 0x110000)`` at every non-ASCII literal ``x`` (cuts ``x`` and
``x+1``) and every range end (cuts ``lo`` and ``hi+1``).  Inside one elementary
interval all literal/range predicates are constant, so the truth vector of
``c`` only depends on its interval and on which of the three classes
*decimal*, *space*, *other* it is in (``isdecimal`` and ``isspace`` are
disjoint; this is re-checked over all code points by the validation script).
``pool_for`` puts the first decimal, the first space and the first other
character of every elementary interval into the pool (when the class is
non-empty there).  Without non-ASCII leaves there is a single interval and
U+0663 / U+00A0 / U+00E9 (and U+FEFF) are the three representatives.  []

Consequently a regex built from these leaves cannot distinguish two strings
that are equal atom by atom, and every result computed over atoms (one
representative per truth vector) is exact for all Unicode strings.  The
newline ``"\\n"`` is always made a leaf of its own because ``.`` and ``$`` refer
to it.
"""
from __future__ import annotations

from bisect import bisect_left
from typing import Dict, Iterable, List, Optional, Tuple

from .parse import CharSet, leaf_eval

NL_LEAF = ("lit", 10)
EXTRA_REPS = ("\u0663", "\u00a0", "\u00e9", "\ufeff")   # decimal, space, other, other (BOM)

_MERGE = True


def set_merge(flag: bool) -> None:
    """``False``: every pool character is its own atom (the independent,
    un-merged computation of the thorough tier).  Default ``True``."""
    global _MERGE
    _MERGE = bool(flag)
    _PARTITIONS.clear()


def get_merge() -> bool:
    return _MERGE


# ------------------------------------------------------------------ non-ASCII classes

_NONASCII: Optional[Tuple[List[int], List[int]]] = None


def _nonascii_classes() -> Tuple[List[int], List[int]]:
    """Sorted code points >= 0x80 that are decimal / space (one scan, cached)."""
    global _NONASCII
    if _NONASCII is None:
        dec, spc = [], []
        for cp in range(0x80, 0x110000):
            c = chr(cp)
            if c.isdecimal():
                dec.append(cp)
            elif c.isspace():
                spc.append(cp)
        _NONASCII = (dec, spc)
    return _NONASCII


def _first_in(sorted_cps: List[int], lo: int, hi: int) -> Optional[int]:
    i = bisect_left(sorted_cps, lo)
    if i < len(sorted_cps) and sorted_cps[i] < hi:
        return sorted_cps[i]
    return None


def pool_for(leaves: Iterable[tuple]) -> List[str]:
    """The character pool for a set of leaf predicates (see the module lemma)."""
    pool = {chr(i) for i in range(128)}
    pool.update(EXTRA_REPS)
    cuts = set()
    for leaf in leaves:
        if leaf[0] == "lit" and leaf[1] >= 0x80:
            cuts.update((leaf[1], leaf[1] + 1))
        elif leaf[0] == "range" and leaf[2] >= 0x80:
            cuts.update((max(leaf[1], 0x80), leaf[2] + 1))
    if cuts:
        dec, spc = _nonascii_classes()
        cuts.update((0x80, 0x110000))
        bounds = sorted(c for c in cuts if 0x80 <= c <= 0x110000)
        for lo, hi in zip(bounds, bounds[1:]):
            d = _first_in(dec, lo, hi)
            s = _first_in(spc, lo, hi)
            if d is not None:
                pool.add(chr(d))
            if s is not None:
                pool.add(chr(s))
            cp = lo
            while cp < hi:
                c = chr(cp)
                if not c.isdecimal() and not c.isspace():
                    pool.add(c)
                    break
                cp += 1
    return sorted(pool)


# ------------------------------------------------------------------ representatives

def _rep_key(ch: str):
    """Preference order of representatives: lowercase letters, digits, uppercase
    letters, space, other printable ASCII, tab, newline, other ASCII, non-ASCII;
    inside one class the smallest code point."""
    o = ord(ch)
    if "a" <= ch <= "z":
        k = 0
    elif "0" <= ch <= "9":
        k = 1
    elif "A" <= ch <= "Z":
        k = 2
    elif ch == " ":
        k = 3
    elif 0x21 <= o <= 0x7E:
        k = 4
    elif ch == "\t":
        k = 5
    elif ch == "\n":
        k = 6
    elif o < 0x80:
        k = 7
    else:
        k = 8
    return (k, o)


class Partition:
    """Atoms = classes of pool characters with equal truth vectors over ``leaves``.

    ``reps[i]`` is the representative character of atom ``i``; ``nl`` is the
    index of the newline atom (always a singleton class)."""

    def __init__(self, leaves: Iterable[tuple], merge: bool = True):
        self.leaves: Tuple[tuple, ...] = tuple(sorted(set(leaves) | {NL_LEAF}))
        self.pool = pool_for(self.leaves)
        classes: Dict[tuple, List[str]] = {}
        for ch in self.pool:
            sig = tuple(leaf_eval(leaf, ch) for leaf in self.leaves)
            key = sig if merge else (sig, ch)
            classes.setdefault(key, []).append(ch)
        ordered = sorted(classes.values(), key=lambda cl: _rep_key(min(cl, key=_rep_key)))
        self.classes: List[List[str]] = ordered
        self.reps: List[str] = [min(cl, key=_rep_key) for cl in ordered]
        self._sig_to_atom = {
            tuple(leaf_eval(leaf, r) for leaf in self.leaves): i
            for i, r in enumerate(self.reps)
        } if merge else None
        self._char_to_atom = {ch: i for i, cl in enumerate(ordered) for ch in cl}
        self.n = len(self.reps)
        self.nl = self._char_to_atom["\n"]
        self._leafset = frozenset(self.leaves)
        self._masks: Dict[CharSet, Tuple[bool, ...]] = {}

    def mask(self, cs: CharSet) -> Tuple[bool, ...]:
        """Truth of *cs* on every atom (evaluated on the representatives; exact
        because all leaves of *cs* are leaves of the partition)."""
        m = self._masks.get(cs)
        if m is None:
            assert cs.leaves() <= self._leafset, "charset leaf outside the partition"
            m = tuple(cs.matches(r) for r in self.reps)
            self._masks[cs] = m
        return m

    def atom_of(self, ch: str) -> int:
        """Atom of an arbitrary character (pool member or not)."""
        a = self._char_to_atom.get(ch)
        if a is not None:
            return a
        sig = tuple(leaf_eval(leaf, ch) for leaf in self.leaves)
        if self._sig_to_atom is not None:
            return self._sig_to_atom[sig]          # KeyError would refute the lemma
        for i, r in enumerate(self.reps):          # un-merged mode: any equivalent atom
            if tuple(leaf_eval(leaf, r) for leaf in self.leaves) == sig:
                return i
        raise KeyError(ch)

    def render(self, atoms: Iterable[int]) -> str:
        return "".join(self.reps[a] for a in atoms)


_PARTITIONS: Dict[frozenset, Partition] = {}


def partition_for(leaves: Iterable[tuple]) -> Partition:
    key = frozenset(leaves) | {NL_LEAF}
    p = _PARTITIONS.get(key)
    if p is None:
        p = Partition(key, merge=_MERGE)
        _PARTITIONS[key] = p
    return p
