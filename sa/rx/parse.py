"""Front end: ``re._parser`` tree -> small own AST.

Only the regex *constant* (a ``str``) is looked at; nothing is compiled or
executed.  Everything outside the supported subset raises ``RxUnsupported``
(so a caller can fail closed).

AST
---
``Chars(cs)``            one character satisfying the ``CharSet`` *cs*
``Cat(items)``           concatenation
``Alt(items)``           ordered alternation (left alternative has priority)
``Repeat(body,lo,hi,greedy)``  ``hi is None`` means unbounded
``Group(index,body)``    capturing group ``index`` (>= 1; 0 is used internally
                         for the whole match)
``Assert(kind)``         ``BEGIN`` | ``END_NL`` (``$``) | ``END_STRICT`` (``\\Z``)

Leaf predicates (hashable tuples)
---------------------------------
``("lit", cp)``, ``("range", lo, hi)``, ``("digit",)`` = ``str.isdecimal``,
``("space",)`` = ``str.isspace``.  ``.`` is the negated set ``[^\\n]``.
"""
from __future__ import annotations

import re._constants as _C
import re._parser as _P
from dataclasses import dataclass
from typing import Optional, Tuple

BEGIN = "BEGIN"
END_NL = "END_NL"          # `$` : at end, or before a final "\n"
END_STRICT = "END_STRICT"  # `\Z`: at end only

MAX_COPIES = 4096          # guard on bounded-repeat expansion


class RxUnsupported(Exception):
    """The pattern (or the requested operation on it) is outside the exact model."""


# --------------------------------------------------------------------------- leaves

def leaf_eval(leaf: tuple, ch: str) -> bool:
    """Truth of one leaf predicate on one character (uses the real str methods)."""
    k = leaf[0]
    if k == "lit":
        return ord(ch) == leaf[1]
    if k == "range":
        return leaf[1] <= ord(ch) <= leaf[2]
    if k == "digit":
        return ch.isdecimal()
    if k == "space":
        return ch.isspace()
    raise AssertionError(leaf)


@dataclass(frozen=True)
class CharSet:
    """``items`` is a tuple of ``(leaf, negated_item)``; the set is the union of
    the (possibly item-negated) leaves, complemented if ``negate``."""
    items: Tuple[Tuple[tuple, bool], ...]
    negate: bool = False

    def matches(self, ch: str) -> bool:
        hit = False
        for leaf, neg in self.items:
            if leaf_eval(leaf, ch) != neg:
                hit = True
                break
        return hit != self.negate

    def leaves(self):
        return {leaf for leaf, _ in self.items}


ANYCHAR = CharSet((), True)                              # (?s:.)
DOT = CharSet(((("lit", 10), False),), True)             # .  == [^\n]


# --------------------------------------------------------------------------- AST

@dataclass(frozen=True)
class Chars:
    cs: CharSet


@dataclass(frozen=True)
class Cat:
    items: tuple


@dataclass(frozen=True)
class Alt:
    items: tuple


@dataclass(frozen=True)
class Repeat:
    body: object
    lo: int
    hi: Optional[int]
    greedy: bool


@dataclass(frozen=True)
class Group:
    index: int
    body: object


@dataclass(frozen=True)
class Assert:
    kind: str


EMPTY = Cat(())


def nullable(n) -> bool:
    """Can *n* match the empty string (assertions count as empty-width)?"""
    if isinstance(n, Chars):
        return False
    if isinstance(n, Assert):
        return True
    if isinstance(n, Cat):
        return all(nullable(x) for x in n.items)
    if isinstance(n, Alt):
        return any(nullable(x) for x in n.items)
    if isinstance(n, Group):
        return nullable(n.body)
    if isinstance(n, Repeat):
        return n.lo == 0 or nullable(n.body)
    raise AssertionError(n)


def collect_leaves(n, out: set) -> set:
    if isinstance(n, Chars):
        out |= n.cs.leaves()
    elif isinstance(n, (Cat, Alt)):
        for x in n.items:
            collect_leaves(x, out)
    elif isinstance(n, (Group, Repeat)):
        collect_leaves(n.body, out)
    return out


# --------------------------------------------------------------------------- conversion

_CATS = {
    _C.CATEGORY_DIGIT: (("digit",), False),
    _C.CATEGORY_NOT_DIGIT: (("digit",), True),
    _C.CATEGORY_SPACE: (("space",), False),
    _C.CATEGORY_NOT_SPACE: (("space",), True),
}

_ATS = {
    _C.AT_BEGINNING: BEGIN,
    _C.AT_BEGINNING_STRING: BEGIN,
    _C.AT_END: END_NL,
    _C.AT_END_STRING: END_STRICT,
}


@dataclass
class Parsed:
    ast: object
    ngroups: int                 # number of capturing groups (excluding group 0)
    groupindex: dict
    leaves: frozenset
    multi_groups: frozenset      # groups lying inside a repeat with max > 1


def parse(pattern: str) -> Parsed:
    """Parse *pattern* (a ``str`` regex, no flags) into the own AST."""
    if not isinstance(pattern, str):
        raise RxUnsupported("only str patterns are modelled")
    try:
        tree = _P.parse(pattern, 0)
    except Exception as exc:  # re.error, RecursionError, ...
        raise RxUnsupported(f"re._parser rejected the pattern: {exc}") from exc
    if tree.state.flags != _C.SRE_FLAG_UNICODE:
        raise RxUnsupported(f"flags {tree.state.flags!r} (only the default UNICODE is modelled)")
    multi: set = set()
    ast = _seq(tree, multi, 0)
    return Parsed(
        ast=ast,
        ngroups=tree.state.groups - 1,
        groupindex=dict(tree.state.groupdict),
        leaves=frozenset(collect_leaves(ast, set())),
        multi_groups=frozenset(multi),
    )


def _seq(sub, multi, depth):
    items = [_node(op, av, multi, depth) for op, av in sub]
    if len(items) == 1:
        return items[0]
    return Cat(tuple(items))


def _in(av) -> CharSet:
    negate = False
    items = []
    for op, a in av:
        if op is _C.NEGATE:
            negate = True
        elif op is _C.LITERAL:
            items.append((("lit", a), False))
        elif op is _C.RANGE:
            items.append((("range", a[0], a[1]), False))
        elif op is _C.CATEGORY:
            if a not in _CATS:
                raise RxUnsupported(f"category {a} (\\w, \\W, ... are not modelled)")
            items.append(_CATS[a])
        else:
            raise RxUnsupported(f"set item {op}")
    return CharSet(tuple(items), negate)


def _node(op, av, multi, depth):
    if op is _C.LITERAL:
        return Chars(CharSet(((("lit", av), False),), False))
    if op is _C.NOT_LITERAL:
        return Chars(CharSet(((("lit", av), False),), True))
    if op is _C.ANY:
        return Chars(DOT)
    if op is _C.IN:
        return Chars(_in(av))
    if op is _C.MAX_REPEAT or op is _C.MIN_REPEAT:
        lo, hi, sub = av
        unbounded = hi is _C.MAXREPEAT or hi == _C.MAXREPEAT
        hi_v = None if unbounded else int(hi)
        many = unbounded or hi_v > 1
        body = _seq(sub, multi, depth + (1 if many else 0))
        if nullable(body):
            raise RxUnsupported("empty-width loop: the body of a repeat can match the empty string")
        if (hi_v if hi_v is not None else int(lo)) > MAX_COPIES:
            raise RxUnsupported("repeat count too large to expand")
        return Repeat(body, int(lo), hi_v, op is _C.MAX_REPEAT)
    if op is _C.SUBPATTERN:
        group, add_flags, del_flags, sub = av
        if add_flags or del_flags:
            raise RxUnsupported("inline flags")
        body = _seq(sub, multi, depth)
        if group is None:
            return body
        if depth:
            multi.add(group)
        return Group(group, body)
    if op is _C.BRANCH:
        _, alts = av
        return Alt(tuple(_seq(a, multi, depth) for a in alts))
    if op is _C.AT:
        if av not in _ATS:
            raise RxUnsupported(f"assertion {av} (\\b, \\B are not modelled)")
        return Assert(_ATS[av])
    raise RxUnsupported(f"construct {op}")
