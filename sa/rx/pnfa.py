"""Priority (ordered) Thompson NFA with tag and assertion edges.

Structure
---------
Every state is exactly one of

* an *epsilon state*: an **ordered** list of outgoing edges ``(label, target)``;
  the order is the order in which the backtracking matcher tries the
  alternatives (greedy repeat: body, then exit; lazy repeat: exit, then body;
  alternation: left to right).  ``label`` is ``None``, a tag ``("o", k)`` /
  ``("c", k)`` (open / close of capturing group ``k``; ``k = 0`` is the whole
  match) or an assertion ``("a", BEGIN | END_NL | END_STRICT)``;
* a *character state*: one edge ``(CharSet, target)``;
* the single *final* state (no outgoing edge).

Character states and the final state are the *resting* states: a thread sits
there between two input characters.

``x{m,n}`` is expanded to ``m`` mandatory copies followed by ``n-m`` nested
optional copies ``(x(x(...)?)?)?`` (or a loop if unbounded), each with the
greedy / lazy edge order.  Repeats whose body can match the empty string are
rejected by the front end, so the epsilon graph is acyclic.

Methods
-------
The use-site method is compiled into the automaton, so that afterwards *every*
method is "first thread, in priority order, that is final when the input ends":

* ``fullmatch``:  ``o0 P c0``
* ``match``:      ``o0 P c0 (?s:.*)``   -- the trailing loop swallows the rest; a
  thread that has reached the end of ``P`` keeps its rank, so the first path in
  priority order that completes ``P`` wins exactly as in the backtracker
  (leftmost-first); lower-ranked threads that complete ``P`` later are dropped by
  the duplicate rule, higher-ranked ones overtake.
* ``search``:     ``(?s:.*?) o0 P c0 (?s:.*)``  -- the lazy prefix gives earlier
  start positions the higher priority.

Positions and ``$``
-------------------
A thread carries a *hypothesis flag* about the rest of the input instead of a
look-ahead:

* ``FREE`` (0)        nothing assumed,
* ``REST_NL`` (1)     "the remaining input is exactly ``"\\n"``",
* ``AT_END`` (2)      "the remaining input is empty".

``$`` (``END_NL``) passed by a ``FREE`` thread forks it into an ``AT_END`` and a
``REST_NL`` thread (the two hypotheses exclude each other, so their relative
order is irrelevant); a ``REST_NL`` / ``AT_END`` thread passes ``$`` unchanged.
``\\Z`` turns ``FREE`` into ``AT_END``, kills ``REST_NL``, keeps ``AT_END``.  On a
character: ``FREE`` stays ``FREE``; ``REST_NL`` survives only the newline atom
and becomes ``AT_END``; ``AT_END`` dies.  At the end of the input only ``FREE``
and ``AT_END`` threads may be final.  ``^`` / ``\\A`` (``BEGIN``) are passable only
in the closure computed at position 0.  Threads with a false hypothesis die
before they can win and are de-duplicated only against threads with the same
hypothesis, so they never disturb the order of the threads that are right.

Duplicate rule
--------------
``closure`` is a depth-first walk in edge order; the first visit of
``(state, flag)`` wins.  A later thread in the same ``(state, flag)`` has the
same future as the earlier one and a lower priority, hence can never be the
first accepting path (captures do not influence the future: no back-references).
"""
from __future__ import annotations

from typing import Callable, List, Optional, Tuple

from .parse import (ANYCHAR, BEGIN, END_NL, END_STRICT, Alt, Assert, Cat, Chars, CharSet,
                    Group, Repeat, RxUnsupported)

FREE, REST_NL, AT_END = 0, 1, 2
MAX_STATES = 60000

STATS = {"nfa_states": 0, "dfa_states": 0, "product_states": 0, "configurations": 0}


class PNFA:
    """See the module docstring.  ``eps[q]`` is a list or ``None``; ``chr[q]`` is
    ``(CharSet, target)`` or ``None``; ``final`` has neither."""

    def __init__(self):
        self.eps: List[Optional[list]] = []
        self.chr: List[Optional[Tuple[CharSet, int]]] = []
        self.start = -1
        self.final = -1

    def _new(self) -> int:
        if len(self.eps) >= MAX_STATES:
            raise RxUnsupported("automaton too large")
        self.eps.append(None)
        self.chr.append(None)
        return len(self.eps) - 1

    def eps_state(self, edges: list) -> int:
        q = self._new()
        self.eps[q] = edges
        return q

    def chr_state(self, cs: CharSet, target: int) -> int:
        q = self._new()
        self.chr[q] = (cs, target)
        return q

    @property
    def nstates(self) -> int:
        return len(self.eps)

    # -- Thompson construction, continuation style: returns the entry state of
    #    an automaton for `node` that continues into `nxt`.
    def build(self, node, nxt: int) -> int:
        if isinstance(node, Chars):
            return self.chr_state(node.cs, nxt)
        if isinstance(node, Cat):
            cur = nxt
            for item in reversed(node.items):
                cur = self.build(item, cur)
            return cur
        if isinstance(node, Alt):
            return self.eps_state([(None, self.build(a, nxt)) for a in node.items])
        if isinstance(node, Group):
            close = self.eps_state([(("c", node.index), nxt)])
            body = self.build(node.body, close)
            return self.eps_state([(("o", node.index), body)])
        if isinstance(node, Assert):
            return self.eps_state([(("a", node.kind), nxt)])
        if isinstance(node, Repeat):
            def choice(body_entry: int, exit_to: int) -> list:
                if node.greedy:
                    return [(None, body_entry), (None, exit_to)]
                return [(None, exit_to), (None, body_entry)]
            if node.hi is None:
                loop = self.eps_state([])
                body = self.build(node.body, loop)
                self.eps[loop] = choice(body, nxt)
                cur = loop
            else:
                cur = nxt
                for _ in range(node.hi - node.lo):
                    body = self.build(node.body, cur)
                    cur = self.eps_state(choice(body, nxt))
            for _ in range(node.lo):
                cur = self.build(node.body, cur)
            return cur
        raise AssertionError(node)


def build_pnfa(ast, method: str) -> PNFA:
    """Automaton of ``ast`` under ``method`` (see the module docstring)."""
    if method not in ("match", "fullmatch", "search"):
        raise ValueError(f"unknown method {method!r}")
    nfa = PNFA()
    nfa.final = nfa._new()
    items = []
    if method == "search":
        items.append(Repeat(Chars(ANYCHAR), 0, None, False))
    items.append(Group(0, ast))
    if method in ("match", "search"):
        items.append(Repeat(Chars(ANYCHAR), 0, None, True))
    nfa.start = nfa.build(Cat(tuple(items)), nfa.final)
    STATS["nfa_states"] += nfa.nstates
    return nfa


# --------------------------------------------------------------------------- threads

Thread = Tuple[int, int, object]          # (state, flag, payload)


def closure(nfa: PNFA, seeds, at_start: bool,
            on_tag: Optional[Callable[[object, tuple], object]] = None,
            all_paths: bool = False) -> List[Thread]:
    """Ordered epsilon closure of the ordered ``seeds`` (threads at arbitrary
    states).  Returns the threads at resting states, in priority order.

    ``all_paths=False``: first visit of ``(state, flag)`` wins (priority
    semantics).  ``all_paths=True``: duplicates are keyed on the payload too
    (used for the specification automaton, where every parse matters)."""
    out: List[Thread] = []
    seen = set()
    eps = nfa.eps
    for seed in seeds:
        stack = [seed]
        while stack:
            q, f, pl = stack.pop()
            key = (q, f, pl) if all_paths else (q, f)
            if key in seen:
                continue
            seen.add(key)
            edges = eps[q]
            if edges is None:
                out.append((q, f, pl))
                continue
            for label, t in reversed(edges):
                if label is None:
                    stack.append((t, f, pl))
                elif label[0] == "a":
                    kind = label[1]
                    if kind == BEGIN:
                        if at_start:
                            stack.append((t, f, pl))
                    elif kind == END_NL:
                        if f == FREE:
                            stack.append((t, REST_NL, pl))
                            stack.append((t, AT_END, pl))
                        else:
                            stack.append((t, f, pl))
                    elif kind == END_STRICT:
                        if f != REST_NL:
                            stack.append((t, AT_END, pl))
                    else:
                        raise AssertionError(kind)
                else:
                    stack.append((t, f, pl if on_tag is None else on_tag(pl, label)))
    return out


def step_flag(f: int, is_nl: bool) -> Optional[int]:
    """Flag after consuming one character, ``None`` if the hypothesis is refuted."""
    if f == FREE:
        return FREE
    if f == REST_NL:
        return AT_END if is_nl else None
    return None


def accepting_flag(f: int) -> bool:
    """May a thread with flag ``f`` be final when the input ends?"""
    return f != REST_NL
