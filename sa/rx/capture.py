"""Ordered-thread ("Pike") simulation and its determinised products.

All functions here work on a ``PNFA`` (method already compiled in, see
``pnfa``) and on the atoms of one ``Partition``.

* ``simulate_atoms``  -- one concrete atom string; payload of a thread = its
  capture registers.  This is the function that is validated against the real
  ``re`` engine; the three symbolic explorations below use the *same*
  ``closure`` / flag / duplicate rules with a different, finite payload.
* ``SpecAuto`` / ``ambiguity_search`` -- the specification regex as an ordinary
  NFA over symbols ``(marker set, atom)``; the marker set is the set of
  (mapped) group tags fired in the gap before the atom.
* ``capture_exact_search`` -- breadth-first exploration of
  ``(ordered configuration of the shipped pattern, determinised spec state)``.
  A thread's payload is ``(ok, fired)``: ``fired`` = mapped tags fired since the
  last character, ``ok`` = "in every earlier gap my fired set was exactly the
  spec's marker set".  Because every mapped tag fires at most once per path
  (mapped groups inside a repeat with max > 1 are refused by the caller),
  ``ok`` at the end  <=>  every mapped group has the same span (or is unset in
  both).
* ``group_contents_search`` -- same exploration, payload = where the thread is
  relative to the observed group: before (-1), inside with the state of the
  content DFA (>= 0), closed with content accepted (-2) / rejected (-3).

Termination: a configuration is a duplicate-free ordered tuple over the finite
set ``(state, flag)`` with a finite payload each; pairs are memoised.
"""
from __future__ import annotations

from collections import deque
from typing import Dict, FrozenSet, List, Optional, Sequence, Tuple

from .alphabet import Partition
from .dfa import DFA
from .pnfa import PNFA, STATS, accepting_flag, closure, step_flag

EMPTY: FrozenSet = frozenset()


def masks_for(nfa: PNFA, part: Partition):
    cache = nfa.__dict__.setdefault("_mask_cache", {})
    m = cache.get(id(part))
    if m is None or m[0] is not part:
        m = (part, [None if c is None else part.mask(c[0]) for c in nfa.chr])
        cache[id(part)] = m
    return m[1]


def _step_seeds(nfa: PNFA, masks, threads, a: int, is_nl: bool, remap=None):
    """Ordered seeds after consuming atom ``a`` (payload optionally remapped)."""
    seeds = []
    chr_ = nfa.chr
    for q, f, pl in threads:
        m = masks[q]
        if m is None or not m[a]:
            continue
        nf = step_flag(f, is_nl)
        if nf is None:
            continue
        seeds.append((chr_[q][1], nf, pl if remap is None else remap(pl)))
    return seeds


def _winner(nfa: PNFA, threads):
    """First thread, in priority order, that is final with an admissible flag."""
    final = nfa.final
    for q, f, pl in threads:
        if q == final and accepting_flag(f):
            return (q, f, pl)
    return None


# --------------------------------------------------------------------------- concrete

class Stepper:
    """Incremental ordered-thread simulation with capture registers as payload.

    ``threads = start()``; ``threads = feed(threads, i, atom)`` consumes the
    ``i``-th character (0-based); ``result(threads)`` is the register tuple
    ``(s0, e0, s1, e1, ...)`` (``-1`` = unset) of the winning parse if the input
    ended here, or ``None``.  Thread lists are immutable from the caller's point
    of view, so prefixes can be shared when many strings are enumerated."""

    def __init__(self, nfa: PNFA, part: Partition, ngroups: int):
        self.nfa = nfa
        self.part = part
        self.masks = masks_for(nfa, part)
        self.ngroups = ngroups
        self._pos = 0

    def _on_tag(self, pl, label):
        i = 2 * label[1] + (1 if label[0] == "c" else 0)
        return pl[:i] + (self._pos,) + pl[i + 1:]

    def start(self):
        self._pos = 0
        init = (-1,) * (2 * (self.ngroups + 1))
        return closure(self.nfa, [(self.nfa.start, 0, init)], True, self._on_tag)

    def feed(self, threads, i: int, a: int):
        seeds = _step_seeds(self.nfa, self.masks, threads, a, a == self.part.nl)
        STATS["configurations"] += 1
        if not seeds:
            return []
        self._pos = i + 1
        return closure(self.nfa, seeds, False, self._on_tag)

    def result(self, threads) -> Optional[Tuple[int, ...]]:
        win = _winner(self.nfa, threads)
        return None if win is None else win[2]


def simulate_atoms(nfa: PNFA, part: Partition, atoms: Sequence[int], ngroups: int
                   ) -> Optional[Tuple[int, ...]]:
    """Capture registers ``(s0, e0, s1, e1, ...)`` (``-1`` = unset) of the winning
    parse of the atom string, or ``None`` if there is no match."""
    st = Stepper(nfa, part, ngroups)
    threads = st.start()
    for i, a in enumerate(atoms):
        threads = st.feed(threads, i, a)
        if not threads:
            return None
    return st.result(threads)


# --------------------------------------------------------------------------- spec side

class SpecAuto:
    """The specification as an NFA over ``(marker set, atom)``.

    A state is ``(resting state, flag, pending)``, ``pending`` = frozenset of
    mapped tags fired since the last character.  It can read the symbol
    ``(M, a)`` iff ``pending == M`` and its character edge admits ``a``; it
    accepts on ``(M, END)`` iff it is final, its flag is admissible and
    ``pending == M``."""

    def __init__(self, nfa: PNFA, part: Partition, tagmap: Dict[tuple, tuple]):
        self.nfa = nfa
        self.part = part
        self.masks = masks_for(nfa, part)
        self.tagmap = tagmap
        self._step: Dict[tuple, tuple] = {}

    def _on_tag(self, pl, label):
        t = self.tagmap.get(label)
        return pl if t is None else pl | {t}

    def initial(self) -> Tuple[tuple, ...]:
        return tuple(closure(self.nfa, [(self.nfa.start, 0, EMPTY)], True, self._on_tag, True))

    def step(self, state: tuple, a: int) -> Tuple[tuple, ...]:
        key = (state, a)
        r = self._step.get(key)
        if r is None:
            q, f, _ = state
            m = self.masks[q]
            r = ()
            if m is not None and m[a]:
                nf = step_flag(f, a == self.part.nl)
                if nf is not None:
                    r = tuple(closure(self.nfa, [(self.nfa.chr[q][1], nf, EMPTY)], False,
                                      self._on_tag, True))
            self._step[key] = r
        return r

    def is_final(self, state: tuple) -> bool:
        return state[0] == self.nfa.final and accepting_flag(state[1])


def ambiguity_search(spec: SpecAuto) -> Optional[List[int]]:
    """Shortest atom string having two accepting runs of ``spec`` whose marker
    sequences differ, or ``None``.  (Self-product with a "differs" bit.)"""
    n = spec.part.n
    start = []
    for x in spec.initial():
        for y in spec.initial():
            start.append((x, y, x[2] != y[2]))
    parent: Dict[tuple, Optional[Tuple[tuple, int]]] = {s: None for s in start}
    queue = deque(start)
    hit = None
    while queue:
        cur = queue.popleft()
        x, y, d = cur
        if d and spec.is_final(x) and spec.is_final(y):
            hit = cur
            break
        for a in range(n):
            xs = spec.step(x, a)
            if not xs:
                continue
            ys = spec.step(y, a)
            for x2 in xs:
                for y2 in ys:
                    nxt = (x2, y2, d or x2[2] != y2[2])
                    if nxt not in parent:
                        parent[nxt] = (cur, a)
                        queue.append(nxt)
    STATS["product_states"] += len(parent)
    if hit is None:
        return None
    path = []
    cur = hit
    while parent[cur] is not None:
        cur, a = parent[cur]
        path.append(a)
    path.reverse()
    return path


# --------------------------------------------------------------------------- capture exactness

def capture_exact_search(impl: PNFA, impl_tagmap: Dict[tuple, tuple], spec: SpecAuto
                         ) -> Optional[Tuple[List[int], List[FrozenSet]]]:
    """``None`` if for every string of the spec language the winning parse of
    ``impl`` exists and fires the mapped tags exactly at the spec's markers;
    otherwise ``(atoms, markers)`` of a shortest violating string, where
    ``markers[i]`` is the spec's marker set in the gap before ``atoms[i]`` and
    ``markers[-1]`` the one at the end."""
    part = spec.part
    masks = masks_for(impl, part)
    n = part.n
    nl = part.nl
    BAD = (False, EMPTY)

    def on_tag(pl, label):
        if not pl[0]:
            return pl
        t = impl_tagmap.get(label)
        return pl if t is None else (True, pl[1] | {t})

    conf0 = tuple(closure(impl, [(impl.start, 0, (True, EMPTY))], True, on_tag))
    ds0 = frozenset(spec.initial())
    start = (conf0, ds0)
    parent: Dict[tuple, Optional[Tuple[tuple, FrozenSet, int]]] = {start: None}
    queue = deque([start])
    fail = None
    while queue and fail is None:
        cur = queue.popleft()
        conf, ds = cur
        by_marker: Dict[FrozenSet, list] = {}
        for st in ds:
            by_marker.setdefault(st[2], []).append(st)
        # deterministic iteration order (frozensets of tuples of str/int sort fine as sorted tuples)
        for M in sorted(by_marker, key=lambda m: sorted(m)):
            members = by_marker[M]
            # ---- end of input with marker set M
            if any(spec.is_final(st) for st in members):
                win = _winner(impl, conf)
                if win is None or not (win[2][0] and win[2][1] == M):
                    fail = (cur, M)
                    break
            # ---- one more character
            remap = (lambda pl, M=M: (True, EMPTY) if (pl[0] and pl[1] == M) else BAD)
            for a in range(n):
                nds = set()
                for st in members:
                    nds.update(spec.step(st, a))
                if not nds:
                    continue
                seeds = _step_seeds(impl, masks, conf, a, a == nl, remap)
                nconf = tuple(closure(impl, seeds, False, on_tag)) if seeds else ()
                nxt = (nconf, frozenset(nds))
                if nxt not in parent:
                    parent[nxt] = (cur, M, a)
                    queue.append(nxt)
    STATS["configurations"] += len(parent)
    if fail is None:
        return None
    cur, last = fail
    atoms: List[int] = []
    markers: List[FrozenSet] = [last]
    while parent[cur] is not None:
        cur, M, a = parent[cur]
        atoms.append(a)
        markers.append(M)
    atoms.reverse()
    markers.reverse()
    return atoms, markers


# --------------------------------------------------------------------------- group contents

PRE, DONE_OK, DONE_BAD = -1, -2, -3


def group_contents_search(impl: PNFA, part: Partition, group: int, content: DFA
                          ) -> Optional[List[int]]:
    """Shortest atom string accepted by ``impl`` whose winning parse captures,
    for ``group``, a substring rejected by the DFA ``content``; ``None`` if there
    is none.  Strings whose winning parse leaves the group unset are skipped."""
    masks = masks_for(impl, part)
    n = part.n
    nl = part.nl
    o_tag, c_tag = ("o", group), ("c", group)
    ctrans, cacc, cstart = content.trans, content.accept, content.start

    def on_tag(pl, label):
        if label == o_tag:
            return cstart                      # (re-)opened: last iteration wins
        if label == c_tag:
            assert pl >= 0, "close without open"
            return DONE_OK if cacc[pl] else DONE_BAD
        return pl

    conf0 = tuple(closure(impl, [(impl.start, 0, PRE)], True, on_tag))
    parent: Dict[tuple, Optional[Tuple[tuple, int]]] = {conf0: None}
    queue = deque([conf0])
    hit = None
    while queue:
        conf = queue.popleft()
        win = _winner(impl, conf)
        if win is not None:
            assert win[2] < 0, "group still open at the end of a match"
            if win[2] == DONE_BAD:
                hit = conf
                break
        for a in range(n):
            remap = (lambda pl, a=a: ctrans[pl][a] if pl >= 0 else pl)
            seeds = _step_seeds(impl, masks, conf, a, a == nl, remap)
            if not seeds:
                continue
            nconf = tuple(closure(impl, seeds, False, on_tag))
            if nconf not in parent:
                parent[nconf] = (conf, a)
                queue.append(nconf)
    STATS["configurations"] += len(parent)
    if hit is None:
        return None
    path = []
    cur = hit
    while parent[cur] is not None:
        cur, a = parent[cur]
        path.append(a)
    path.reverse()
    return path
