"""Priority-free language operations over atoms.

``determinise`` is the subset construction of a ``PNFA`` (order and tags are
ignored, hypothesis flags of ``pnfa`` are part of the NFA state) into a complete
``DFA`` over the atoms of one ``Partition``.  ``DFA.complement``, ``DFA.product``,
``DFA.shortest`` are the textbook operations; ``bool_product_witness`` is the
generalised on-the-fly product used by ``Lang``: it walks tuples of component
DFA states breadth-first and evaluates an arbitrary boolean acceptance
expression, returning a *shortest* accepted atom string (or ``None``).
"""
from __future__ import annotations

from collections import deque
from typing import Callable, Dict, List, Optional, Sequence, Tuple

from .alphabet import Partition
from .pnfa import PNFA, STATS, accepting_flag, closure, step_flag


class DFA:
    """Complete DFA: ``trans[s][a]`` for every state ``s`` and atom ``a``."""

    def __init__(self, n_atoms: int, trans: List[List[int]], accept: List[bool], start: int = 0):
        self.n_atoms = n_atoms
        self.trans = trans
        self.accept = accept
        self.start = start

    @property
    def nstates(self) -> int:
        return len(self.trans)

    def complement(self) -> "DFA":
        return DFA(self.n_atoms, self.trans, [not x for x in self.accept], self.start)

    def product(self, other: "DFA", op: Callable[[bool, bool], bool]) -> "DFA":
        """Reachable product with acceptance ``op(acc_self, acc_other)``."""
        assert self.n_atoms == other.n_atoms
        index: Dict[Tuple[int, int], int] = {(self.start, other.start): 0}
        order = [(self.start, other.start)]
        trans: List[List[int]] = []
        i = 0
        while i < len(order):
            s, t = order[i]
            row = []
            for a in range(self.n_atoms):
                nxt = (self.trans[s][a], other.trans[t][a])
                j = index.get(nxt)
                if j is None:
                    j = len(order)
                    index[nxt] = j
                    order.append(nxt)
                row.append(j)
            trans.append(row)
            i += 1
        STATS["product_states"] += len(order)
        return DFA(self.n_atoms, trans, [op(self.accept[s], other.accept[t]) for s, t in order])

    def shortest(self) -> Optional[List[int]]:
        """A shortest accepted atom string, or ``None`` if the language is empty."""
        return bool_product_witness([self], lambda acc: acc[0])

    def is_empty(self) -> bool:
        return self.shortest() is None

    def accepts(self, atoms: Sequence[int]) -> bool:
        s = self.start
        for a in atoms:
            s = self.trans[s][a]
        return self.accept[s]


def determinise(nfa: PNFA, part: Partition) -> DFA:
    """Subset construction over the atoms of ``part``.  A subset is a frozenset
    of ``(resting state, flag)``; it accepts iff it holds the final state with a
    flag that is allowed at the end of the input."""
    masks = [None if c is None else part.mask(c[0]) for c in nfa.chr]
    nl = part.nl
    final = nfa.final

    def close(seeds, at_start):
        return frozenset((q, f) for q, f, _ in closure(nfa, seeds, at_start))

    start = close([(nfa.start, 0, None)], True)
    index = {start: 0}
    order = [start]
    trans: List[List[int]] = []
    i = 0
    while i < len(order):
        cur = order[i]
        row = []
        for a in range(part.n):
            seeds = []
            for q, f in cur:
                m = masks[q]
                if m is None or not m[a]:
                    continue
                nf = step_flag(f, a == nl)
                if nf is None:
                    continue
                seeds.append((nfa.chr[q][1], nf, None))
            nxt = close(seeds, False) if seeds else frozenset()
            j = index.get(nxt)
            if j is None:
                j = len(order)
                index[nxt] = j
                order.append(nxt)
            row.append(j)
        trans.append(row)
        i += 1
    accept = [any(q == final and accepting_flag(f) for q, f in s) for s in order]
    STATS["dfa_states"] += len(order)
    return DFA(part.n, trans, accept)


def bool_product_witness(dfas: Sequence[DFA], acc: Callable[[Tuple[bool, ...]], bool]
                         ) -> Optional[List[int]]:
    """Breadth-first search of the synchronous product of ``dfas``; returns a
    shortest atom string ``w`` with ``acc((w in L(d) for d in dfas))`` true."""
    n_atoms = dfas[0].n_atoms
    start = tuple(d.start for d in dfas)
    parent: Dict[tuple, Optional[Tuple[tuple, int]]] = {start: None}
    queue = deque([start])
    hit = None
    while queue:
        cur = queue.popleft()
        if acc(tuple(d.accept[s] for d, s in zip(dfas, cur))):
            hit = cur
            break
        for a in range(n_atoms):
            nxt = tuple(d.trans[s][a] for d, s in zip(dfas, cur))
            if nxt not in parent:
                parent[nxt] = (cur, a)
                queue.append(nxt)
    STATS["product_states"] += len(parent)
    if hit is None:
        return None
    path = []
    cur = hit
    while parent[cur] is not None:
        cur, a = parent[cur]
        path.append(a)
    path.reverse()
    return path
