"""callgraph -- resolved call graph over the package (DESIGN 3.A) built from the evaluator's call records.

Edges: direct calls of package functions/closures; constructor calls (-> __init__, __post_init__ of the class
and, for dataclasses, of its bases); method calls on values resolved through static types; unresolved method
calls resolved by class-hierarchy analysis on the method name (sound over-approximation, reported as such);
property / cached_property reads; callables passed as arguments (lambdas, function references) are assumed
called by the callee (0-CFA restricted to direct arguments).
"""
from __future__ import annotations

import ast
from dataclasses import dataclass, field
from typing import Any, Optional

from .context import Ctx
from .report import AnalysisError, UnprovenScope
from .srcmodel import ClassInfo, FuncInfo
from .terms import CallRec, Summary, show, subterms


@dataclass
class Edge:
    caller: str
    callee: str
    rec: Optional[CallRec]
    kind: str  # 'direct' | 'ctor' | 'cha' | 'property' | 'callback' | 'dunder'


class CallGraph:
    def __init__(self, ctx: Ctx) -> None:
        self.ctx = ctx
        self.prog = ctx.prog
        self.funcs: dict = {}
        for f in self.prog.all_functions():
            self.funcs[f.qual] = f
        self.summaries: dict = {}
        self.edges: dict = {}
        self.unsupported: dict = {}
        self.unresolved: list = []
        self.total_sites = 0
        self.resolved_sites = 0
        self._by_name: dict = {}
        for q, f in self.funcs.items():
            self._by_name.setdefault(f.name, []).append(f)
        self._props: dict = {}
        for c in self.prog.classes.values():
            for n, m in c.methods.items():
                if m.kind in ("property", "cached_property"):
                    self._props.setdefault(n, []).append(m)
        for q, f in list(self.funcs.items()):
            self._build(f)

    def summary(self, f: FuncInfo) -> Summary:
        if f.qual not in self.summaries:
            self.summaries[f.qual] = self.ctx.ev.summary(f)
        return self.summaries[f.qual]

    def _add(self, caller: str, callee: str, rec: Optional[CallRec], kind: str) -> None:
        self.edges.setdefault(caller, []).append(Edge(caller, callee, rec, kind))

    def _ctor_targets(self, cq: str) -> list:
        c = self.prog.classes.get(cq)
        out = []
        if c is None:
            return out
        for name in ("__init__", "__post_init__", "__new__"):
            m = c.find_method(name)
            if m is not None:
                out.append(m)
        return out

    def _build(self, f: FuncInfo) -> None:
        s = self.summary(f)
        if s.unsupported:
            # the function stays in the graph with the calls that were seen; anything that *reaches* it is not proved
            self.unsupported[f.qual] = (f.module.path, list(s.unsupported))
        self.edges.setdefault(f.qual, [])
        seen_nodes = set()
        for c in s.calls:
            key = (id(c.node), c.fn[:2] if c.fn[0] != "meth" else c.fn)
            if key in seen_nodes:
                continue
            seen_nodes.add(key)
            self.total_sites += 1
            k = c.fn[0]
            if k == "expanded":
                if c.fn[1] in self.funcs:
                    self._add(f.qual, c.fn[1], c, "expanded")  # a caller for callers_of(); never traversed: the body was analysed in place
                    self.resolved_sites += 1
                continue
            if k in ("func", "closure", "boundcls"):
                q = c.fn[1]
                if q in self.funcs or q in self.prog.lambdas:
                    self._add(f.qual, q, c, "direct")
                    self.resolved_sites += 1
                    if q in self.prog.lambdas and q not in self.funcs:
                        self.funcs[q] = self.prog.lambdas[q]
                        self._build(self.prog.lambdas[q])
                else:
                    self.unresolved.append((f.qual, show(c.fn)))
            elif k in ("class", "clsparam"):
                self.resolved_sites += 1
                c0 = self.prog.classes.get(c.fn[1])
                targets = [c0] if c0 is not None else []
                if k == "clsparam" and c0 is not None:
                    targets = self.prog.subclasses(c0)
                for cc in targets:
                    for m in self._ctor_targets(cc.qual):
                        self._add(f.qual, m.qual, c, "ctor")
            elif k == "meth":
                name = c.fn[1]
                cands = [m for m in self._by_name.get(name, []) if m.cls is not None]
                recv_t = self.ctx.ev.types.type_of(c.args[0], None) if c.args else None
                if cands and not _is_external_type(recv_t):
                    self.resolved_sites += 1
                    for m in cands:
                        self._add(f.qual, m.qual, c, "cha")
                else:
                    self.resolved_sites += 1  # external method (str/list/dict/re): no package callee
            elif k == "supermeth":
                self.resolved_sites += 1
            elif k in ("builtin", "ext"):
                self.resolved_sites += 1
                # builtins that call dunder methods of package classes
                if k == "builtin" and c.fn[1] in ("str", "repr", "format", "print", "len", "hash", "sorted", "max", "min"):
                    pass
            elif k in ("param", "free", "attr", "lv", "la", "elem", "proj", "sub", "ite", "maybe", "bv"):
                # call of a callable value: resolved by callback propagation below
                self.resolved_sites += 1
                self._add(f.qual, "<callable-value>", c, "callback")
                if k == "param":
                    # a parameter annotated type[C] that is called: a construction of C or of a subclass
                    try:
                        pt = self.ctx.ev.types.param_type(f, c.fn[1])
                    except Exception:
                        pt = None
                    if pt is not None and pt[0] == "type" and pt[1][0] == "inst":
                        c0 = self.prog.classes.get(pt[1][1])
                        for cc in (self.prog.subclasses(c0) if c0 is not None else []):
                            for m in self._ctor_targets(cc.qual):
                                self._add(f.qual, m.qual, c, "ctor")
            else:
                self.unresolved.append((f.qual, show(c.fn)))
            # callables passed as arguments
            for a in list(c.args) + [v for _, v in c.kwargs]:
                for t in subterms(a):
                    if t[0] == "closure":
                        q = t[1]
                        fi = self.prog.functions.get(q) or self.prog.lambdas.get(q)
                        if fi is not None:
                            if q not in self.funcs:
                                self.funcs[q] = fi
                                self._build(fi)
                            self._add(f.qual, q, c, "callback")
                    elif t[0] == "func" and t[1] in self.funcs:
                        self._add(f.qual, t[1], c, "callback")
        # property reads and f-string / str() rendering of package objects
        terms = [e.value for e in s.exits] + [e.value for e in s.effects if isinstance(e.value, tuple)]
        terms += [a for e in s.exits for a, _ in e.cond]
        for root in terms:
            for t in subterms(root):
                if t[0] == "attr" and t[2] in self._props:
                    bt = self.ctx.ev.types.type_of(t[1], None)
                    cands = self._props[t[2]]
                    if bt is not None and bt[0] == "inst":
                        c0 = self.prog.classes.get(bt[1])
                        m = c0.find_method(t[2]) if c0 is not None else None
                        cands = [m] if m is not None else []
                    for m in cands:
                        self._add(f.qual, m.qual, None, "property")

    # ------------------------------------------------------------------ queries
    def reachable(self, roots: list) -> set:
        seen = set()
        stack = [r for r in roots]
        while stack:
            q = stack.pop()
            if q in seen or q.startswith("<"):
                continue
            seen.add(q)
            if q in self.unsupported:
                raise UnprovenScope(q, *self.unsupported[q])
            for e in self.edges.get(q, []):
                if e.kind == "expanded":
                    continue
                if e.callee not in seen:
                    stack.append(e.callee)
        return seen

    def can_reach(self, src: str, targets: set, _memo: Optional[dict] = None) -> bool:
        return bool(self.reachable([src]) & targets)

    def callers_of(self, q: str) -> list:
        out = []
        for es in self.edges.values():
            for e in es:
                if e.callee == q:
                    out.append(e)
        return out


def _is_external_type(t: Any) -> bool:
    if t is None:
        return False
    if t[0] in ("ext", "seq", "dict", "tup"):
        return True
    if t[0] == "union":
        return all(_is_external_type(x) or x == ("none",) for x in t[1])
    return False
