"""lib -- shared helpers for the rule modules: discovery from public anchors, exception classes,
integer-comparison normal form, closed-world exit checks."""
from __future__ import annotations

import ast
from typing import Any, Callable, Optional

from ..context import Ctx
from ..match import ANYP, H, affine, decision_table, eval_bool, find_all, is_atom, match, resolve_ite, strip
from ..report import AnalysisError, Report, Rule
from ..srcmodel import ClassInfo, FuncInfo
from ..terms import CallRec, Effect, Exit, Summary, Term, literal, mk_not, show, subterms

PKG = "chartparse"

BUILTIN_EXC_BASES = {
    "builtins.ValueError": ["builtins.Exception"],
    "builtins.KeyError": ["builtins.LookupError", "builtins.Exception"],
    "builtins.IndexError": ["builtins.LookupError", "builtins.Exception"],
    "builtins.LookupError": ["builtins.Exception"],
    "builtins.TypeError": ["builtins.Exception"],
    "builtins.AttributeError": ["builtins.Exception"],
    "builtins.AssertionError": ["builtins.Exception"],
    "builtins.RuntimeError": ["builtins.Exception"],
    "builtins.NotImplementedError": ["builtins.RuntimeError", "builtins.Exception"],
    "builtins.StopIteration": ["builtins.Exception"],
    "builtins.ZeroDivisionError": ["builtins.ArithmeticError", "builtins.Exception"],
    "builtins.OverflowError": ["builtins.ArithmeticError", "builtins.Exception"],
    "builtins.ArithmeticError": ["builtins.Exception"],
    "builtins.UnicodeDecodeError": ["builtins.UnicodeError", "builtins.ValueError", "builtins.Exception"],
    "builtins.UnicodeError": ["builtins.ValueError", "builtins.Exception"],
    "builtins.OSError": ["builtins.Exception"],
    "builtins.Exception": ["builtins.BaseException"],
    "builtins.BaseException": [],
}


def exc_name(t: Term) -> str:
    """Class name of a raised value term."""
    if t[0] == "reraise":
        return "reraise"
    if t[0] == "call":
        t = t[1]
    if t[0] == "builtin":
        return f"builtins.{t[1]}"
    if t[0] == "class":
        return t[1]
    if t[0] == "ext":
        return t[1]
    if t[0] in ("param", "free"):
        return f"param:{t[1]}"
    return "?" + show(t)[:60]


def exc_bases(ctx: Ctx, name: str) -> list:
    """All base names (inclusive) of an exception class name."""
    out = [name]
    if name in ctx.prog.classes:
        c = ctx.prog.classes[name]
        for b in c.mro[1:]:
            out.append(b.qual if isinstance(b, ClassInfo) else b)
        for b in list(out):
            for bb in BUILTIN_EXC_BASES.get(b, []):
                if bb not in out:
                    out.append(bb)
    else:
        stack = [name]
        while stack:
            n = stack.pop()
            for b in BUILTIN_EXC_BASES.get(n, []):
                if b not in out:
                    out.append(b)
                    stack.append(b)
    return out


def exc_is(ctx: Ctx, name: str, base: str) -> bool:
    return base in exc_bases(ctx, name)


# --------------------------------------------------------------------------------------------------
# integer / order comparisons in a normal form


def icmp(t: Term):
    """Normal form of an order comparison:  (A, B, c, strictness-free)  meaning  A - B <= c  over integers,
    returned as ('le', A, B, c).  `a < b` is a - b <= -1.  For non-integers use fcmp()."""
    if t[0] == "not":
        r = icmp(t[1])
        if r is None:
            return None
        _, A, B, c = r
        return ("le", B, A, -c - 1)
    if t[0] == "cmp" and t[1] in ("<", "<="):
        A, ca = affine(t[2])
        B, cb = affine(t[3])
        c = cb - ca - (1 if t[1] == "<" else 0)
        return ("le", strip(A) if A is not None else None, strip(B) if B is not None else None, c)
    return None


def icmp_atom(A: Any, B: Any, c: int) -> Callable[[Term], Optional[bool]]:
    """Matcher for the integer atom  A - B <= c  (A/B are patterns or None for 'constant side')."""

    def m(t: Term) -> Optional[bool]:
        r = icmp(t)
        if r is None:
            return None
        _, a, b, cc = r
        if _pm(A, a) and _pm(B, b) and cc == c:
            return True
        # negation:  B - A <= -c-1
        if _pm(B, a) and _pm(A, b) and cc == -c - 1:
            return False
        return None

    return m


def _pm(p: Any, t: Any) -> bool:
    if p is None or t is None:
        return p is None and t is None
    return match(p, t) is not None


def fcmp_atom(op: str, A: Any, B: Any) -> Callable[[Term], Optional[bool]]:
    """Matcher for an order atom over a total order without integer reasoning:  A op B  with op in {'<','<='}.
    `not (B <= A)` is accepted for `A < B` and `not (B < A)` for `A <= B`."""
    other = "<=" if op == "<" else "<"

    def m(t: Term) -> Optional[bool]:
        if t[0] == "cmp" and t[1] == op and match(A, t[2]) is not None and match(B, t[3]) is not None:
            return True
        if t[0] == "cmp" and t[1] == other and match(B, t[2]) is not None and match(A, t[3]) is not None:
            return False
        if t[0] == "not":
            r = m(t[1])
            return None if r is None else (not r)
        return None

    return m


def truthy_atom(P: Any) -> Callable[[Term], Optional[bool]]:
    """`xs` used as a condition (non-emptiness); also len(xs) > 0 / len(xs) == 0 / not xs."""

    def m(t: Term) -> Optional[bool]:
        if match(P, t) is not None:
            return True
        if t[0] == "not":
            r = m(t[1])
            return None if r is None else (not r)
        L = ("call", ("builtin", "len"), (P,), ())
        if t[0] == "cmp":
            if t[1] == "<" and t[2] == ("const", 0) and match(L, t[3]) is not None:
                return True
            if t[1] == "<=" and t[2] == ("const", 1) and match(L, t[3]) is not None:
                return True
            if t[1] == "==" and ((t[2] == ("const", 0) and match(L, t[3]) is not None) or
                                 (t[3] == ("const", 0) and match(L, t[2]) is not None)):
                return False
            if t[1] == "<=" and t[3] == ("const", 0) and match(L, t[2]) is not None:
                return False
            if t[1] == "<" and t[3] == ("const", 1) and match(L, t[2]) is not None:
                return False
        return None

    return m


def is_none_atom(P: Any) -> Callable[[Term], Optional[bool]]:
    """`x is None`;  a bare `x` / `not x` used as an Optional test counts as `x is not None` / `x is None`
    only when requested through truthy=True in opt_atom()."""

    def m(t: Term) -> Optional[bool]:
        if t[0] == "cmp" and t[1] in ("is", "==") and ((t[2] == ("const", None) and match(P, t[3]) is not None) or
                                                       (t[3] == ("const", None) and match(P, t[2]) is not None)):
            return True
        if t[0] == "not":
            r = m(t[1])
            return None if r is None else (not r)
        return None

    return m


def opt_atom(P: Any) -> Callable[[Term], Optional[bool]]:
    """`x is None` where x is an Optional[object] whose truthiness equals non-None-ness (events define no
    __bool__/__len__): also accepts bare `x` (False) and `not x` (True)."""
    base = is_none_atom(P)

    def m(t: Term) -> Optional[bool]:
        r = base(t)
        if r is not None:
            return r
        if match(P, t) is not None:
            return False
        if t[0] == "not" and match(P, t[1]) is not None:
            return True
        return None

    return m


# --------------------------------------------------------------------------------------------------
def kwargs_of(t: Term) -> dict:
    if t[0] != "call":
        return {}
    return dict(t[3])


def call_of(qual: str, **kw: Any) -> tuple:
    return ("call", ("func", qual), (), tuple(sorted(kw.items())))


def calls_to(s: Summary, qual: str) -> list:
    return [c for c in s.calls if c.fn[0] in ("func", "closure", "boundcls") and c.fn[1] == qual]


def callees(s: Summary) -> list:
    return [c.fn[1] for c in s.calls if c.fn[0] in ("func", "closure", "boundcls")]


def floor(rule: Rule, n: int) -> None:
    rule.floor = n


def loc(ctx: Ctx, f: Any, node: Optional[ast.AST] = None) -> dict:
    return ctx.where(f, node)


def fail(rule: Rule, ctx: Ctx, f: Any, node: Optional[ast.AST], msg: str, witness: Any = None) -> None:
    w = ctx.where(f, node)
    rule.fail(getattr(f, "qual", str(f)), msg, file=w["file"], line=w["line"], stmt=ctx.stmt_text(f, node) if node is not None else "",
              witness=witness)


def cond_str(cond: tuple) -> str:
    return " and ".join((show(a) if p else f"not {show(a)}") for a, p in cond) or "always"


def live_exits(s: Summary) -> list:
    return [e for e in s.exits if e.kind in ("ret", "raise")]


def expect_closed(rule: Rule, ctx: Ctx, f: FuncInfo, s: Summary, *, effects_ok: Callable[[Effect], bool] = lambda e: False,
                  what: str = "") -> bool:
    """No effect other than the allowed ones."""
    ok = True
    for e in s.effects:
        if not effects_ok(e):
            fail(rule, ctx, f, e.node, f"unexpected side effect in {what or f.name}: {e.kind} on {show(e.target)[:80]} "
                                       f"({e.key if isinstance(e.key, str) else show(e.key)[:60]}) -- the specification of "
                                       f"this function has no such effect")
            ok = False
    return ok


def unknown_atoms(rule: Rule, ctx: Ctx, f: FuncInfo, s: Summary, unknown: list, spec_desc: str) -> None:
    for u in unknown:
        node = None
        for e in s.exits:
            for a, p in e.cond:
                if u in list(subterms(a)) or a == u:
                    node = e.node
                    break
            if node is not None:
                break
        fail(rule, ctx, f, node or f.node,
             f"the outcome depends on the condition `{show(u)[:160]}`, which is not one of the conditions the "
             f"specification allows here ({spec_desc}); a different comparison/operand changes the accepted set")


def check_param_defaults(ctx: Ctx, r: Rule, qual: str, want: dict) -> None:
    """Default values of public parameters (part of the documented behaviour: 'omitted' must mean what the statement says)."""
    f = ctx.func(qual)
    a = f.node.args
    pos = a.posonlyargs + a.args
    defaults = {}
    for p_, d in zip(pos[len(pos) - len(a.defaults):], a.defaults):
        defaults[p_.arg] = d
    for p_, d in zip(a.kwonlyargs, a.kw_defaults):
        if d is not None:
            defaults[p_.arg] = d
    for name, val in want.items():
        r.inst(f"{qual}: default {name}={val!r}")
        d = defaults.get(name)
        got = d.value if isinstance(d, ast.Constant) else (ast.unparse(d) if d is not None else "<required>")
        if not (isinstance(d, ast.Constant) and d.value == val and type(d.value) is type(val)):
            fail(r, ctx, f, d or f.node, f"parameter `{name}` of {qual} must default to {val!r}; found {got!r}")
