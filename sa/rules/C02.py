"""C02 -- one note event per tick; lanes are exactly the lanes written."""
from .notes import Notes
from .dispatch import check_dispatcher, check_track_sections

LEVEL = "other"


def run(ctx, rep):
    rep.explanation = (
        "The grouping loop is matched against the verified group-adjacent schema S1 with exact affine index arithmetic "
        "(init 0, inner bound i+1 < n first, neighbour i+1, slice [left, j+1), restart j+1): with the skeleton fixed these are the "
        "only offsets for which every index is covered exactly once and runs are maximal.  The lane computation must store "
        "lanes[d.note_track_index.value] = 1 for every datum, skipping only indices >= 5 per datum; the Note and "
        "NoteTrackIndex tables are folded from source and compared bit by bit with the file format.  The dispatcher keeps "
        "note data in file order whatever S/E lines are interleaved (schema S3).")
    N = Notes(ctx)
    r1 = rep.rule("S1", "note builder is the group-adjacent schema with offsets (0, +1, +1, +1, +1)", floor=1)
    N.check_grouping(r1)
    r2 = rep.rule("lane-store", "lanes[d.index.value] = 1 for each datum; only IndexError of that store skipped, per datum", floor=1)
    N.check_lane_store(r2)
    r3 = rep.rule("note-table", "32 primary Note values = {0,1}^5, names = set bits in GRYBO order, aliases agree", floor=32)
    N.check_note_table(r3)
    r4 = rep.rule("index-table", "NoteTrackIndex = G0 R1 Y2 B3 O4 FORCED5 TAP6 OPEN7", floor=7)
    N.check_index_table(r4)
    r5 = rep.rule("tick+note", "event tick is the group's tick and its note is computed from the whole group", floor=1)
    N.check_time_wiring(r5)
    N.check_note_wiring(r5)
    r6 = rep.rule("S3", "dispatcher appends each line's datum to its own kind's list in file order (first match wins)", floor=1)
    check_dispatcher(ctx, r6)
    r8 = rep.rule("recogniser", "every canonical note line (any digit count, blank padding) is accepted and decoded by the N "
                                "recogniser: none is dropped as unparsable", floor=4)
    from .decode import check_from_chart_line
    from .lang import check_line_recogniser
    NQ = "chartparse.instrument.NoteEvent.ParsedData"
    info = check_from_chart_line(ctx, r8, NQ)
    if info is not None:
        check_line_recogniser(ctx, NQ, info, r8, r8, r8, only={"canon", "capture", "groups", "upper"})
    r7 = rep.rule("sections", "the track reads note data from the note kind's list of its own lines", floor=1)
    check_track_sections(ctx, r7, which="instrument")
    rch = rep.rule("chain", "file -> lines (read().splitlines(), utf-8-sig) -> framing -> section route -> dispatcher -> builders: every link "
                            "hands the lines on unchanged", floor=10)
    from .chain import check_chain
    check_chain(ctx, rch, "instrument", strict=True)
