"""partial -- partial operations (operations that can raise an *internal* exception) and their discharge by a closed
list of guard idioms (DESIGN C18 / appendix A.5).  An obligation that no idiom discharges is a finding: an unguarded
partial operation on the parse or rendering path is precisely how IndexError / KeyError / TypeError / AttributeError /
ZeroDivisionError leak."""
from __future__ import annotations

import ast
from dataclasses import dataclass
from typing import Any, Optional

from ..constfold import NotConstant
from ..context import Ctx
from ..match import H, affine, match, strip
from ..report import Rule
from ..terms import Summary, Term, literal, show, subterms
from .lib import exc_name, fail, icmp, truthy_atom

SEQ_CLASSES = {("ext", "collections.abc.Sequence"), ("builtin", "list"), ("builtin", "tuple"), ("builtin", "str")}


LOG_METHODS = ("debug", "info", "warning", "warn", "error", "critical", "exception", "log")


@dataclass
class Obligation:
    kind: str  # SUB | NEXT | NONEMPTY | DIV | ORDER | NOTNONE | FORMAT
    term: Term
    facts: tuple
    func: Any
    summary: Summary
    node: Optional[ast.AST]
    detail: str = ""


def flatten_facts(facts: tuple) -> list:
    out = []
    stack = list(facts)
    while stack:
        a, p = stack.pop()
        if a[0] == "not":
            stack.append((a[1], not p))
            continue
        if a[0] == "and" and p:
            for x in a[1]:
                stack.append((x, True))
            continue
        if a[0] == "or" and not p:
            for x in a[1]:
                stack.append((x, False))
            continue
        out.append((a, p))
    return out


# --------------------------------------------------------------------------------------------------
# regex groups: `m.group(k)` / `m.groups()[k-1]` is None on a successful match iff group k can stay unset

MATCH_METHODS = ("match", "fullmatch", "search")


_CTX = [None]  # the analysis context, for looking through helpers that return `m.groups()` (set by Collector / Discharger)


def _through_helper(t: Any) -> Any:
    """`_matched_groups(cls, line)[k]` where the private helper is `m = R.match(line); if not m: raise ...; return m.groups()`:
    the call is replaced by the helper's single return value with its parameters bound to the call's arguments, so that a
    capture-group read behind a helper boundary is still seen as one."""
    ctx = _CTX[0]
    if ctx is None or not isinstance(t, tuple) or len(t) < 4 or t[0] != "call" or t[1][0] not in ("func", "closure", "boundcls"):
        return t
    g = ctx.prog.functions.get(t[1][1])
    if g is None or isinstance(g.node, ast.Lambda):
        return t
    params = g.params()
    bound = {}
    if len(t[2]) > len(params):
        return t
    for p_, a_ in zip(params, t[2]):
        bound[p_] = a_
    for k_, v_ in t[3]:
        bound[k_] = v_
    try:
        gs = ctx.ev.evaluate(g, bound, None, 0)
    except Exception:
        return t
    rets = [e for e in gs.exits if e.kind == "ret"]
    if len(rets) == 1 and not gs.loops and not gs.effects and not gs.unsupported:
        return rets[0].value
    # "the first match or None" (`for line in lines: m = R.match(line); if m: return m` ... `return None`): the match object, when
    # there is one, is the single non-None return value
    vals = {strip(e.value) for e in rets if e.value != ("const", None)}
    if len(vals) == 1 and not gs.effects and not gs.unsupported:
        return next(e.value for e in rets if e.value != ("const", None))
    return t


def group_ref(t: Any):
    """(regex term, group number) when t is a capture-group read of a match object, else None."""
    if not isinstance(t, tuple) or not t:
        return None
    if t[0] == "proj" and isinstance(t[1], tuple) and t[1][:1] == ("call",) and len(t[1]) >= 4 and t[1][1][0] in ("func", "closure", "boundcls"):
        t = ("proj", _through_helper(t[1]), t[2])
    elif t[:2] == ("call", ("meth", "group")) and len(t[2]) == 2 and isinstance(t[2][0], tuple) and t[2][0][:1] == ("call",) and \
            len(t[2][0]) >= 4 and t[2][0][1][0] in ("func", "closure", "boundcls"):
        t = ("call", ("meth", "group"), (_through_helper(t[2][0]), t[2][1]), t[3])
    elif t[0] == "proj" and isinstance(t[1], tuple) and t[1][:2] == ("call", ("meth", "groups")) and len(t[1][2]) == 1 and \
            isinstance(t[1][2][0], tuple) and t[1][2][0][:1] == ("call",) and len(t[1][2][0]) >= 4 and t[1][2][0][1][0] in ("func", "closure", "boundcls"):
        t = ("proj", ("call", ("meth", "groups"), (_through_helper(t[1][2][0]),), t[1][3]), t[2])
    m = k = None
    if t[0] == "proj" and isinstance(t[1], tuple) and t[1][:2] == ("call", ("meth", "groups")) and len(t[1][2]) == 1 and isinstance(t[2], int):
        m, k = t[1][2][0], t[2] + 1
    elif t[:2] == ("call", ("meth", "group")) and len(t[2]) == 2 and t[2][1][0] == "const" and isinstance(t[2][1][1], (int, str)):
        m, k = t[2][0], t[2][1][1]
    if m is None or m[0] != "call" or m[1][0] != "meth" or m[1][1] not in MATCH_METHODS or not m[2]:
        return None
    return m[2][0], k


def mandatory_groups(pattern: str) -> Optional[set]:
    """Groups that are set on every successful match: not inside an alternation with several arms, a repeat that may run
    zero times, or a look-around.  None when the pattern is outside the modelled regex subset."""
    from ..rx import parse as rp
    try:
        P = rp.parse(pattern)
    except Exception:
        return None
    out: set = set()
    inv = {v: k for k, v in P.groupindex.items()}

    def go(n) -> None:
        if isinstance(n, rp.Cat):
            for x in n.items:
                go(x)
        elif isinstance(n, rp.Alt):
            if len(n.items) == 1:
                go(n.items[0])
        elif isinstance(n, rp.Repeat):
            if n.lo >= 1:
                go(n.body)
        elif isinstance(n, rp.Group):
            if n.index is not None:
                out.add(n.index)
                if n.index in inv:
                    out.add(inv[n.index])
            go(n.body)
    go(P.ast)
    return out


def instance_attr_patterns(ctx: Ctx, c0: Any, name: str) -> Optional[list]:
    """Patterns of the compiled-regex instance attribute `name` over *every* instance of c0 (or a subclass) the package creates:
    decidable when all of them are created in module-level constants (no construction inside any function body)."""
    from ..constfold import FoldedObject, Regex
    subs = {c.qual for c in ctx.prog.subclasses(c0)}
    names = {q.rsplit(".", 1)[-1] for q in subs}
    for f in ctx.prog.all_functions():
        for n in ast.walk(f.node):
            if isinstance(n, ast.Call):
                fn = n.func
                nm = fn.id if isinstance(fn, ast.Name) else fn.attr if isinstance(fn, ast.Attribute) else None
                if nm in names or nm in ("cls", "type", "__class__") and f.cls is not None and f.cls.qual in subs:
                    return None  # an instance may be created at run time: the set of instances is not a constant
    for c in ctx.prog.classes.values():
        for val, ann, ln in c.body_assigns.values():
            if val is not None and any(isinstance(n, (ast.Name, ast.Attribute)) and (getattr(n, "id", None) in names or getattr(n, "attr", None) in names)
                                       for n in ast.walk(val)):
                return None  # an instance held in a class attribute: not enumerated here
    out: list = []
    seen: set = set()

    def visit(v: Any) -> bool:
        if id(v) in seen:
            return True
        seen.add(id(v))
        if isinstance(v, FoldedObject):
            if v.cls in subs:
                try:
                    a = ctx.fold.getattr(v, name)
                except Exception:
                    return False
                if not isinstance(a, Regex):
                    return False
                out.append(a.pattern)
            return all(visit(x) for x in v.attrs.values())
        if isinstance(v, dict):
            return all(visit(x) for x in v.values())
        if isinstance(v, (list, tuple, set, frozenset)):
            return all(visit(x) for x in v)
        return True

    for m in ctx.prog.modules.values():
        for gname, (val, ann, ln) in m.assigns.items():
            if val is None or not any(isinstance(n, ast.Call) for n in ast.walk(val)):
                continue
            try:
                v = ctx.fold.fold(ctx.ev.global_value(m, gname))
            except Exception:
                # an unfoldable global that mentions one of the classes could hold an instance
                if any(isinstance(n, (ast.Name, ast.Attribute)) and (getattr(n, "id", None) in names or getattr(n, "attr", None) in names)
                       for n in ast.walk(val)):
                    return None
                continue
            if not visit(v):
                return None
    return out or None


def regex_patterns(ctx: Ctx, R: Term) -> Optional[list]:
    """All pattern strings the compiled-regex term R can denote (class constants over subclasses, every value of a constant
    table indexed by a run-time key), or None."""
    from ..constfold import FoldedObject, Regex

    def pat(v):
        if isinstance(v, Regex):
            return v.pattern
        return None

    try:
        p = pat(ctx.fold.fold(R))
        if p is not None:
            return [p]
    except Exception:
        pass
    if R[0] == "attr" and R[1][0] in ("clsparam", "class", "self") and isinstance(R[1][1], str):
        c0 = ctx.prog.classes.get(R[1][1])
        if c0 is None:
            return None
        if R[1][0] == "self" and c0.find_attr(R[2]) is None:
            return instance_attr_patterns(ctx, c0, R[2])
        out = []
        for c in ctx.prog.subclasses(c0):
            try:
                p = pat(ctx.fold.fold(("cattr", c.qual, R[2])))
            except Exception:
                p = None
            if p is None:
                try:
                    declared_only = ctx.ev.class_attr_value(c, R[2]) is None
                except Exception:
                    declared_only = False
                if declared_only:
                    continue  # an abstract base that only declares the attribute: never the run-time class of a match
                return None
            out.append(p)
        return out or None
    if R[0] == "attr" and R[1][0] == "sub":
        try:
            tab = ctx.fold.fold(R[1][1])
        except Exception:
            return None
        vals = list(tab.values()) if isinstance(tab, dict) else list(tab) if isinstance(tab, (list, tuple)) else None
        if not vals:
            return None
        out = []
        for v in vals:
            try:
                p = pat(ctx.fold.getattr(v, R[2]))
            except Exception:
                p = None
            if p is None:
                return None
            out.append(p)
        return out
    return None


class Collector:
    def __init__(self, ctx: Ctx, f, s: Summary) -> None:
        _CTX[0] = ctx
        self.ctx = ctx
        self.f = f
        self.s = s
        self.obs: list = []
        self.seen = set()

    def add(self, kind: str, term: Term, facts: tuple, node, detail: str = "") -> None:
        key = (kind, strip(term), tuple(sorted((repr(strip(a)), p) for a, p in flatten_facts(facts))))
        if key in self.seen:
            return
        self.seen.add(key)
        self.obs.append(Obligation(kind, term, facts, self.f, self.s, node, detail))

    def collect(self) -> list:
        s = self.s
        for e in s.exits:
            for k, (a, p) in enumerate(e.cond):
                self.walk(a, e.cond[:k], e.node)
            self.walk(e.value, e.cond, e.node)
        for e in s.effects:
            for k, (a, p) in enumerate(e.cond):
                self.walk(a, e.cond[:k], e.node)
            self.walk(e.target, e.cond, e.node)
            if isinstance(e.key, tuple):
                self.walk(e.key, e.cond, e.node)
            if isinstance(e.value, tuple):
                for v in (e.value if e.kind == "mutcall" else (e.value,)):
                    if isinstance(v, tuple) and v and isinstance(v[0], str):
                        self.walk(v, e.cond, e.node)
        for e in s.effects:
            if e.kind == "mutcall" and e.key in ("pop", "popitem", "remove"):
                # list.pop() of an empty list, dict.pop(k) of an absent key, list.remove(x) of an absent element
                self.add("PARTIALCALL", ("call", ("meth", e.key), (e.target,) + tuple(e.value or ()), ()), e.cond, e.node)
        for c in s.calls:
            for k, (a, p) in enumerate(c.cond):
                self.walk(a, c.cond[:k], c.node)
            for a in list(c.args) + [v for _, v in c.kwargs]:
                self.walk(a, c.cond, c.node)
            if c.fn == ("meth", "index") and len(c.args) >= 2:
                self.add("PARTIALCALL", ("call", c.fn, tuple(c.args), ()), c.cond, c.node)
            if c.fn[0] == "meth" and c.fn[1] in LOG_METHODS and len(c.args) >= (4 if c.fn[1] == "log" else 3):
                # logger.warning(msg, *args): logging evaluates `msg % args` when the record is rendered
                self.add("LOGFORMAT", ("call", c.fn, tuple(c.args), tuple(c.kwargs)), c.cond, c.node)
            if c.fn[0] in ("param", "free", "attr", "lv", "la", "ite", "const"):
                # a value that is called: `callback()` on an Optional callback is a TypeError ('NoneType' object is not callable)
                self.add("NOTNONE", c.fn, c.cond, c.node, "callee of a call")
        for l in s.loops.values():
            if l.iter is not None:
                self.walk(l.iter, l.cond, l.node)
            if l.test is not None:
                self.walk(l.test, l.cond + ((("inloop", l.id), True),), l.node)
            for n, (init, upd) in l.carried.items():
                if upd is not None:
                    # "unchanged on this path" (a carried value as a leaf of the update) is not a read
                    def drop_identity(t):
                        if isinstance(t, tuple) and t and t[0] in ("lv", "la", "unbound"):
                            return ("const", None)  # a bare carried value at a leaf is a carry ("unchanged"), not a read
                        if isinstance(t, tuple) and t and t[0] == "ite":
                            return ("ite", t[1], drop_identity(t[2]), drop_identity(t[3]))
                        if isinstance(t, tuple) and len(t) == 4 and t[0] == "maybe":
                            return drop_identity(t[3])  # "whatever it was if the try body raised before the assignment": a carry too
                        return t
                    self.walk(drop_identity(upd), l.cond + ((("inloop", l.id), True), (("endofbody", l.id), True)), l.node)
        return self.obs

    def walk(self, t: Any, facts: tuple, node) -> None:
        if not isinstance(t, tuple) or not t or not isinstance(t[0], str):
            return
        k = t[0]
        if k == "unbound":
            self.add("DEFINED", t, facts, node, f"local `{t[1]}` read on a path where it was never assigned")
            return
        if k == "unknown" and len(t) == 2 and isinstance(t[1], str) and t[1].startswith("name:"):
            self.add("DEFINED", t, facts, node, f"`{t[1][5:]}` is not a local, an enclosing-function, a module-level or a builtin name "
                                                f"(NameError when this is evaluated)")
            return
        if k in ("lv", "la") and len(t) == 3:
            l = self.s.loops.get(t[1])
            init = l.carried.get(t[2], (None, None))[0] if l is not None else None
            if init is not None and any(x[0] == "unbound" for x in subterms(init)):
                self.add("DEFINED", t, facts, node, f"local `{t[2]}` is first assigned inside the loop and read " +
                         ("at the start of an iteration" if k == "lv" else "after the loop"))
            elif k == "la" and l is not None and l.kind == "for" and t[2] not in l.carried and l.target is not None and \
                    t[2] in {n.id for n in ast.walk(l.target) if isinstance(n, ast.Name)}:
                # the loop's own target read after the loop: bound only if the loop ran (or the name is assigned elsewhere too)
                stores = [n for n in ast.walk(self.f.node) if isinstance(n, ast.Name) and n.id == t[2] and isinstance(n.ctx, ast.Store)
                          and not any(n is m for m in ast.walk(l.target))]
                params = set(self.f.params()) if hasattr(self.f, "params") else set()
                if not stores and t[2] not in params:
                    self.add("DEFINED", t, facts, node, f"loop target `{t[2]}` read after the loop: unbound if the loop never ran")
            return
        if k == "ite":
            self.walk(t[1], facts, node)
            a_, p_ = literal(t[1])
            known = {(repr(strip(x)), q) for x, q in flatten_facts(facts)}
            if (repr(strip(a_)), not p_) not in known:
                self.walk(t[2], facts + ((t[1], True),), node)
            if (repr(strip(a_)), p_) not in known:
                self.walk(t[3], facts + ((t[1], False),), node)
            return
        if k == "and":
            for i, x in enumerate(t[1]):
                self.walk(x, facts + tuple((y, True) for y in t[1][:i]), node)
            return
        if k == "or":
            for i, x in enumerate(t[1]):
                self.walk(x, facts + tuple((y, False) for y in t[1][:i]), node)
            return
        if k == "comp":
            inner = facts
            for bv, it, conds in t[3]:
                self.walk(it, inner, node)
                for i, c in enumerate(conds):
                    self.walk(c, inner + tuple((y, True) for y in conds[:i]), node)
                inner = inner + tuple((c, True) for c in conds) + ((("compvar", bv, it), True),)
            self.walk(t[2], inner, node)
            return
        if k == "proj":
            self.walk(t[1], facts, node)
            b_ = t[1]
            if b_[0] == "call" and b_[1][0] == "meth" and b_[1][1] in ("split", "rsplit", "splitlines", "findall", "partition_"):
                # `a, b = s.split(sep)`: the number of pieces depends on the text (ValueError: not enough / too many values)
                self.add("PARTIALCALL", ("call", ("meth", "unpack"), (b_,), ()), facts, node)
            return
        if k == "sub":
            self.walk(t[1], facts, node)
            if t[2][0] == "slice":
                for x in t[2][1:]:
                    self.walk(x, facts, node)
            else:
                self.walk(t[2], facts, node)
                self.add("SUB", t, facts, node)
            return
        if k == "call":
            fn = t[1]
            for a in t[2]:
                self.walk(a, facts, node)
            for _, v in t[3]:
                self.walk(v, facts, node)
            if fn[0] == "builtin" and fn[1] == "next" and len(t[2]) == 1:
                self.add("NEXT", t, facts, node)
            if fn[0] == "builtin" and fn[1] in ("max", "min") and len(t[2]) == 1 and "default" not in dict(t[3]):
                self.add("NONEMPTY", t, facts, node)
            if fn[0] == "builtin" and fn[1] in ("hasattr", "getattr", "setattr") and len(t[2]) >= 2:
                self.add("ATTRNAME", t, facts, node)
            if fn[0] == "builtin" and fn[1] == "int" and len(t[2]) == 1:
                self.add("NOTNONE", t[2][0], facts, node, "argument of int()")
            elif not (fn[0] == "meth" and fn[1] in ("group", "groups")):
                # a capture group handed to a callable (a converter from a table, a constructor, a lambda): a group that can
                # stay unset arrives as None (TypeError in int(), the text 'None' from str())
                for a in list(t[2][1 if fn[0] == "meth" else 0:]) + [v for _, v in t[3]]:
                    if group_ref(a) is not None:
                        self.add("NOTNONE", a, facts, node, f"capture group passed to {show(fn)[:40]}")
            if fn[0] == "meth" and t[2]:
                self.add("NOTNONE", t[2][0], facts, node, f"receiver of .{fn[1]}()")
                self.add("ATTR", ("attr", t[2][0], fn[1]), facts, node, f"method .{fn[1]}()")
            if fn[0] == "meth" and fn[1] in ("format", "format_map") and t[2]:
                self.add("STRFORMAT", t, facts, node)
            if fn[0] == "binop" or (fn[0] == "meth" and fn[1] == "__mod__"):
                pass
            if fn[0] not in ("builtin", "ext", "func", "closure", "boundcls", "class", "clsparam", "meth", "supermeth", "newtype"):
                self.walk(fn, facts, node)
            return
        if k == "attr":
            self.walk(t[1], facts, node)
            self.add("NOTNONE", t[1], facts, node, f"receiver of .{t[2]}")
            self.add("ATTR", t, facts, node, f"attribute .{t[2]}")
            return
        if k == "cmp":
            self.walk(t[2], facts, node)
            self.walk(t[3], facts, node)
            if t[1] in ("<", "<="):
                self.add("ORDER", t, facts, node)
            return
        if k == "binop":
            self.walk(t[2], facts, node)
            self.walk(t[3], facts, node)
            if t[1] in ("/", "//", "%"):
                self.add("DIV", t, facts, node)
            if t[1] in ("+", "-", "*", "/", "//", "%", "**"):
                self.add("ARITH", t, facts, node)
            return
        if k == "fstr":
            for p in t[1]:
                if p[0] == "fmt":
                    self.walk(p[1], facts, node)
                    if p[3] != ("const", ""):
                        self.add("FORMAT", p, facts, node)
            return
        for x in t[1:]:
            if isinstance(x, tuple):
                if x and isinstance(x[0], str):
                    self.walk(x, facts, node)
                else:
                    for y in x:
                        if isinstance(y, tuple):
                            self.walk(y, facts, node) if y and isinstance(y[0], str) else [self.walk(z, facts, node) for z in y if isinstance(z, tuple)]


# --------------------------------------------------------------------------------------------------
class Discharger:
    def __init__(self, ctx: Ctx, contracts: dict) -> None:
        _CTX[0] = ctx
        self.ctx = ctx
        self.contracts = contracts  # {(func qual, param): reason} non-emptiness contracts proved elsewhere
        from ..terms import _FuncEval
        self._fe = {}
        self._grp: dict = {}

    def fe(self, f):
        from ..terms import _FuncEval
        if f.qual not in self._fe:
            self._fe[f.qual] = _FuncEval(self.ctx.ev, f, {}, None, 0)
        return self._fe[f.qual]

    # ---- facts
    def nonnone_fact(self, x: Term, facts: list) -> bool:
        xs = strip(x)
        for a, p in facts:
            a = strip(a)
            if a == xs and p:
                return True
            if a[0] == "cmp" and a[1] in ("is", "==") and ("const", None) in (a[2], a[3]):
                other = a[3] if a[2] == ("const", None) else a[2]
                if other == xs and not p:
                    return True
        return False

    def try_fact(self, ob: Obligation, exc: str) -> bool:
        """Inside the normal continuation of a try whose handler catches `exc`: the operation did not raise."""
        for a, p in flatten_facts(ob.facts):
            if a[0] == "raises" and not p:
                ti = ob.summary.trys.get(a[1])
                if ti is not None:
                    for hs in ti.handlers:
                        if hs is None or any(exc_name(h) in (exc, "builtins.Exception", "builtins.LookupError" if exc in ("builtins.KeyError", "builtins.IndexError") else "") for h in hs):
                            return True
        return False

    def maybe_none(self, x: Term, ob: Obligation) -> bool:
        facts = flatten_facts(ob.facts)
        k = x[0]
        if k == "const":
            return x[1] is None
        if self.nonnone_fact(x, facts):
            return False
        if k in ("param", "free"):
            t = self.ctx.ev.types.type_of(x, self.fe(ob.func))
            return t is not None and t[0] == "union" and ("none",) in t[1]
        if k == "attr":
            t = self.ctx.ev.types.type_of(x, self.fe(ob.func))
            return t is not None and t[0] == "union" and ("none",) in t[1]
        if k in ("lv", "la"):
            l = ob.summary.loops.get(x[1])
            if l is None:
                return False
            init, upd = l.carried.get(x[2], (None, None))
            def may(v):
                if v is None:
                    return False
                if v == ("const", None):
                    return True
                if v[0] == "ite":
                    return may(v[2]) or may(v[3])
                if v[0] in ("lv", "la") and v[1:] == x[1:]:
                    return False
                return False
            return may(init) or may(upd)
        if k == "call" and x[1][0] == "meth" and x[1][1] in ("match", "search", "fullmatch", "get"):
            return True
        g = group_ref(x)
        if g is not None:
            return not self.group_always_set(g, ob)
        if k == "ite":
            return True if (self.maybe_none(x[2], Obligation(ob.kind, x[2], ob.facts + ((x[1], True),), ob.func, ob.summary, ob.node))
                            or self.maybe_none(x[3], Obligation(ob.kind, x[3], ob.facts + ((x[1], False),), ob.func, ob.summary, ob.node))) else False
        return False

    UNIVERSAL_ATTRS = {"__class__", "__dict__", "__doc__", "__module__", "__name__", "__qualname__", "__eq__", "__hash__", "__repr__",
                       "__str__", "__init__", "__ne__", "__dataclass_fields__"}
    OPEN_BASES = ("builtins.object", "object", "typing.Protocol", "typing.Generic", "abc.ABC")

    def class_attrs(self, c) -> Optional[set]:
        """Every attribute name instances (and the class) of c can have, or None when a base outside the package may add more."""
        key = ("attrs", c.qual)
        if key in self._grp:
            return self._grp[key]
        out = set(self.UNIVERSAL_ATTRS)
        ok = True
        for b in c.mro:
            if isinstance(b, str):
                if b in self.OPEN_BASES or b.startswith("typing."):
                    continue
                if b in ("enum.Enum", "enum.IntEnum"):
                    out |= {"name", "value", "_value_", "_name_"}
                    continue
                if b.startswith("builtins.") and b.endswith(("Error", "Exception")):
                    out |= {"args", "with_traceback", "add_note", "__traceback__", "__cause__", "__context__"}
                    continue
                ok = False
                continue
            out |= set(b.body_assigns) | set(b.methods) | set(b.nested)
            for m in b.methods.values():
                ps = m.params()
                if not ps or m.kind == "staticmethod":
                    continue
                for n in ast.walk(m.node):
                    if isinstance(n, ast.Attribute) and isinstance(n.ctx, ast.Store) and isinstance(n.value, ast.Name) and n.value.id == ps[0]:
                        out.add(n.attr)
        res = out if ok else None
        self._grp[key] = res
        return res

    def discharge_attr(self, ob: Obligation) -> Optional[str]:
        _, base, name = ob.term
        bt = self.ctx.ev.types.type_of(base, self.fe(ob.func))
        if bt is not None and bt[0] == "union":
            rest = [x for x in bt[1] if x != ("none",)]
            bt = rest[0] if len(rest) == 1 else None
        cq = None
        if bt is not None and bt[0] == "inst":
            cq = bt[1]
        elif bt is not None and bt[0] == "type" and bt[1][0] == "inst":
            cq = bt[1][1]
        c = self.ctx.prog.classes.get(cq) if cq else None
        if c is None:
            return "D17 receiver of unknown or external static type (attribute presence not decided)"
        attrs = self.class_attrs(c)
        if attrs is None:
            return "D17 receiver class has a base outside the package (attribute presence not decided)"
        # a value annotated with a base class may be an instance of any subclass
        names = set(attrs)
        for sub_ in self.ctx.prog.subclasses(c):
            a2 = self.class_attrs(sub_)
            if a2 is None:
                return "D17 a subclass has a base outside the package"
            if name in a2:
                names.add(name)
        if name in names:
            return "D17 attribute defined by the receiver's class (field, method, class attribute or attribute stored in a method)"
        for a, p in flatten_facts(ob.facts):
            a = strip(a)
            if p and a[0] == "call" and a[1] == ("builtin", "hasattr") and len(a[2]) == 2 and a[2][0] == strip(base) and a[2][1] == ("const", name):
                return "D17 attribute presence established by a dominating hasattr"
        return None

    def group_always_set(self, g, ob=None) -> bool:
        R, k = g
        key = (R, k)
        if key not in self._grp:
            pats = regex_patterns(self.ctx, R)
            if pats is None and ob is not None and R[0] == "attr":
                # the compiled pattern is an attribute of a value whose static type is a package class (a parameter, a local)
                bt = self.ctx.ev.types.type_of(R[1], self.fe(ob.func))
                if bt is not None and bt[0] == "inst":
                    c0 = self.ctx.prog.classes.get(bt[1])
                    if c0 is not None and c0.find_attr(R[2]) is None:
                        pats = instance_attr_patterns(self.ctx, c0, R[2])
            ok = bool(pats)
            for p_ in pats or ():
                mg = mandatory_groups(p_)
                if mg is None or k not in mg:
                    ok = False
            self._grp[key] = ok
        return self._grp[key]

    def positive(self, x: Term, facts: list, ob: Obligation) -> bool:
        if x[0] == "const":
            return isinstance(x[1], (int, float)) and not isinstance(x[1], bool) and x[1] > 0
        if x[0] == "binop" and x[1] in ("*", "/"):
            return self.positive(x[2], facts, ob) and self.positive(x[3], facts, ob)
        xs = strip(x)
        for a, p in facts:
            a = strip(a)
            if a[0] == "cmp" and a[1] == "<=" and a[2] == xs and a[3] == ("const", 0) and not p:
                return True
            if a[0] == "cmp" and a[1] == "<" and a[2] == ("const", 0) and a[3] == xs and p:
                return True
        if x[0] == "attr" and x[2] == "value":
            # enum value: every member's value non-zero
            t = self.ctx.ev.types.type_of(x[1], self.fe(ob.func))
            if t is not None and t[0] == "inst":
                c = self.ctx.prog.classes.get(t[1])
                if c is not None and c.is_enum():
                    tab = self.ctx.fold.enum_table(c)
                    return all(isinstance(v, (int, float)) and v > 0 for n, v in tab.primaries())
        return False

    # ---- per-kind
    def derive(self, ob: Obligation) -> Obligation:
        """A value computed at the end of a loop body: every path that left the body earlier (raise / return / break /
        continue) was not taken, so if all but one literal of such an exit's condition hold, the remaining one is false."""
        marks = [a for a, p in ob.facts if a[0] == "endofbody"]
        if not marks:
            return ob
        lid = marks[0][1]
        facts = list(ob.facts)
        changed = True
        loop_lits = flatten_facts(ob.summary.loops[lid].cond)
        exit_lits = []
        for e in ob.summary.exits:
            if not e.loops or e.loops[-1] != lid:
                continue
            lits = [(a, p) for a, p in flatten_facts(e.cond) if a[0] not in ("inloop",)]
            exit_lits.append([(l, (strip(l[0]), l[1])) for l in lits if l not in loop_lits])
        rounds = 0
        while changed and rounds < 50:
            changed = False
            rounds += 1
            flat_s = {(strip(a), p) for a, p in flatten_facts(tuple(facts))}
            for lits in exit_lits:
                unknown = [l for l, ls in lits if ls not in flat_s]
                if len(unknown) == 1:
                    neg = (unknown[0][0], not unknown[0][1])
                    key = (strip(neg[0]), neg[1])
                    if key not in flat_s:
                        facts.append(neg)
                        flat_s.add(key)
                        changed = True
        return Obligation(ob.kind, ob.term, tuple(facts), ob.func, ob.summary, ob.node, ob.detail)

    def discharge(self, ob: Obligation) -> Optional[str]:
        """Return the idiom that discharges ob, or None."""
        ob = self.derive(ob)
        facts = flatten_facts(ob.facts)
        ctx = self.ctx
        if ob.kind == "NOTNONE":
            x = ob.term
            if not self.maybe_none(x, ob):
                return "D15 receiver is not Optional here (type, or dominating non-None fact)"
            if ob.detail == "argument of int()" and self.try_fact(ob, "builtins.TypeError"):
                return "D10 int() of an optional group under a TypeError handler"
            return None
        if ob.kind == "ATTR":
            return self.discharge_attr(ob)
        if ob.kind == "DEFINED":
            x = ob.term
            if x[0] == "la":
                # value after the loop of a variable first assigned in it: defined when the loop provably runs at least once
                l = ob.summary.loops.get(x[1])
                if l is not None and l.iter is not None and l.iter[0] == "call" and l.iter[1] == ("builtin", "range") and len(l.iter[2]) == 2:
                    lo, hi = l.iter[2]
                    for a, p in facts:
                        ic = icmp(strip(a)) if p else icmp(("not", strip(a)))
                        if ic is not None and ic[1] is not None and strip(ic[1]) == strip(lo) and ic[2] is not None and \
                                strip(ic[2]) == strip(hi) and ic[3] <= -1:
                            return "D12 variable assigned by a loop whose range is non-empty by a dominating guard"
            return None
        if ob.kind == "ORDER":
            for side in (ob.term[2], ob.term[3]):
                if self.maybe_none(side, ob):
                    return None
            return "D15 both operands of the ordering comparison are non-None"
        if ob.kind == "ARITH":
            for side in (ob.term[2], ob.term[3]):
                if self.maybe_none(side, ob):
                    return None
            return "D15 arithmetic operands are non-None"
        if ob.kind == "DIV":
            d = ob.term[3]
            if self.positive(d, facts, ob):
                return "D14 divisor positive by literal / dominating sign guards / enum table"
            return None
        if ob.kind == "NEXT" or ob.kind == "NONEMPTY":
            arg = ob.term[2][0]
            # over a filtered generator under a dominating "not all filtered out" fact
            if arg[0] == "comp" and len(arg[3]) == 1:
                bv, it, conds = arg[3][0]
                if len(conds) == 1:
                    ALL = ("call", ("builtin", "all"), (("comp", ("?or", "gen", "list"), ("?", "e"), ((("?", "b"), strip(it), ()),)),), ())
                    for a, p in facts:
                        b = match(ALL, strip(a))
                        if b is not None and not p:
                            # the all() body is the negation of the filter (up to bound-variable renaming)
                            def ren(t, frm, to):
                                if t == frm:
                                    return to
                                return tuple(ren(x, frm, to) for x in t) if isinstance(t, tuple) else t
                            neg = ren(b["e"], b["b"], strip(bv))
                            c0 = strip(conds[0])
                            if c0 == ("not", neg) or neg == ("not", c0):
                                return "D9 next/max over a filtered generator under a dominating 'not all filtered out' fact"
            if truthy_atom(strip(arg))is not None:
                for a, p in facts:
                    r = truthy_atom(strip(arg))(strip(a))
                    if r is not None and r == p:
                        return "D9 max/min over a sequence under a dominating non-emptiness fact"
            return None
        if ob.kind == "SUB":
            return self.discharge_sub(ob, facts)
        if ob.kind == "FORMAT":
            return self.discharge_format(ob)
        if ob.kind == "ATTRNAME":
            nm = ob.term[2][1]
            t_ = self.static_type(nm, ob)
            if (nm[0] == "const" and isinstance(nm[1], str)) or t_ == ("ext", "builtins.str") or nm[0] == "proj":
                return "D16 attribute name is a string"
            return None
        if ob.kind == "PARTIALCALL":
            t = ob.term
            name, recv, rest = t[1][1], t[2][0], t[2][1:]
            if name == "unpack":
                return "D7 inside a try whose handler catches the lookup error" if self.try_fact(ob, "builtins.ValueError") else None
            if name == "pop" and len(rest) == 2:
                return "D20 pop with a default"
            exc = {"pop": "builtins.IndexError", "popitem": "builtins.KeyError", "remove": "builtins.ValueError", "index": "builtins.ValueError"}[name]
            if self.try_fact(ob, exc) or (name == "pop" and self.try_fact(ob, "builtins.KeyError")):
                return "D7 inside a try whose handler catches the lookup error"
            rs = strip(recv)
            for a, p in facts:
                a = strip(a)
                if name in ("pop", "popitem") and not rest and a == rs and p:
                    return "D20 pop from a collection under a dominating non-emptiness fact"
                if rest and a[0] == "cmp" and a[1] == "in" and a[3] == rs and a[2] == strip(rest[0]) and p:
                    return "D20 element / key established by a dominating `in` test"
            return None
        if ob.kind == "LOGFORMAT":
            t = ob.term
            args = list(t[2][2:] if t[1][1] == "log" else t[2][1:])
            msg, rest = args[0], args[1:]
            if msg[0] != "const" or not isinstance(msg[1], str):
                return None  # a template containing run-time text: a '%' in the text is read as a directive
            import re as _re
            convs = []
            for m_ in _re.finditer(r"%(?:\((\w+)\))?[#0\- +]*(\*|\d+)?(?:\.(\*|\d+))?[hlL]?(.)?", msg[1]):
                if m_.group(4) == "%":
                    continue
                if m_.group(4) is None or m_.group(4) not in "sra" or m_.group(1) or m_.group(2) == "*" or m_.group(3) == "*":
                    return None
                convs.append(m_.group(4))
            if len(convs) != len(rest):
                return None
            return "D19 logging call with a constant %-template: only %s/%r/%a directives, as many as arguments"
        if ob.kind == "STRFORMAT":
            # str.format: the template must be a constant whose replacement fields are all supplied (a template built
            # from input text re-reads braces in the data as fields: KeyError / IndexError / ValueError)
            import string
            t = ob.term
            try:
                tmpl = ctx.fold.fold(t[2][0])
            except NotConstant:
                return None
            if not isinstance(tmpl, str):
                return None
            npos, names = len(t[2]) - 1, {k for k, _ in t[3]}
            auto = 0
            try:
                for lit, field, spec, conv in string.Formatter().parse(tmpl):
                    if field is None:
                        continue
                    head = field.split(".")[0].split("[")[0]
                    if head == "":
                        auto += 1
                        if auto > npos:
                            return None
                    elif head.isdigit():
                        if int(head) >= npos:
                            return None
                    elif head not in names:
                        return None
                    if spec and ("{" in spec):
                        return None
            except ValueError:
                return None
            return "D16 str.format on a constant template whose fields are all supplied"
        return None

    def static_type(self, x: Term, ob: Obligation):
        return self.ctx.ev.types.type_of(x, self.fe(ob.func))

    def discharge_sub(self, ob: Obligation, facts: list) -> Optional[str]:
        ctx = self.ctx
        base, idx = ob.term[1], ob.term[2]
        bs, is_ = strip(base), strip(idx)
        # D7 enclosing handler
        if self.try_fact(ob, "builtins.KeyError") or self.try_fact(ob, "builtins.IndexError"):
            return "D7 inside a try whose handler catches the lookup error"
        # D3 dominating membership test
        for a, p in facts:
            a = strip(a)
            if a == ("cmp", "in", is_, bs) and p:
                return "D3 key established by a dominating `in` test"
            # all(tag in S for tag in REQ) with idx folding to a member of REQ
            b = match(("call", ("builtin", "all"), (("comp", ("?or", "gen", "list"), ("cmp", "in", ("?", "v"), bs), ((("?", "v"), ("?", "req"), ()),)),), ()), a)
            if b is not None and p:
                try:
                    req = ctx.fold.fold(b["req"])
                    key = ctx.fold.fold(idx)
                    if key in req:
                        return "D3 key covered by the required-tags all(...) guard"
                except NotConstant:
                    pass
        # D5 literal dict keyed by a whole enum / literal keys
        if base[0] == "dict":
            try:
                keys = [ctx.fold.fold(k) for k, v in base[1]]
            except NotConstant:
                keys = None
            if keys is not None:
                t = self.static_type(idx, ob)
                if t is not None and t[0] == "inst":
                    c = ctx.prog.classes.get(t[1])
                    if c is not None and c.is_enum():
                        members = ctx.fold.enum_table(c).members()
                        if all(m in keys for m in members):
                            return "D5 dict literal whose keys cover the enum"
                if idx[0] == "const" and idx[1] in keys:
                    return "D5 constant key present in the literal dict"
        if base[0] == "gvar":
            # module-level dict literal (never mutated: C17 inventory / W1) keyed by a whole enum
            try:
                mod_, _, name_ = base[1].rpartition(".")
                gv = ctx.ev.global_value(ctx.prog.modules[mod_], name_)
                if gv[0] == "dict":
                    keys = [ctx.fold.fold(k) for k, v in gv[1]]
                    t = self.static_type(idx, ob)
                    c = ctx.prog.classes.get(t[1]) if t is not None and t[0] == "inst" else None
                    if c is not None and c.is_enum() and all(m in keys for m in ctx.fold.enum_table(c).members()):
                        from .effects_lib import module_object_is_mutated
                        if not module_object_is_mutated(ctx, base[1]):
                            return "D5 module-level dict literal, never mutated, whose keys cover the enum"
            except (NotConstant, KeyError):
                pass
            # module-level table indexed by a Literal-typed name: every literal value is a key
            ann = None
            if idx[0] in ("param", "free"):
                g = ob.func
                while g is not None and ann is None:
                    a_ = g.node.args
                    for p_ in a_.posonlyargs + a_.args + a_.kwonlyargs:
                        if p_.arg == idx[1]:
                            ann = (g, p_.annotation)
                    g = g.parent
            if ann is not None and ann[1] is not None:
                lits = _literal_values(ctx, ann[0].module, ann[1])
                try:
                    mod, _, name = base[1].rpartition(".")
                    table = ctx.fold.fold(ctx.ev.global_value(ctx.prog.modules[mod], name))
                    if lits and all(l in table for l in lits):
                        return "D5 index annotated Literal[...] whose every value is a key of the folded table"
                except (NotConstant, KeyError):
                    pass
        # sequences
        t = self.static_type(base, ob)
        tb = t
        if tb is not None and tb[0] == "union":
            rest = [x for x in tb[1] if x != ("none",)]
            tb = rest[0] if len(rest) == 1 else tb
        seq_like = tb is not None and (tb[0] in ("seq", "tup") or tb == ("ext", "builtins.str") or
                                       (tb[0] == "inst" and ctx.prog.classes.get(tb[1]) is not None and ctx.prog.classes[tb[1]].find_method("__getitem__") is not None))
        if base[0] in ("list", "binop", "tuple") or (base[0] == "comp" and base[1] == "list"):
            seq_like = True
        dict_like = tb is not None and tb[0] == "dict"
        if not seq_like and not dict_like:
            # unknown static type: need a dominating isinstance(base, <sequence types only>)
            ok = False
            for a, p in facts:
                a = strip(a)
                if p and a[0] == "call" and a[1] == ("builtin", "isinstance") and a[2][0] == bs:
                    cls = a[2][1]
                    cl = cls[1] if cls[0] == "tuple" else (cls,)
                    if all(c in SEQ_CLASSES for c in cl):
                        ok = True
                    else:
                        return None
            if not ok:
                return None
            seq_like = True
        if dict_like:
            return None
        LEN = ("call", ("builtin", "len"), (bs,), ())
        b_, c_ = affine(idx)
        # constant 0 / -1 under non-emptiness
        if b_ is None and c_ in (0, -1):
            for a, p in facts:
                r = truthy_atom(bs)(strip(a))
                if r is not None and r == p:
                    return "D1 first/last element under a dominating non-emptiness fact"
                ic = icmp(strip(a))
                if ic is not None:
                    # 1 < len(base)  i.e.  0 - len <= -2 ... any fact implying len >= 1
                    _, A, B, c = ic if p else icmp(("not", strip(a)))
                    if A is None and B == LEN and c <= -1:
                        return "D1 first element under a dominating len(...) >= 1 fact"
            if base[0] in ("param", "free"):
                g = ob.func
                key = (g.qual, base[1])
                if key in self.contracts:
                    return f"D1 non-empty by contract: {self.contracts[key]}"
            return None
        # index from a verified scan / range
        if idx[0] == "call" and idx[1][0] == "func" and idx[1][1] in self.contracts.get("index-functions", ()):
            return "D8 index returned by a function all of whose returns are in range"
        base_i = b_
        if base_i is not None and base_i[0] == "elem":
            l = ob.summary.loops.get(base_i[1])
            if l is not None and l.iter is not None and l.iter[0] == "call" and l.iter[1] == ("builtin", "range") and len(l.iter[2]) == 2:
                hb, hc = affine(l.iter[2][1])
                if hb is not None and strip(hb) == LEN and c_ + 1 + hc <= 0 + 1 and c_ >= 0 and c_ <= -hc:
                    return "D2 index bounded by its range (affine)"
        if base_i is not None and base_i[0] == "la" and c_ == 0:
            l = ob.summary.loops.get(base_i[1])
            if l is not None and l.iter is not None and l.iter[0] == "call" and l.iter[1] == ("builtin", "range") and len(l.iter[2]) == 2:
                lo, hi = l.iter[2]
                if strip(hi) == LEN:
                    # non-empty range by a dominating guard  not (len <= lo)
                    for a, p in facts:
                        ic = icmp(strip(a)) if p else icmp(("not", strip(a)))
                        if ic is not None and ic[1] is not None and strip(ic[1]) == strip(lo) and ic[2] == LEN and ic[3] <= -1:
                            return "D12 loop variable after a loop whose range is non-empty by a dominating guard"
        if idx[0] in ("param", "free") and c_ == 0:
            for a, p in facts:
                ic = icmp(strip(a)) if p else icmp(("not", strip(a)))
                if ic is not None and ic[1] is not None and strip(ic[1]) == is_ and ic[2] == LEN and ic[3] <= -1:
                    return "D2 index below len(...) by a dominating comparison (hints are non-negative: C11 hint-source rule)"
        if base_i is not None and base_i[0] in ("lv",) :
            # loop-carried index: inside a loop whose test bounds it
            l = ob.summary.loops.get(base_i[1])
            tests = [l.test] if l is not None and l.test is not None else []
            for a, p in facts:
                tests.append(strip(a) if p else ("not", strip(a)))
            for tt in tests:
                for sub in ([tt] if tt[0] != "and" else list(tt[1])):
                    ic = icmp(strip(sub))
                    if ic is not None and ic[1] is not None and strip(ic[1]) == strip(base_i) and ic[2] == LEN and c_ <= -ic[3] - 1 and c_ >= 0:
                        return "D2 loop-carried index bounded by the loop test"
                    if ic is not None and ic[1] is not None and strip(ic[1]) == strip(base_i) and ic[2] == LEN and c_ < 0 and l is not None:
                        # below: the index only grows (+1 per iteration) from an initial value >= -c_ over a non-negative base
                        init, upd = l.carried.get(base_i[2], (None, None))
                        ib, ia = affine(init) if init is not None else (None, None)
                        ub, ua = affine(upd) if upd is not None else (None, None)
                        grows = upd is not None and strip(ub) == strip(base_i) and ua >= 0
                        base_ok = ib is None or (ib[0] == "lv" and ob.summary.loops.get(ib[1]) is not None and
                                                 ob.summary.loops[ib[1]].carried.get(ib[2], (None, None))[0] == ("const", 0))
                        if grows and ia is not None and ia >= -c_ and base_ok:
                            return "D2 loop-carried index bounded above by the loop test and below by its initial value (it only grows)"
        return None

    def discharge_format(self, ob: Obligation) -> Optional[str]:
        _, val, conv, spec = ob.term
        if spec[0] != "const":
            return None
        sp = spec[1]
        t = self.static_type(val, ob)
        alts = t[1] if t is not None and t[0] == "union" else ((t,) if t is not None else ())
        if conv in (ord("r"), ord("s"), ord("a")):
            alts = (("ext", "builtins.str"),)
        if not alts:
            return None
        numeric_spec = any(ch in sp for ch in "0123456789.,_+-=defgxXobn%") and not sp.endswith("s")
        for a in alts:
            if a in (("ext", "builtins.int"), ("ext", "builtins.float")):
                continue
            if a == ("ext", "builtins.str") and not (sp[:1] == "0" or "=" in sp or any(ch in sp for ch in "defgxXobn%,_+")):
                continue
            return None
        return "D16 format specification valid for every annotated type of the value"


def _literal_values(ctx: Ctx, m, ann) -> list:
    """Values of a typing.Literal[...] annotation (through one module-level alias)."""
    from ..srcmodel import dotted
    if isinstance(ann, ast.Constant) and isinstance(ann.value, str):
        try:
            ann = ast.parse(ann.value, mode="eval").body
        except SyntaxError:
            return []
    if isinstance(ann, ast.Name) and ann.id in m.assigns:
        ann = m.assigns[ann.id][0]
    if isinstance(ann, ast.Subscript) and (dotted(ann.value) or "").endswith("Literal"):
        els = ann.slice.elts if isinstance(ann.slice, ast.Tuple) else [ann.slice]
        return [e.value for e in els if isinstance(e, ast.Constant)]
    return []


def check_partial_scope(ctx: Ctx, r: Rule, roots: list, contracts: Optional[dict] = None, only_modules: Optional[set] = None,
                        only_funcs: Any = None) -> None:
    """Every partial operation in the functions reachable from `roots` is discharged by a guard idiom."""
    from .escape import graph

    cg = graph(ctx)
    scope = cg.reachable(roots)
    D = Discharger(ctx, contracts or {})
    for q in sorted(scope):
        g = cg.funcs.get(q)
        if g is None:
            continue
        if only_modules is not None and g.module.name not in only_modules:
            continue
        if only_funcs is not None and not only_funcs(g):
            continue
        edges = [e for e in cg.callers_of(q) if e.caller in scope and e.rec is not None]
        if edges and all(e.rec.inlined for e in edges) and not any(e.kind == "cha" for e in cg.callers_of(q) if e.caller in scope):
            continue
        s = cg.summary(g)
        for ob in Collector(ctx, g, s).collect():
            how = D.discharge(ob)
            if how is not None and how.startswith("D15") and not D.maybe_none(ob.term if ob.kind == "NOTNONE" else ("const", 0), ob):
                continue
            r.inst(f"{q}: {ob.kind} {show(ob.term)[:70]} -- {how or 'UNDISCHARGED'}")
            if how is None:
                fail(r, ctx, g, ob.node, f"{ob.kind} obligation not discharged: `{show(ob.term)[:160]}` in {q} can raise an internal error (not the "
                                         f"RegexNotMatchError the dispatcher expects), so a line would abort the parse instead of being claimed or skipped")


# --------------------------------------------------------------------------------------------------
def check_signatures(ctx: Ctx, rule: Rule, g: Any, s: Summary) -> int:
    """Every call of a package function or constructor in g binds: no missing required parameter, no unexpected keyword, not too
    many positional arguments (a TypeError otherwise -- typically in a rarely executed branch the tests do not reach).  Call records
    are in canonical keyword form when the evaluator could bind them; a record left positional for a callee without *args/**kwargs
    did not bind."""
    n_ok = 0
    prog = ctx.prog

    def required_of(fn_node: ast.AST, skip_first: bool) -> tuple:
        a = fn_node.args
        pos = [p.arg for p in a.posonlyargs + a.args]
        req = set(pos[: len(pos) - len(a.defaults)])
        for p, d in zip(a.kwonlyargs, a.kw_defaults):
            if d is None:
                req.add(p.arg)
        allp = set(pos) | {p.arg for p in a.kwonlyargs}
        if skip_first and pos:
            req.discard(pos[0])
            allp.discard(pos[0])
        return req, allp, a.vararg is not None, a.kwarg is not None

    for c in s.calls:
        if any(isinstance(x, tuple) and x and x[0] == "star" for x in c.args) or any(k == "**" for k, _ in c.kwargs):
            continue
        target = None
        skip_first = False
        if c.fn[0] in ("func", "closure", "boundcls"):
            f = prog.functions.get(c.fn[1])
            if f is None or isinstance(f.node, ast.Lambda):
                continue
            target = (f.qual, f.node)
        elif c.fn[0] in ("class", "clsparam"):
            k = prog.classes.get(c.fn[1])
            if k is None:
                continue
            if k.is_enum():
                if len(c.args) + len(c.kwargs) != 1:
                    fail(rule, ctx, g, c.node, f"{k.qual}(...) is called with {len(c.args) + len(c.kwargs)} argument(s): an enum look-up takes "
                                               f"exactly one (TypeError)")
                else:
                    n_ok += 1
                continue
            init = k.find_method("__init__")
            if init is not None:
                target = (k.qual, init.node)
                skip_first = True
            elif k.is_dataclass():
                fields = k.dc_fields()
                names = {f_.name for f_ in fields}
                req = {f_.name for f_ in fields if f_.default is None} if all(hasattr(f_, "default") for f_ in fields) else None
                if c.args:
                    fail(rule, ctx, g, c.node, f"{k.qual}(...) does not bind: positional arguments to a keyword-only dataclass, or more "
                                               f"arguments than fields (TypeError)")
                    continue
                given = {kk for kk, _ in c.kwargs}
                if given - names:
                    fail(rule, ctx, g, c.node, f"{k.qual}(...) is given {sorted(given - names)}, which is not a field (TypeError)")
                    continue
                if req is not None and req - given:
                    fail(rule, ctx, g, c.node, f"{k.qual}(...) is missing the required field(s) {sorted(req - given)} (TypeError)")
                    continue
                n_ok += 1
                continue
            else:
                continue
        if target is None:
            continue
        qual, node = target
        req, allp, var, kw = required_of(node, skip_first)
        if c.args:
            if not var and not kw:
                fail(rule, ctx, g, c.node, f"the call of {qual} does not bind to its signature (too many positional arguments, an unknown "
                                           f"keyword, or a parameter given twice): TypeError when executed")
            continue
        given = {kk for kk, _ in c.kwargs}
        if c.fn[0] == "boundcls" or (skip_first is False and node.args.args and node.args.args[0].arg in ("self", "cls") and
                                     node.args.args[0].arg not in given):
            first = node.args.args[0].arg if node.args.args else None
            if first in ("self", "cls"):
                req.discard(first)
        if req - given:
            fail(rule, ctx, g, c.node, f"the call of {qual} omits the required parameter(s) {sorted(req - given)}: TypeError when executed")
            continue
        if given - allp - ({node.args.args[0].arg} if node.args.args else set()) and not kw:
            fail(rule, ctx, g, c.node, f"the call of {qual} passes {sorted(given - allp)}, which is not a parameter: TypeError when executed")
            continue
        n_ok += 1
    return n_ok
