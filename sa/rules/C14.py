"""C14 -- unrecognised lines are skipped locally; each line is claimed at most once."""
from .decode import RECOGNISERS, check_from_chart_line
from .dispatch import check_dispatcher, check_track_sections, kinds_of
from .lang import check_line_recogniser, check_pairwise_disjoint, impl_pattern
from .lib import fail

LEVEL = "proof"


def run(ctx, rep):
    rep.explanation = (
        "The dispatcher is matched against the per-item dispatch schema S3 (one recogniser call per kind in a try that catches "
        "exactly RegexNotMatchError and continues; append to the claiming kind's list exactly when no exception, then break; "
        "else arm = exactly one warning; nothing carried from one line to the next; map allocated per call).  Inside the sync "
        "and instrument sections the shipped recognisers' languages are pairwise disjoint (automata intersection, all "
        "strings), with the kind tuples read at the dispatch sites; sections hand their own lines, unchanged, to the "
        "dispatcher; each recogniser is a pure function of its line whose only failure mode on any string is RegexNotMatchError "
        "(group contents within the domain of every conversion).")
    rep.trusted += ["re._parser", "ordered-thread simulation == sre backtracking (validated in selftest/rx_validate.py)"]
    r1 = rep.rule("S3", "dispatcher: exactly one append to one kind or exactly one warning per line; no cross-line state", floor=1)
    check_dispatcher(ctx, r1)
    r2 = rep.rule("lines", "every section passes its own lines unchanged (each line once, duplicates kept) to the dispatcher", floor=3)
    r0 = rep.rule("recognisers", "each recogniser: pure; not matched -> RegexNotMatchError, matched -> decoded (no other outcome)", floor=9)
    rd = rep.rule("disjoint", "pairwise disjoint languages inside the sync and instrument sections", floor=6)
    rg = rep.rule("total", "a matched line always decodes: group contents ⊆ domain of int / NoteTrackIndex (no ValueError from a claimed line)", floor=12)
    rl = rep.rule("language", "L ⊆ Upper (nothing foreign is claimed)", floor=6)
    rc = rep.rule("capture", "(not part of C14)", floor=0)
    impls = {}
    for which in ("instrument", "sync", "global"):
        check_track_sections(ctx, r2, which)
        c, pf, order, idx, pcall = kinds_of(ctx, which)
        if pf is None:
            pf = c.find_method("from_chart_lines") or c
        if order is None:
            fail(r2, ctx, pf, getattr(pf, "node", None), f"cannot read the kinds tried in the {which} section at its dispatch site")
            continue
        group = []
        for cq in order:
            if cq not in RECOGNISERS:
                fail(r0, ctx, pf, pf.node, f"kind {cq} tried in the {which} section is not one of the nine known recognisers; its "
                                           f"language is not covered by the disjointness proof")
                continue
            info = check_from_chart_line(ctx, r0, cq)
            if info is None:
                group.append((cq, None))
                continue
            impl = check_line_recogniser(ctx, cq, info, rl, rc, rg, only={"groups", "upper"} if which != "global" else {"groups"})
            group.append((cq.replace("chartparse.", "").replace(".ParsedData", ""), impl))
        if which in ("instrument", "sync"):
            check_pairwise_disjoint(ctx, rd, group, pf, f"{which} section")
    rpo = rep.rule("safe-skip", "trying a kind on any line can only succeed or raise RegexNotMatchError: every partial operation reachable "
                                "from the dispatcher (recognisers, exception constructors) is discharged", floor=1)
    from .partial import check_partial_scope
    from .dispatch import PARSE
    check_partial_scope(ctx, rpo, [PARSE])
    rch = rep.rule("chain", "file -> lines (read().splitlines(), utf-8-sig) -> framing -> section route -> dispatcher -> builders: every link "
                            "hands the lines on unchanged", floor=10)
    from .chain import check_chain
    check_chain(ctx, rch, "all", strict=True)
    rfo = rep.rule("folds", "each kind's data are folded datum by datum, in order, by that kind's own builder with its predecessor and the tempo map", floor=6)
    from .timing import Timing as _T
    _T(ctx).check_folds(rfo)
