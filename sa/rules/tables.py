"""tables -- folded enum / constant tables compared with the file format (DESIGN appendix A.1)."""
from __future__ import annotations

from ..match import H, match
from ..terms import show
from .lib import fail, live_exits

NOTEDURATION = "chartparse.tick.NoteDuration"


def check_note_duration(ctx, r):
    c = ctx.cls(NOTEDURATION)
    tab = ctx.fold.enum_table(c)
    r.inst("NoteDuration.EIGHTH_TRIPLET", nontrivial=True)
    try:
        m = tab.by_name("EIGHTH_TRIPLET")
        if m.value != 3:
            fail(r, ctx, c, c.node, f"NoteDuration.EIGHTH_TRIPLET folds to {m.value!r}; an eighth-note triplet is a third of a "
                                    f"quarter note (3 per resolution)")
    except Exception as e:
        fail(r, ctx, c, c.node, f"NoteDuration.EIGHTH_TRIPLET does not fold to a constant: {e}")
    f = ctx.func("chartparse.tick.note_duration_to_ticks")
    s = ctx.summary(f)
    ps = f.params()
    r.inst(f"{f.qual}: round(resolution / value)")
    want = ("call", ("builtin", "round"), (("binop", "/", ("param", ps[0]), ("attr", ("param", ps[1]), "value")),), ())
    ex = live_exits(s)
    if len(ex) != 1 or ex[0].kind != "ret" or match(want, ex[0].value) is None or s.effects:
        fail(r, ctx, f, f.node, "note-duration helper must be round(resolution / note_duration.value) -- nearest tick; "
                                f"truncation or floor division differs whenever resolution % 3 == 2; found "
             + "; ".join(show(e.value)[:120] for e in ex))


FORMAT_DIFFICULTIES = ["Easy", "Medium", "Hard", "Expert"]
FORMAT_INSTRUMENTS = ["Single", "DoubleGuitar", "DoubleBass", "DoubleRhythm", "Keyboard", "Drums", "GHLGuitar", "GHLBass",
                      "GHLCoop", "GHLRhythm"]
