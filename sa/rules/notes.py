"""notes -- premises about note events: grouping (S1), lanes, sustains, HOPO state, star power.
Shared by C02, C03, C04, C05 (and the wiring parts of C01, C11, C12)."""
from __future__ import annotations

import ast
from typing import Any, Optional

from ..constfold import EnumMember, NotConstant
from ..context import Ctx
from ..match import ANYP, H, affine, decision_table, eval_bool, is_atom, match, resolve_ite, strip, UnknownAtom
from ..report import AnalysisError, Rule, Unproven
from ..srcmodel import FuncInfo
from ..terms import Summary, Term, show, subterms
from .lib import (cond_str, exc_is, exc_name, fail, fcmp_atom, icmp, icmp_atom, is_none_atom, live_exits, opt_atom,
                  truthy_atom, unknown_atoms)
from .timing import Timing

NOTEEVENT = "chartparse.instrument.NoteEvent"
NOTE = "chartparse.instrument.Note"
NTI = "chartparse.instrument.NoteTrackIndex"
TRACK = "chartparse.instrument.InstrumentTrack"
SPECIAL = "chartparse.instrument.SpecialEvent"
HOPOSTATE = "chartparse.instrument.HOPOState"
SPDATA = "chartparse.instrument.StarPowerData"


def subst(t: Any, a: Any, b: Any) -> Any:
    if t == a:
        return b
    if isinstance(t, tuple):
        return tuple(subst(x, a, b) for x in t)
    return t


def any_index(datas: Term, member: str) -> tuple:
    """any(d.note_track_index == NoteTrackIndex.<member> for d in datas)"""
    bv = ("bv", H("bv")[1]) if False else ("?", "bv")
    elt = ("?sym", "==", ("attr", bv, "note_track_index"), ("enum", NTI, member))
    return ("call", ("builtin", "any"), (("comp", ("?or", "gen", "list"), ("?", "elt"), ((("?", "bv"), datas, ()),)),), ())


class Notes:
    def __init__(self, ctx: Ctx, T: Optional[Timing] = None) -> None:
        self.ctx = ctx
        self.T = T or Timing(ctx)
        self.f = ctx.func(f"{NOTEEVENT}.from_parsed_data")
        self.s = ctx.summary(self.f)
        self.parts: Optional[dict] = None
        self.problems: list = []
        self._parse()

    # ------------------------------------------------------------------ NoteEvent.from_parsed_data
    def _parse(self) -> None:
        ctx, f, s = self.ctx, self.f, self.s
        ps = f.params()
        ex = live_exits(s)
        if len(ex) != 1 or ex[0].kind != "ret" or ex[0].cond or s.effects or s.loops:
            self.problems.append((f.node, "note event builder must be one unconditional construction without effects or "
                                          f"loops; found {len(ex)} exits, {len(s.effects)} effects, {len(s.loops)} loops: "
                                  + "; ".join(f"{e.kind} if {cond_str(e.cond)[:120]}" for e in ex)[:500]))
            return
        v = ex[0].value
        if not (v[0] == "tuple" and len(v[1]) == 3 and v[1][0][0] == "call" and v[1][0][1][0] in ("clsparam", "class")):
            self.problems.append((ex[0].node, f"note event builder must return (event, tempo cursor, star-power cursor); "
                                              f"found {show(v)[:200]}"))
            return
        ctor, i1, i2 = v[1]
        self.parts = {"node": ex[0].node, "kw": dict(ctor[3]), "i1": i1, "i2": i2, "params": ps}

    def report_problems(self, r: Rule) -> bool:
        for node, msg in self.problems:
            fail(r, self.ctx, self.f, node, msg)
        return bool(self.problems)

    def P(self, name_index: int) -> tuple:
        return ("param", self.parts["params"][name_index])

    def tick_term(self) -> tuple:
        return ("attr", ("sub", self.P(1), ("const", 0)), "tick")

    def check_time_wiring(self, r: Rule, r_hint: Optional[Rule] = None) -> None:
        """C01 P5 / C11 P4 for notes: start and end are Q0 at the own tick / own end tick; cursors."""
        ctx, f = self.ctx, self.f
        r.inst(f"{f.qual}: start/end timestamp wiring")
        if r_hint is not None:
            r_hint.inst(f"{f.qual}: hints and returned cursor")
        if self.report_problems(r):
            return
        p = self.parts
        kw, node = p["kw"], p["node"]
        datas, prev, spev, bpm, hint = self.P(1), self.P(2), self.P(3), self.P(4), self.P(5)
        T = self.T
        TICK = self.tick_term()
        if strip(kw.get("tick")) != TICK:
            fail(r, ctx, f, node, f"note tick must be the tick of its own group's data (datas[0].tick); found {show(kw.get('tick'))}")
        q1p = ("proj", ("?", "q1", T.q_call(bpm, TICK, H("h1"))), 0)
        b = match(q1p, kw.get("timestamp"))
        if b is None:
            fail(r, ctx, f, node, "note timestamp must be component 0 of bpm_events.timestamp_at_tick(own tick, hint); found "
                 + show(kw.get("timestamp"))[:300])
            return
        q1 = b["q1"]
        rh = r_hint or r
        if not (b["h1"] == hint or b["h1"] == ("const", 0)):
            fail(rh, ctx, f, node, f"start lookup hint must be the carried tempo cursor parameter (or 0); found {show(b['h1'])[:120]}")
        px = kw.get("_proximal_bpm_event_index", ("const", 0))
        if not (px == ("const", 0) or strip(px) == strip(("proj", q1, 1))):
            fail(rh, ctx, f, node, "stored tempo cursor must be the index returned by the start query (or 0); found " + show(px)[:160])
        if not (strip(p["i1"]) == strip(("proj", q1, 1)) or p["i1"] == ("const", 0)):
            fail(rh, ctx, f, node, "tempo cursor handed to the next note must be the index returned by the *start* query "
                                   "(the end query's index may lie beyond the next note's governing tempo event); found "
                 + show(p["i1"])[:200])
        # end
        sus = kw.get("sustain")
        if sus is None:
            fail(r, ctx, f, node, "note event is built without its sustain")
            return
        q2p = ("proj", T.q_call(bpm, ("?sym", "+", TICK, ("?", "longest")), H("h2")), 0)
        b2 = match(q2p, kw.get("end_timestamp"))
        if b2 is None:
            fail(r, ctx, f, node, "note end timestamp must be component 0 of bpm_events.timestamp_at_tick(tick + longest "
                                  "sustain, hint) on every path; found " + show(kw.get("end_timestamp"))[:400])
            return
        lg = b2["longest"]
        self.longest_call = lg
        ok = lg[0] == "call" and lg[1][0] == "func" and len(lg[3]) == 1 and strip(lg[3][0][1]) == strip(sus)
        if not ok:
            fail(r, ctx, f, node, "end tick must be tick + longest(sustain) for the very sustain stored on the event; found "
                                  f"longest term {show(lg)[:200]} vs stored sustain {show(sus)[:120]}")
        else:
            self.longest_f = ctx.prog.functions.get(lg[1][1])
        h2 = b2["h2"]
        if not (h2 == ("const", 0) or strip(h2) == strip(("proj", q1, 1)) or h2 == hint):
            fail(rh, ctx, f, node, "end lookup hint must be the start query's index, the carried cursor or 0 (all are at or "
                                   "before the end tick's governing event because longest >= 0); found " + show(h2)[:160])

    def check_note_wiring(self, r: Rule) -> None:
        """The event's note is computed from the *whole* group (every line of the tick, in any order)."""
        ctx, f = self.ctx, self.f
        r.inst(f"{f.qual}: note = Note.from_parsed_datas(datas)")
        if self.report_problems(r):
            return
        datas = self.P(1)
        NOTEC = ("call", ("func", f"{NOTE}.from_parsed_datas"), (), tuple(sorted({"cls": ("class", NOTE), "datas": datas}.items())))
        got = self.parts["kw"].get("note")
        if strip(got) != strip(NOTEC):
            fail(r, ctx, f, self.parts["node"], "the event's lanes must be computed from the whole tick group as handed over by the grouping loop "
                                                f"(Note.from_parsed_datas(datas)); a filtered / truncated / re-ordered view loses lane lines; found {show(got)[:200] if got else None}")

    # ------------------------------------------------------------------ grouping S1
    def builder(self) -> Optional[FuncInfo]:
        """The function whose result flows into note_events= of the InstrumentTrack construction."""
        ctx = self.ctx
        f = ctx.func(f"{TRACK}.from_chart_lines")
        s = ctx.summary(f)
        self.track_fcl, self.track_fcl_s = f, s
        for e in s.rets():
            v = e.value
            if v[0] == "call" and v[1][0] in ("clsparam", "class"):
                ne = dict(v[3]).get("note_events")
                if ne is not None and ne[0] == "call" and ne[1][0] in ("func", "boundcls"):
                    self.builder_call = ne
                    return ctx.prog.functions.get(ne[1][1])
        return None

    def check_grouping(self, r: Rule, r_cursor: Optional[Rule] = None) -> None:
        ctx = self.ctx
        bf = self.builder()
        if bf is None:
            fail(r, ctx, self.track_fcl, self.track_fcl.node, "cannot find the note-event builder: note_events= of the track "
                                                              "construction is not the result of a package function")
            return
        s = ctx.summary(bf)
        r.inst(f"{bf.qual}: group-adjacent schema S1")
        rc = r_cursor or r
        if r_cursor is not None:
            r_cursor.inst(f"{bf.qual}: carried cursors")
        ps = bf.params()
        kwc = dict(self.builder_call[3])
        # the builder receives the track's own phrase list and the tempo map handed to from_chart_lines
        tf, tsum = self.track_fcl, self.track_fcl_s
        for e_ in tsum.rets():
            v_ = e_.value
            if v_[0] == "call" and v_[1][0] in ("clsparam", "class"):
                tk = dict(v_[3])
                for p_ in ps:
                    t_ = ctx.ev.types.param_type(bf, p_)
                    a_ = kwc.get(p_)
                    if t_ == ("seq", ("inst", "chartparse.instrument.StarPowerEvent")) and strip(a_) != strip(tk.get("star_power_events")):
                        fail(rc, ctx, tf, e_.node, "the note builder must receive the very star-power list stored on the track (built from this "
                                                   f"section's S lines); it receives {show(a_)[:120] if a_ else None}")
                    if t_ == ("inst", "chartparse.sync.BPMEvents"):
                        tparams = [q_ for q_ in tf.params() if ctx.ev.types.param_type(tf, q_) == ("inst", "chartparse.sync.BPMEvents")]
                        if not tparams or a_ != ("param", tparams[0]):
                            fail(rc, ctx, tf, e_.node, f"the note builder must receive the tempo map handed to the track; it receives {show(a_)[:120] if a_ else None}")
        # which parameter holds the note data: the one bound to component 0 of the parse result
        datas = None
        for p in ps:
            a = kwc.get(p)
            if a is not None and a[0] == "proj" and a[2] == 0:
                datas = ("param", p)
        if datas is None:
            datas = ("param", ps[1])
        LEN = ("call", ("builtin", "len"), (datas,), ())
        outer = [l for l in s.loops.values() if l.parent is None]
        if len(outer) == 1 and outer[0].kind == "for" and len(s.loops) == 1 and self._groupby_form(r, rc, bf, s, outer[0], datas):
            return
        if len(outer) != 1 or outer[0].kind != "while":
            fail(r, ctx, bf, bf.node, f"grouping must be one outer `while i < len(datas)` loop (schema S1); found "
                                      f"{[(l.kind) for l in outer]} -- a different skeleton is not covered by the verified "
                                      f"schema")
            return
        L1 = outer[0]
        inner = [l for l in s.loops.values() if l.parent == L1.id]
        if len(inner) != 1 or inner[0].kind != "while" or len(s.loops) != 2:
            fail(r, ctx, bf, L1.node, f"grouping must contain exactly one inner `while` advancing over equal ticks; found "
                                      f"{len(inner)} inner loop(s), {len(s.loops)} loops in total")
            return
        L2 = inner[0]
        # index variables.  General form (a + b = 1):
        #   S = 0;  while S < n:  E = S + a;  while E + b < n and key(E + b) == key(E + b - 1 | S):  E += 1;  consume [S, E + b);  S = E + b
        # a = 0, b = 1 with E and S the same variable is the shipped form; a = 1, b = 0 is the exclusive-end form.
        t1 = icmp(L1.test) if L1.test is not None else None
        ivar = None
        if t1 is not None and t1[1] is not None and t1[1][0] == "lv" and t1[1][1] == L1.id:
            ivar = t1[1][2]
        if ivar is None or not (match(LEN, t1[2]) is not None and t1[3] == -1):
            fail(r, ctx, bf, L1.node, f"outer loop test must be i < len(datas); found {show(L1.test) if L1.test else None}")
            return
        i1 = ("lv", L1.id, ivar)
        inner_vars = [n for n in L2.carried]
        if len(inner_vars) != 1:
            fail(r, ctx, bf, L2.node, f"inner scan must advance exactly one index variable; it changes {inner_vars}")
            return
        evar = inner_vars[0]
        i2 = ("lv", L2.id, evar)
        j = ("la", L2.id, evar)
        init, upd = L1.carried.get(ivar, (None, None))
        if init != ("const", 0):
            fail(r, ctx, bf, L1.node, f"grouping index must start at 0; starts at {show(init) if init else None}")
        i_init, i_upd = L2.carried.get(evar, (None, None))
        ab, a_off = affine(i_init) if i_init is not None else (None, None)
        if i_init is None or strip(ab) != i1 or a_off not in (0, 1):
            fail(r, ctx, bf, L2.node, f"inner scan must start at the group's first index (or one past it); starts at {show(i_init) if i_init else None}")
            return
        b_off = 1 - a_off
        b, c = affine(i_upd) if i_upd is not None else (None, None)
        if i_upd is None or strip(b) != i2 or c != 1:
            fail(r, ctx, bf, L2.node, f"inner scan must advance by one datum; found {show(i_upd) if i_upd else None}")
        b, c = affine(upd) if upd is not None else (None, None)
        if upd is None or strip(b) != j or c != b_off:
            fail(r, ctx, bf, L1.node, f"next group must start right after the last datum of this one (start = end index {'+ 1' if b_off else ''}); found "
                                      f"{show(upd) if upd else None}: any other offset repeats or skips a note line")
        # inner test
        tt = L2.test
        ok = tt is not None and tt[0] == "and" and len(tt[1]) == 2
        if ok:
            bound, eq = tt[1]
            tb = icmp(bound)
            if not (tb is not None and strip(tb[1]) == i2 and match(LEN, tb[2]) is not None and tb[3] == -1 - b_off):
                fail(r, ctx, bf, L2.node, f"inner bound must be {'i + 1' if b_off else 'end'} < len(datas), evaluated first; found {show(bound)}")

            def at(base, off):
                if off == 0:
                    return ("sub", datas, base)
                return ("?or", ("sub", datas, ("binop", "+", base, ("const", off))), ("sub", datas, ("binop", "-", base, ("const", -off)))) if off > 0 else \
                    ("sub", datas, ("binop", "-", base, ("const", -off)))
            nxt = ("attr", at(i2, b_off), "tick")
            cur = ("?or", ("attr", at(i2, b_off - 1), "tick"), ("attr", ("sub", datas, i1), "tick"))
            if match(("?sym", "==", nxt, cur), eq) is None:
                fail(r, ctx, bf, L2.node, f"inner test must compare the next datum's tick with the current group's tick; found {show(eq)}")
        else:
            fail(r, ctx, bf, L2.node, f"inner test must be `next < len(datas) and datas[next].tick == datas[next - 1].tick`; found "
                                      f"{show(tt) if tt else None}")
        # consumer
        calls = [c for c in s.calls if c.fn == ("func", self.f.qual)]
        if len(calls) != 1 or calls[0].loops != (L1.id,):
            fail(r, ctx, bf, L1.node, f"each group must be handed to NoteEvent.from_parsed_data exactly once per outer "
                                      f"iteration; found {len(calls)} call(s)")
            return
        call = calls[0]
        extra_c = [(a, p) for a, p in call.cond if a[0] != "inloop" and a != L1.test and ("not", a) != L1.test]
        lit_ok = all((a[0] == "inloop") or (L1.test is not None and (a == L1.test or a == strip(L1.test))) for a, p in call.cond)
        if not lit_ok:
            fail(r, ctx, bf, call.node, f"group consumer is called conditionally: {cond_str(call.cond)[:200]}")
        kw = dict(call.kwargs)
        fps = self.f.params()
        sl = kw.get(fps[1])
        okslice = sl is not None and sl[0] == "sub" and strip(sl[1]) == datas and sl[2][0] == "slice"
        if okslice:
            lo, hi, st = sl[2][1:]
            bl, cl = affine(lo)
            bh, ch = affine(hi)
            if not (strip(bl) == i1 and cl == 0):
                fail(r, ctx, bf, call.node, f"group slice must start at the group's first index; starts at {show(lo)}")
            if not (strip(bh) == j and ch == b_off):
                fail(r, ctx, bf, call.node, f"group slice must end right after the last equal-tick datum; ends at "
                                            f"{show(hi)}: a chord's last line would be dropped or the next tick merged in")
            if st != ("const", None):
                fail(r, ctx, bf, call.node, f"group slice has a step {show(st)}")
        else:
            fail(r, ctx, bf, call.node, f"group handed to the note builder must be the slice datas[left:j+1]; found "
                                        f"{show(sl)[:200] if sl else None}")
        self._consumer_lists(rc, bf, call)
        # accumulator
        ex = live_exits(s)
        if len(ex) != 1 or ex[0].kind != "ret" or ex[0].loops:
            fail(r, ctx, bf, bf.node, "note builder must return once, after the loop")
            return
        acc = ex[0].value
        if acc[0] != "list" or acc[1]:
            fail(r, ctx, bf, ex[0].node, f"note builder must return its own fresh list; returns {show(acc)[:100]}")
            return
        appends = [e for e in s.effects if e.kind == "mutcall" and e.key == "append" and e.target == acc]
        for e in s.effects:
            if e not in appends:
                fail(r, ctx, bf, e.node, f"note builder has an extra effect: {e.kind} {e.key} on {show(e.target)[:60]}")
        if len(appends) != 1 or appends[0].loops != (L1.id,) or strip(appends[0].value[0]) != strip(("proj", call.result, 0)):
            fail(r, ctx, bf, L1.node, "each group's event (component 0 of the builder result) must be appended exactly once "
                                      f"per outer iteration; found {[show(a.value[0])[:80] for a in appends]}")
        PREV = ("ite", acc, ("sub", acc, ("const", -1)), ("const", None))
        if strip(kw.get(fps[2])) != strip(PREV):
            fail(r, ctx, bf, call.node, "predecessor handed to the note builder must be the last appended event "
                                        f"(events[-1] if events else None); found {show(kw.get(fps[2]))[:160]}")
        # cursors
        if self.parts is None:
            return
        T = self.T
        for (pi, comp, what) in ((5, self.parts["i1"], "tempo"), (6, self.parts["i2"], "star-power")):
            pname = fps[pi]
            a = kw.get(pname)
            # which tuple component does the builder return for this cursor?
            if a is None:
                fail(rc, ctx, bf, call.node, f"{what} cursor is not passed to the note builder")
                continue
            if a == ("const", 0):
                continue  # always restarting from 0 is slower but correct
            if not (a[0] == "lv" and a[1] == L1.id):
                fail(rc, ctx, bf, call.node, f"{what} cursor argument must be the loop-carried cursor variable; found {show(a)[:120]}")
                continue
            init, upd = L1.carried.get(a[2], (None, None))
            k = 1 if pi == 5 else 2
            if init != ("const", 0):
                fail(rc, ctx, bf, L1.node, f"{what} cursor must start at 0; starts at {show(init) if init else None}")
            if upd is None or strip(upd) != strip(("proj", call.result, k)):
                fail(rc, ctx, bf, L1.node, f"{what} cursor must be rebound to component {k} of the builder result (the cursor the "
                                           f"builder derived from its own {what} lookup); found {show(upd)[:200] if upd else None}")

    def _consumer_lists(self, rc: Rule, bf, call) -> None:
        """The phrase list and the tempo map reach the group consumer as the builder received them: recorded star-power indices
        refer to the list stored on the track, times to the chart's tempo map (a filtered / sorted / copied list shifts them)."""
        ctx = self.ctx
        kw = dict(call.kwargs)
        ps = bf.params()
        for p_ in self.f.params():
            t_ = ctx.ev.types.param_type(self.f, p_)
            if t_ in (("seq", ("inst", "chartparse.instrument.StarPowerEvent")), ("inst", "chartparse.sync.BPMEvents")):
                a_ = kw.get(p_)
                srcs = [q_ for q_ in ps if ctx.ev.types.param_type(bf, q_) == t_]
                if a_ is None or not srcs or strip(a_) != ("param", srcs[0]):
                    fail(rc, ctx, bf, call.node, f"the group consumer's `{p_}` must be the builder's own parameter, unchanged; it receives "
                                                 f"{show(a_)[:140] if a_ else None} -- indices recorded on notes would refer to another list / "
                                                 f"times to another tempo map than the ones the track and chart expose")

    def _groupby_form(self, r: Rule, rc: Rule, bf, s, loop, datas) -> bool:
        """Second verified form of S1:  for _, g in itertools.groupby(datas, key=lambda d: d.tick): consumer(list(g), ...).
        groupby yields maximal runs of equal keys, in order, covering every element once -- the S1 summary by definition.
        Returns True when the loop is of this form (findings for its details are filed), False when it is another shape."""
        ctx = self.ctx
        it = loop.iter
        if not (it is not None and it[0] == "call" and it[1] == ("ext", "itertools.groupby") and it[2] and strip(it[2][0]) == datas):
            return False
        key = dict(it[3]).get("key") or (it[2][1] if len(it[2]) > 1 else None)
        okkey = False
        if key is not None and key[0] in ("closure", "func"):
            kf = ctx.prog.lambdas.get(key[1]) or ctx.prog.functions.get(key[1])
            if kf is not None:
                okkey = ctx.ev.summary(kf).ret_term() == ("attr", ("param", kf.params()[0]), "tick")
        if not okkey:
            fail(r, ctx, bf, loop.node, f"groupby key must be the datum's tick (lambda d: d.tick); found {show(key)[:100] if key else None}")
        group = ("proj", ("elem", loop.id), 1)
        calls = [c for c in s.calls if c.fn == ("func", self.f.qual)]
        if len(calls) != 1 or calls[0].loops != (loop.id,) or [x for x in calls[0].cond if x[0][0] != "inloop"]:
            fail(r, ctx, bf, loop.node, f"each group must be handed to NoteEvent.from_parsed_data exactly once, unconditionally; found {len(calls)} call(s)")
            return True
        call = calls[0]
        self._consumer_lists(rc, bf, call)
        kw = dict(call.kwargs)
        fps = self.f.params()
        g = kw.get(fps[1])
        if strip(g) not in (("call", ("builtin", "list"), (group,), ()), ("call", ("builtin", "tuple"), (group,), ())):
            fail(r, ctx, bf, call.node, f"the note builder must receive the whole group materialised (list(group)); receives {show(g)[:120]}")
        ex = live_exits(s)
        acc = ex[0].value if len(ex) == 1 and ex[0].kind == "ret" and not ex[0].loops else None
        if acc is None or acc[0] != "list" or acc[1]:
            fail(r, ctx, bf, bf.node, "note builder must return its own fresh list once, after the loop")
            return True
        appends = [e for e in s.effects if e.kind == "mutcall" and e.key == "append" and e.target == acc]
        for e in s.effects:
            if e not in appends:
                fail(r, ctx, bf, e.node, f"note builder has an extra effect: {e.kind} {e.key}")
        if len(appends) != 1 or appends[0].loops != (loop.id,) or strip(appends[0].value[0]) != strip(("proj", call.result, 0)):
            fail(r, ctx, bf, loop.node, "each group's event must be appended exactly once per group")
        PREV = ("ite", acc, ("sub", acc, ("const", -1)), ("const", None))
        if strip(kw.get(fps[2])) != strip(PREV):
            fail(r, ctx, bf, call.node, f"predecessor must be the last appended event; found {show(kw.get(fps[2]))[:120]}")
        if self.parts is not None:
            for (pi, what) in ((5, "tempo"), (6, "star-power")):
                a = kw.get(fps[pi])
                k = 1 if pi == 5 else 2
                if a is None or a == ("const", 0):
                    continue
                if not (a[0] == "lv" and a[1] == loop.id):
                    fail(rc, ctx, bf, call.node, f"{what} cursor argument must be the loop-carried cursor variable; found {show(a)[:100]}")
                    continue
                init, upd = loop.carried.get(a[2], (None, None))
                if init != ("const", 0) or upd is None or strip(upd) != strip(("proj", call.result, k)):
                    fail(rc, ctx, bf, loop.node, f"{what} cursor must start at 0 and be rebound to component {k} of the builder result")
        return True

    # ------------------------------------------------------------------ lanes
    def lane_predicate_true_set(self, fq: str) -> Optional[set]:
        """Fold a NoteTrackIndex predicate method over all members."""
        ctx = self.ctx
        tab = ctx.fold.enum_table(ctx.cls(NTI))
        out = set()
        for name, v in tab.primaries():
            if not isinstance(v, int):
                continue
            try:
                res = ctx.fold.call_function(fq, [("val", EnumMember(NTI, name, v))], {}, 0)
            except NotConstant as e:
                raise Unproven(fq, f"cannot evaluate {fq} over NoteTrackIndex.{name}: {e}")
            if res:
                out.add(v)
        return out

    def check_index_table(self, r: Rule) -> None:
        ctx = self.ctx
        tab = ctx.fold.enum_table(ctx.cls(NTI))
        want = {"G": 0, "R": 1, "Y": 2, "B": 3, "O": 4, "FORCED": 5, "TAP": 6}
        got = {n: v for n, v in tab.primaries() if isinstance(v, int)}
        c = ctx.cls(NTI)
        for n, v in want.items():
            r.inst(f"NoteTrackIndex.{n} = {got.get(n)}", nontrivial=False)
            if got.get(n) != v:
                fail(r, ctx, c, c.node, f"NoteTrackIndex.{n} must be {v} (file format: N 0-4 lanes G,R,Y,B,O; 5 forced; 6 tap; 7 "
                                        f"open); found {got.get(n)}")
        opens = [n for n, v in got.items() if v == 7]
        r.inst(f"NoteTrackIndex open = {opens}", nontrivial=False)
        if not opens:
            fail(r, ctx, c, c.node, "no NoteTrackIndex member has value 7 (open note)")
        if sorted(got.values()) != list(range(8)):
            fail(r, ctx, c, c.node, f"NoteTrackIndex primary values must be exactly 0..7; found {sorted(got.values())}")
        for n, v, p in tab.aliases():
            colour = {"GREEN": 0, "RED": 1, "YELLOW": 2, "BLUE": 3, "ORANGE": 4, "OPEN": 7}.get(n)
            if colour is not None and v != colour:
                fail(r, ctx, c, c.node, f"alias NoteTrackIndex.{n} = {v}, expected {colour}")

    def check_note_table(self, r: Rule) -> None:
        ctx = self.ctx
        c = ctx.cls(NOTE)
        tab = ctx.fold.enum_table(c)
        prim = [(n, v) for n, v in tab.primaries() if isinstance(v, tuple)]
        vals = [v for n, v in prim]
        import itertools

        allv = set(itertools.product((0, 1), repeat=5))
        if set(vals) != allv or len(vals) != 32:
            fail(r, ctx, c, c.node, f"primary Note values must be exactly the 32 five-bit tuples, all distinct; found "
                                    f"{len(vals)} values, missing {sorted(allv - set(vals))[:4]}")
        letters = "GRYBO"
        for n, v in prim:
            r.inst(f"Note.{n} = {v}", nontrivial=False)
            if v == (0, 0, 0, 0, 0):
                continue
            want = "".join(l for l, b in zip(letters, v) if b)
            if n != want:
                fail(r, ctx, c, c.node, f"Note.{n} has lanes {want}: name and bits disagree (lane order G,R,Y,B,O)")
        words = {"GREEN": 0, "RED": 1, "YELLOW": 2, "BLUE": 3, "ORANGE": 4}
        for n, v, p in tab.aliases():
            if not isinstance(v, tuple):
                continue
            r.inst(f"alias Note.{n} = {v}", nontrivial=False)
            if n == "OPEN":
                if v != (0, 0, 0, 0, 0):
                    fail(r, ctx, c, c.node, f"Note.OPEN must be the empty lane set; found {v}")
                continue
            parts = n.split("_")
            if all(p_ in words for p_ in parts):
                want_v = tuple(1 if i in {words[p_] for p_ in parts} else 0 for i in range(5))
                if v != want_v:
                    fail(r, ctx, c, c.node, f"alias Note.{n} = {v}, but its colour words name {want_v}")

    def check_lane_store(self, r: Rule) -> None:
        """C02 P4: lanes[d.note_track_index.value] = 1 for every datum of the group; only indices >= 5 ignored."""
        ctx = self.ctx
        f = ctx.func(f"{NOTE}.from_parsed_datas")
        s = ctx.summary(f)
        r.inst(f"{f.qual}: lane store")
        ps = f.params()
        datas = ("param", ps[1])
        ex = live_exits(s)
        if len(ex) != 1 or ex[0].kind != "ret" or ex[0].cond or ex[0].loops:
            fail(r, ctx, f, f.node, f"lane computation must return once after visiting all data; found "
                 + "; ".join(f"{e.kind} if {cond_str(e.cond)[:80]} in-loop={bool(e.loops)}" for e in ex))
            return
        LIST0 = ("binop", "*", ("list", (("const", 0),)), ("const", 5))
        LIST0b = ("list", (("const", 0),) * 5)
        v = ex[0].value
        pat = ("call", ("?or", ("clsparam", NOTE), ("class", NOTE)), (("call", ("builtin", "tuple"), (("?", "L"),), ()),), ())
        b = match(pat, v)
        if b is None or (match(LIST0, b["L"]) is None and match(LIST0b, b["L"]) is None):
            fail(r, ctx, f, ex[0].node, f"lanes must be Note(tuple(five zero-initialised slots)); found {show(v)[:160]}")
            return
        L = b["L"]
        if len(s.loops) != 1:
            fail(r, ctx, f, f.node, f"lane computation must be one loop over the group's data; found {len(s.loops)} loops")
            return
        loop = next(iter(s.loops.values()))
        if loop.kind != "for" or strip(loop.iter) != datas:
            fail(r, ctx, f, loop.node, f"lane loop must visit every datum of the group; iterates {show(loop.iter) if loop.iter else '?'}")
        elem = ("elem", loop.id)
        stores = [e for e in s.effects if e.kind == "store_sub" and e.target == L]
        for e in s.effects:
            if e not in stores:
                fail(r, ctx, f, e.node, f"lane computation has an extra effect {e.kind} on {show(e.target)[:60]}")
        if len(stores) != 1:
            fail(r, ctx, f, loop.node, f"exactly one lane store per datum expected; found {len(stores)}")
            return
        st = stores[0]
        if strip(st.key) != ("attr", ("attr", elem, "note_track_index"), "value") or st.value != ("const", 1):
            fail(r, ctx, f, st.node, f"lane store must be lanes[d.note_track_index.value] = 1 for the loop's own datum; found "
                                     f"lanes[{show(st.key)}] = {show(st.value)}")
        for e in [x for x in s.exits if x.kind == "break" or (x.kind in ("ret", "raise") and x.loops)]:
            fail(r, ctx, f, e.node, f"lane loop can leave early ({e.kind}): later lines of the same tick would be ignored")
        for e in [x for x in s.exits if x.kind == "continue"]:
            # `continue` is admissible only as the flag-line handler (the last thing the iteration would do anyway)
            if not any(a[0] == "raises" and p for a, p in e.cond):
                fail(r, ctx, f, e.node, "lane loop skips the rest of an iteration outside the IndexError handler")
        extra = [(a, p) for a, p in st.cond if a[0] not in ("inloop", "raises")]
        guarded_by_pred = False
        for a, p in extra:
            # a predicate over the datum's index whose true-set is exactly the lanes 0..4
            fq = None
            if a[0] == "call" and a[1][0] == "func":
                fq = a[1][1]
            if fq is not None and p:
                ts = self.lane_predicate_true_set(fq)
                if ts == {0, 1, 2, 3, 4}:
                    guarded_by_pred = True
                    continue
            fail(r, ctx, f, st.node, f"lane store is conditional on {cond_str(((a, p),))[:120]}: some lane lines would not set "
                                     f"their lane")
        if not guarded_by_pred:
            # must sit in a try that catches exactly IndexError, inside the loop, with only the store in its body
            if not st.trys:
                fail(r, ctx, f, st.node, "lane store for indices >= 5 (forced/tap/open) is neither guarded by a lane predicate "
                                         "nor inside `try/except IndexError`: flag lines would raise")
            else:
                tid, handlers = st.trys[-1]
                ti = s.trys[tid]
                names = [exc_name(h) for hs in handlers if hs is not None for h in hs]
                if any(hs is None for hs in handlers) or names != ["builtins.IndexError"]:
                    fail(r, ctx, f, ti.node, f"the handler around the lane store must catch exactly IndexError; it catches "
                                             f"{names or 'everything'}")
                inside = any(n is ti.node or n is getattr(ti.node, "_origin", None) for n in ast.walk(loop.node))
                if not inside:
                    fail(r, ctx, f, ti.node, "the IndexError handler must be inside the loop (per datum); around the whole loop "
                                             "the first flag/open line aborts the scan and later lane lines of the tick are lost")
                def cannot_index(stmt_):
                    # a plain assignment of an attribute chain / name / constant to a local: no subscript, no call, nothing that
                    # could raise (let alone IndexError) apart from the AttributeError the store itself would raise as well
                    if not (isinstance(stmt_, ast.Assign) and len(stmt_.targets) == 1 and isinstance(stmt_.targets[0], ast.Name)):
                        return False
                    return all(isinstance(n_, (ast.Attribute, ast.Name, ast.Constant, ast.Load)) for n_ in ast.walk(stmt_.value))
                others = [b_ for b_ in ti.node.body if not any(n_ is st.node for n_ in ast.walk(b_))]
                if len(ti.node.body) - len(others) != 1 or not all(cannot_index(b_) for b_ in others):
                    fail(r, ctx, f, ti.node, "the try body around the lane store contains other statements whose IndexError "
                                             "would be swallowed too")
                for h in ti.node.handlers:
                    if not all(isinstance(x, (ast.Pass, ast.Continue)) for x in h.body):
                        fail(r, ctx, f, ti.node, "the IndexError handler does more than skip the flag line")

    # ------------------------------------------------------------------ sustains
    def check_sustain(self, r_sel: Rule, r_store: Rule, r_refine: Rule) -> None:
        ctx = self.ctx
        if self.report_problems(r_store):
            return
        sus = self.parts["kw"].get("sustain")
        datas = self.P(1)
        if sus is None or not (sus[0] == "call" and sus[1][0] == "func"):
            fail(r_store, ctx, self.f, self.parts["node"], f"event sustain must be computed from the group's data by one package "
                                                           f"function; found {show(sus)[:200] if sus else None}")
            return
        if [v for k, v in sus[3]] != [datas]:
            fail(r_store, ctx, self.f, self.parts["node"], f"sustain must be computed from the whole group `datas`; found {show(sus)[:160]}")
        f = ctx.prog.functions.get(sus[1][1])
        s = ctx.summary(f)
        ps = f.params()
        d = ("param", ps[0])
        OPENS = ("?or", ("enum", NTI, "OPEN"), ("enum", NTI, "P"))
        # ---- the open note: its own line's length, wherever that line stands in the tick group
        r_store.inst(f"{f.name}: open note -> the open line's own length, independent of line order")
        open_loops = [l for l in s.loops.values() if l.kind == "for" and l.iter is not None and strip(l.iter) == d
                      and any(e.kind == "ret" and e.loops == (l.id,) for e in s.exits)]
        first = ("sub", d, ("const", 0))
        old_form = [e for e in s.exits if any(match(("?sym", "==", ("attr", first, "note_track_index"), OPENS), a) is not None for a, p in e.cond)]
        if old_form:
            fail(r_store, ctx, f, old_form[0].node, "the open note is recognised only when its N 7 line is the *first* line of the tick "
                                                    "(datas[0]): with a forced/tap flag line written before it -- the ascending index order "
                                                    "Moonscraper uses -- the open note's length is dropped (sustain 0) and depends on line order")
        refine_f = None
        open_ok = False
        if len(open_loops) == 1:
            ol = open_loops[0]
            el = ("elem", ol.id)
            inl = [e for e in s.exits if e.loops and e.loops[-1] == ol.id]
            if len(inl) == 1 and inl[0].kind == "ret" and strip(inl[0].value) == ("attr", el, "sustain"):
                conds = [(a, p) for a, p in inl[0].cond if a[0] != "inloop"]
                open_ok = len(conds) == 1 and conds[0][1] and match(("?sym", "==", ("attr", el, "note_track_index"), OPENS), conds[0][0]) is not None
            # a value carried from one datum to the next would make the result depend on neighbours -- unless it is never read
            # as a carried value (the local of an expanded "first ... or None" helper, assigned and used within one iteration)
            reads = set()
            for root_ in [e.value for e in s.exits] + [a for e in s.exits for a, _ in e.cond] + \
                    [x for e in s.effects for x in (e.target, e.key, e.value) if isinstance(x, tuple)] + \
                    [a for e in s.effects for a, _ in e.cond] + [x for c_ in s.calls for x in list(c_.args) + [v for _, v in c_.kwargs]] + \
                    [x for l_ in s.loops.values() for x in (l_.iter, l_.test) if x is not None]:
                for tt in subterms(root_):
                    if tt[0] in ("lv", "la") and tt[1] == ol.id:
                        reads.add(tt[2])
            for n, (a_, u_) in ol.carried.items():
                if n in reads:
                    open_ok = False
        else:
            # expression form: next((d for d in datas if d.idx == OPEN), None)
            NEXT = ("call", ("builtin", "next"), (("comp", "gen", H("b"), ((H("b"), d, (("?sym", "==", ("attr", H("b"), "note_track_index"), OPENS),)),)),
                                                  ("const", None)), ())
            for e in s.rets():
                b = match(("attr", NEXT, "sustain"), e.value)
                if b is not None:
                    open_ok = True
        if not open_ok and not old_form:
            fail(r_store, ctx, f, f.node, "cannot find the open-note rule `for d in datas: if d.note_track_index == OPEN: return d.sustain` (or the "
                                          "equivalent next(...) form) in the sustain computation")
        post = [e for e in live_exits(s) if not e.loops and not any(match(("?sym", "==", ("attr", first, "note_track_index"), OPENS), a) is not None and p
                                                                    for a, p in e.cond)]
        r_store.inst(f"{f.name}: lane slots")
        if len(post) != 1 or post[0].kind != "ret":
            fail(r_store, ctx, f, f.node, f"after the open-note rule exactly one result (the refined lane slots) is expected; found "
                 + "; ".join(f"{e.kind} {show(e.value)[:60]}" for e in post))
        else:
            e = post[0]
            extra_c = [(a, p) for a, p in e.cond if not (match(("?sym", "==", ("attr", first, "note_track_index"), OPENS), a) is not None)]
            if extra_c:
                fail(r_store, ctx, f, e.node, f"the lane-slot result depends on {cond_str(tuple(extra_c))[:160]}, which the specification does not mention")
            LIST0 = ("binop", "*", ("list", (("const", None),)), ("const", 5))
            LIST0b = ("list", (("const", None),) * 5)
            pat = ("call", ("func", H("rf")), (), ((H("pname"), ("call", ("builtin", "tuple"), (H("L"),), ())),))
            b = match(pat, e.value)
            if b is None or (match(LIST0, b["L"]) is None and match(LIST0b, b["L"]) is None):
                fail(r_store, ctx, f, e.node, f"lane lengths must be refine(tuple(five None-initialised slots)); found {show(e.value)[:200]}")
            else:
                refine_f = ctx.prog.functions.get(b["rf"])
                L = b["L"]
                stores = [x for x in s.effects if x.kind == "store_sub" and x.target == L]
                for x in s.effects:
                    if x not in stores:
                        fail(r_store, ctx, f, x.node, f"sustain computation has an extra effect {x.kind} on {show(x.target)[:60]}")
                loops = [l for l in s.loops.values() if l not in open_loops]
                if len(stores) != 1 or len(loops) != 1:
                    fail(r_store, ctx, f, f.node, f"exactly one slot loop with one slot store expected; found {len(loops)} loops, {len(stores)} stores")
                else:
                    st, loop = stores[0], loops[0]
                    elem = ("elem", loop.id)
                    if strip(st.key) != ("attr", ("attr", elem, "note_track_index"), "value") or strip(st.value) != ("attr", elem, "sustain"):
                        fail(r_store, ctx, f, st.node, "slot store must be slots[d.note_track_index.value] = d.sustain for one and the same "
                                                       f"datum d; found slots[{show(st.key)}] = {show(st.value)}")
                    for x in [x for x in s.exits if x.kind in ("break", "ret", "raise") and x.loops and x.loops[-1] == loop.id]:
                        fail(r_store, ctx, f, x.node, f"slot loop can leave early ({x.kind})")
                    r_sel.inst(f"{f.name}: lane selection")
                    pred_q = None
                    it = loop.iter
                    if it is not None and it[0] == "call" and it[1] == ("builtin", "filter") and len(it[2]) == 2 and strip(it[2][1]) == d:
                        lam = it[2][0]
                        lf = (ctx.prog.lambdas.get(lam[1]) or ctx.prog.functions.get(lam[1])) if lam[0] in ("closure", "func") else None
                        if lf is not None:
                            ls = ctx.ev.summary(lf)
                            lr = ls.ret_term()
                            lp = ("param", lf.params()[0])
                            if lr is not None and lr[0] == "call" and lr[1][0] == "func" and [v for k, v in lr[3]] == [("attr", lp, "note_track_index")]:
                                pred_q = lr[1][1]
                            elif lr is not None:
                                pred_q = ("term", lr, ("attr", lp, "note_track_index"))
                    elif it is not None and strip(it) == d:
                        conds = [(a, p) for a, p in st.cond if a[0] != "inloop" and (a, p) not in e.cond]
                        if len(conds) == 1 and conds[0][1] and conds[0][0][0] == "call" and conds[0][0][1][0] == "func":
                            pred_q = conds[0][0][1][1]
                        elif len(conds) == 1 and conds[0][1]:
                            pred_q = ("term", conds[0][0], ("attr", elem, "note_track_index"))
                    if pred_q is None:
                        fail(r_sel, ctx, f, loop.node, "lane data must be selected by a predicate on the datum's own index (filter(lambda d: "
                                                       f"d.note_track_index.is_5_note(), datas)); found iterable {show(it)[:160] if it else None}")
                    else:
                        ts = self.true_set(pred_q)
                        if ts != {0, 1, 2, 3, 4}:
                            fail(r_sel, ctx, f, loop.node, f"lane-selection predicate is true for indices {sorted(ts)}; it must be true exactly "
                                                           f"for the five lanes 0..4 (flag and open lines never contribute a length; every "
                                                           f"lane must)")
        if refine_f is not None:
            self.check_refine(r_refine, refine_f)

    def true_set(self, pred) -> set:
        ctx = self.ctx
        if isinstance(pred, str):
            return self.lane_predicate_true_set(pred)
        _, term, var = pred
        tab = ctx.fold.enum_table(ctx.cls(NTI))
        out = set()
        for name, v in tab.primaries():
            if not isinstance(v, int):
                continue
            t2 = subst(term, var, ("val", EnumMember(NTI, name, v)))
            try:
                if ctx.fold.fold(t2):
                    out.add(v)
            except NotConstant as e:
                raise Unproven("lane predicate", f"cannot evaluate the lane predicate for NoteTrackIndex.{name}: {e}")
        return out

    def check_refine(self, r: Rule, f: FuncInfo) -> None:
        ctx = self.ctx
        s = ctx.summary(f)
        T = ("param", f.params()[0])
        bv = H("b")
        ALLNONE = ("call", ("builtin", "all"), (("comp", ("?or", "gen", "list"), ("?sym", "is", H("b"), ("const", None)),
                                                 ((H("b"), T, ()),)),), ())
        FIRST = ("call", ("builtin", "next"), (("comp", "gen", H("c"), ((H("c"), T, (("not", ("?sym", "is", H("c"), ("const", None))),)),)),), ())
        ALLEQ = ("call", ("builtin", "all"), (("comp", ("?or", "gen", "list"),
                                               ("or", (("?sym", "is", H("d"), ("const", None)), ("?sym", "==", H("d"), FIRST))),
                                               ((H("d"), T, ()),)),), ())
        atoms = [("all-none", is_atom(ALLNONE)), ("all-equal", is_atom(ALLEQ))]
        rows, unknown = decision_table(live_exits(s), atoms)
        unknown_atoms(r, ctx, f, s, unknown, "all slots None; all non-None slots equal the first non-None slot")
        if unknown:
            return
        for val, hit in rows:
            if val["all-none"] and not val["all-equal"]:
                continue  # inconsistent
            r.inst(f"{f.name}: {val}")
            if len(hit) != 1 or hit[0].kind != "ret":
                fail(r, ctx, f, f.node, f"refinement: {len(hit)} outcomes for {val} ({[h.kind for h in hit]})")
                continue
            e = hit[0]
            v = strip(e.value)
            if val["all-none"]:
                if v != ("const", 0):
                    fail(r, ctx, f, e.node, f"no active lane -> sustain 0; found {show(v)[:80]}")
            elif val["all-equal"]:
                if match(FIRST, v) is None:
                    fail(r, ctx, f, e.node, f"all active lanes agree -> that one number (first non-None slot); found {show(v)[:160]}")
            else:
                if not (v == T or v == ("call", ("builtin", "tuple"), (T,), ())):
                    fail(r, ctx, f, e.node, f"lanes differ -> the five-slot tuple unchanged; found {show(v)[:160]}")
        for x in s.effects:
            fail(r, ctx, f, x.node, f"refinement has a side effect ({x.kind})")

    def check_longest(self, r: Rule) -> None:
        ctx = self.ctx
        lf = getattr(self, "longest_f", None)
        if lf is None:
            # discover through the cached property
            c = ctx.cls(NOTEEVENT)
            p = c.find_method("longest_sustain")
            if p is not None:
                pr = ctx.summary(p).ret_term()
                if pr is not None and pr[0] == "call" and pr[1][0] == "func":
                    lf = ctx.prog.functions.get(pr[1][1])
        if lf is None:
            fail(r, ctx, self.f, self.f.node, "cannot find the longest-sustain helper")
            return
        s = ctx.summary(lf)
        S = ("param", lf.params()[0])
        ISINT = ("call", ("builtin", "isinstance"), (S, ("builtin", "int")), ())
        ALLNONE = ("call", ("builtin", "all"), (("comp", ("?or", "gen", "list"), ("?sym", "is", H("b"), ("const", None)),
                                                 ((H("b"), S, ()),)),), ())
        atoms = [("is-int", is_atom(ISINT)), ("all-none", is_atom(ALLNONE))]
        rows, unknown = decision_table(live_exits(s), atoms)
        unknown_atoms(r, ctx, lf, s, unknown, "isinstance(sustain, int); all slots None")
        if unknown:
            return
        MAXP = ("call", ("builtin", "max"), (("comp", ("?or", "gen", "list"), H("c"),
                                              ((H("c"), S, (("not", ("?sym", "is", H("c"), ("const", None))),)),)),), ())
        for val, hit in rows:
            r.inst(f"{lf.name}: {val}")
            if len(hit) != 1:
                fail(r, ctx, lf, lf.node, f"longest sustain: {len(hit)} outcomes for {val}")
                continue
            e = hit[0]
            if val["is-int"]:
                if e.kind != "ret" or strip(e.value) != S:
                    fail(r, ctx, lf, e.node, f"a single-number sustain is its own longest; found {e.kind} {show(e.value)[:80]}")
            elif val["all-none"]:
                if e.kind == "ret":
                    fail(r, ctx, lf, e.node, "an all-None tuple has no longest sustain (never produced by refinement); must not return a value")
            else:
                if e.kind != "ret" or match(MAXP, e.value) is None:
                    fail(r, ctx, lf, e.node, f"longest of a tuple must be max over its non-None slots; found {show(e.value)[:160]}")
        # cached properties are the same helpers on self
        c = ctx.cls(NOTEEVENT)
        p = c.find_method("longest_sustain")
        r.inst("NoteEvent.longest_sustain property")
        if p is None or strip(ctx.summary(p).ret_term()) != strip(("call", ("func", lf.qual), (), ((lf.params()[0], ("attr", ("self", NOTEEVENT), "sustain")),))):
            fail(r, ctx, p or c, (p.node if p else c.node), "NoteEvent.longest_sustain must be the same longest() helper applied to self.sustain; found "
                 + (show(ctx.summary(p).ret_term())[:160] if p else "no property"))
        p2 = c.find_method("end_tick")
        r.inst("NoteEvent.end_tick property")
        want = ("?sym", "+", ("attr", ("self", NOTEEVENT), "tick"), ("attr", ("self", NOTEEVENT), "longest_sustain"))
        want2 = ("?sym", "+", ("attr", ("self", NOTEEVENT), "tick"),
                 ("call", ("func", lf.qual), (), ((lf.params()[0], ("attr", ("self", NOTEEVENT), "sustain")),)))
        rt = ctx.summary(p2).ret_term() if p2 else None
        if p2 is None or (match(want, rt) is None and match(want2, rt) is None) or len(live_exits(ctx.summary(p2))) != 1:
            fail(r, ctx, p2 or c, (p2.node if p2 else c.node), f"NoteEvent.end_tick must be tick + longest sustain; found {show(rt)[:160] if rt else None}")

    def check_last_note_end(self, r: Rule) -> None:
        ctx = self.ctx
        c = ctx.cls(TRACK)
        p = c.find_method("last_note_end_timestamp")
        r.inst(f"{TRACK}.last_note_end_timestamp")
        if p is None:
            fail(r, ctx, c, c.node, "InstrumentTrack.last_note_end_timestamp vanished")
            return
        s = ctx.summary(p)
        NE = ("attr", ("self", TRACK), "note_events")
        atoms = [("has-notes", truthy_atom(NE))]
        rows, unknown = decision_table(live_exits(s), atoms)
        unknown_atoms(r, ctx, p, s, unknown, "self.note_events non-empty")
        if unknown:
            return
        if s.loops or s.effects:
            fail(r, ctx, p, p.node, "last-note-end must be a single max() over all notes (a hand-written scan is outside the "
                                    f"verified forms): {len(s.loops)} loops, {len(s.effects)} effects")
            return
        for val, hit in rows:
            if len(hit) != 1 or hit[0].kind != "ret":
                fail(r, ctx, p, p.node, f"last-note-end: {len(hit)} outcomes for {val}")
                continue
            e = hit[0]
            v = e.value
            if not val["has-notes"]:
                if v != ("const", None):
                    fail(r, ctx, p, e.node, f"a track without notes has no last-note end (None); found {show(v)[:80]}")
                continue
            ok = False
            m1 = match(("attr", ("call", ("builtin", "max"), (NE,), (("key", H("k")),)), "end_timestamp"), v)
            if m1 is not None and m1["k"][0] in ("closure", "func"):  # a lambda or a named single-expression key function
                lf = ctx.prog.lambdas.get(m1["k"][1]) or ctx.prog.functions.get(m1["k"][1])
                if lf is not None:
                    lr = ctx.ev.summary(lf).ret_term()
                    ok = lr == ("attr", ("param", lf.params()[0]), "end_timestamp")
            if m1 is not None and strip(m1["k"]) == ("call", ("ext", "operator.attrgetter"), (("const", "end_timestamp"),), ()):
                ok = True  # operator.attrgetter("end_timestamp") is `lambda e: e.end_timestamp`
            m2 = match(("call", ("builtin", "max"), (("comp", ("?or", "gen", "list"), ("attr", H("b"), "end_timestamp"),
                                                      ((H("b"), NE, ()),)),), ()), v)
            ok = ok or m2 is not None
            if not ok:
                fail(r, ctx, p, e.node, "last-note end must be the maximum end_timestamp over *all* notes (not the last note's, "
                                        f"not the maximum start); found {show(v)[:200]}")

    # ------------------------------------------------------------------ HOPO
    def check_hopo(self, r_table: Rule, r_atoms: Rule, r_wiring: Rule) -> None:
        ctx = self.ctx
        if self.report_problems(r_wiring):
            return
        kw, node = self.parts["kw"], self.parts["node"]
        hs = kw.get("hopo_state")
        r_wiring.inst(f"{self.f.qual}: hopo_state argument wiring")
        if hs is None or not (hs[0] == "call" and hs[1][0] == "func"):
            fail(r_wiring, ctx, self.f, node, f"hopo_state must be computed by one package function; found {show(hs)[:200] if hs else None}")
            return
        hf = ctx.prog.functions.get(hs[1][1])
        hp = hf.params()
        hk = dict(hs[3])
        datas, prev, bpm = self.P(1), self.P(2), self.P(4)
        if len(hp) != 6:
            fail(r_wiring, ctx, hf, hf.node, f"HOPO function signature {hp} is not (resolution, tick, note, is_tap, is_forced, previous)")
            return
        note_t = kw.get("note")
        NOTEC = ("call", ("func", f"{NOTE}.from_parsed_datas"), (), tuple(sorted({"cls": ("class", NOTE), "datas": datas}.items())))
        if strip(note_t) != strip(NOTEC):
            fail(r_wiring, ctx, self.f, node, f"the event's note must be Note.from_parsed_datas(datas) over the whole group; found {show(note_t)[:160]}")
        want = {
            hp[0]: ("attr", bpm, "resolution"),
            hp[1]: self.tick_term(),
            hp[2]: note_t,
            hp[5]: prev,
        }
        for k, w in want.items():
            if strip(hk.get(k)) != strip(w):
                fail(r_wiring, ctx, self.f, node, f"HOPO argument `{k}` must be {show(w)[:80]}; found {show(hk.get(k))[:120]}")
        for k, member in ((hp[3], "TAP"), (hp[4], "FORCED")):
            b = match(any_index(datas, member), hk.get(k))
            okb = False
            if b is not None:
                okb = match(("?sym", "==", ("attr", b["bv"], "note_track_index"), ("enum", NTI, member)), b["elt"]) is not None
            if not okb:
                fail(r_wiring, ctx, self.f, node, f"flag `{k}` must be any(d.note_track_index == NoteTrackIndex.{member} for d in datas) "
                                                  f"over the whole group, independent of line order; found {show(hk.get(k))[:200]}")
        # the decision function
        s = ctx.summary(hf)
        res, tick, note, is_tap, is_forced, previous = (("param", x) for x in hp)
        chord_terms: list = []

        def chord(t: Term) -> Optional[bool]:
            # any term over `note` alone that folds to popcount > 1 on all 32 notes
            if t[0] in ("not", "and", "or", "const"):
                return None
            params = {x for x in subterms(t) if x[0] == "param"}
            if params != {note}:
                return None
            tab = ctx.fold.enum_table(ctx.cls(NOTE))
            vals = []
            for n, v in tab.primaries():
                if not isinstance(v, tuple):
                    continue
                try:
                    vals.append((sum(v) > 1, bool(ctx.fold.fold(subst(t, note, ("val", EnumMember(NOTE, n, v)))))))
                except NotConstant:
                    return None
            if all(a == b for a, b in vals):
                if t not in chord_terms:
                    chord_terms.append(t)
                return True
            if all(a != b for a, b in vals):
                return False
            return None

        den: list = []

        def within(t: Term) -> Optional[bool]:
            pat = ("cmp", "<=", ("binop", "-", tick, ("attr", previous, "tick")),
                   ("call", ("builtin", "round"), (("binop", "/", res, H("den")),), ()))
            b = match(pat, t)
            if b is None:
                if t[0] == "not":
                    x = within(t[1])
                    return None if x is None else (not x)
                return None
            try:
                d = ctx.fold.fold(b["den"])
            except NotConstant:
                return None
            den.append(d)
            return True if d == 3 else None

        atoms = [
            ("tap", is_atom(is_tap)),
            ("forced", is_atom(is_forced)),
            ("first", opt_atom(previous)),
            ("within", within),
            ("differs", lambda t: (False if match(("?sym", "==", note, ("attr", previous, "note")), t) is not None else
                                   (True if t[0] == "not" and match(("?sym", "==", note, ("attr", previous, "note")), t[1]) is not None else None))),
            ("chord", chord),
        ]
        rows, unknown = decision_table(live_exits(s), atoms)
        for a in ("tap flag", "forced flag", "no predecessor", "tick - previous.tick <= round(resolution / 3)", "note != previous.note", "chord (more than one lane)"):
            r_atoms.inst(f"{hf.name}: atom `{a}`")
        unknown_atoms(r_atoms, ctx, hf, s, unknown, "is_tap; is_forced; previous is None; tick - previous.tick <= round(resolution/3) "
                                                    "[eighth-note triplet, inclusive, nearest tick]; note != previous.note; chord = more "
                                                    "than one lane")
        if unknown:
            return
        for x in s.effects:
            fail(r_table, ctx, hf, x.node, f"HOPO function has a side effect ({x.kind})")
        for val, hit in rows:
            T_, F_, N_, W_, D_, C_ = (val[k] for k in ("tap", "forced", "first", "within", "differs", "chord"))
            if N_ and F_:
                continue  # unconstrained by the statement (ValueError today)
            if T_:
                want_state = "TAP"
            elif N_:
                want_state = "STRUM"
            else:
                natural = W_ and D_ and not C_
                want_state = "HOPO" if (natural != F_) else "STRUM"
            r_table.inst(f"tap={int(T_)} forced={int(F_)} first={int(N_)} within={int(W_)} differs={int(D_)} chord={int(C_)} -> {want_state}")
            if len(hit) != 1:
                fail(r_table, ctx, hf, hf.node, f"HOPO table: {len(hit)} outcomes for {val}")
                continue
            e = hit[0]
            got = resolve_ite(e.value, atoms, val) if e.kind == "ret" else None
            if e.kind != "ret" or strip(got) != ("enum", HOPOSTATE, want_state):
                fail(r_table, ctx, hf, e.node,
                     f"for tap={T_} forced={F_} first-note={N_} within-threshold={W_} differs={D_} chord={C_} the state must be "
                     f"{want_state}; found {e.kind} {show(got if got else e.value)[:80]}")

    # ------------------------------------------------------------------ star power
    def check_special_atoms(self, r: Rule) -> None:
        """C05 P1: after(p,t) <=> t >= p.tick + p.sustain; during(p,t) <=> p.tick <= t and not after(p,t)."""
        ctx = self.ctx
        c = ctx.cls(SPECIAL)
        S = ("self", SPECIAL)
        end = c.find_method("end_tick")
        END = ("?sym", "+", ("attr", S, "tick"), ("attr", S, "sustain"))
        r.inst("SpecialEvent.end_tick = tick + sustain")
        if end is not None:
            se = ctx.summary(end)
            if len(live_exits(se)) != 1 or match(END, se.ret_term()) is None or se.effects:
                fail(r, ctx, end, end.node, f"a phrase's end tick must be tick + sustain; found {show(se.ret_term())[:120]}")
            ENDT = ("?or", ("attr", S, "end_tick"), END)
        else:
            ENDT = END
        af = c.find_method("tick_is_after_event")
        du = c.find_method("tick_is_during_event")
        r.inst("SpecialEvent.tick_is_after_event: tick >= end")
        r.inst("SpecialEvent.tick_is_during_event: start <= tick and not after")
        if af is None or du is None:
            fail(r, ctx, c, c.node, "tick_is_after_event / tick_is_during_event vanished")
            return
        sa = ctx.summary(af)
        t = ("param", af.params()[1])
        AFTER = ("cmp", "<=", ENDT, t)
        if len(live_exits(sa)) != 1 or match(AFTER, sa.ret_term()) is None or sa.effects:
            fail(r, ctx, af, af.node, f"after(p, t) must be exactly t >= p.tick + p.sustain (half-open: the end tick is outside); "
                                      f"found {show(sa.ret_term())[:200]}")
        sd = ctx.summary(du)
        t2 = ("param", du.params()[1])
        AFTER2 = ("?or", ("cmp", "<=", ENDT, t2), ("call", ("func", af.qual), (), tuple(sorted({"self": S, af.params()[1]: t2}.items()))))
        DUR = ("and", (("cmp", "<=", ("attr", S, "tick"), t2), ("not", AFTER2)))
        DUR2 = ("and", (("cmp", "<=", ("attr", S, "tick"), t2), ("cmp", "<", t2, ENDT)))
        rt = sd.ret_term()
        if len(live_exits(sd)) != 1 or (match(DUR, rt) is None and match(DUR2, rt) is None) or sd.effects:
            fail(r, ctx, du, du.node, f"during(p, t) must be exactly p.tick <= t and not after(p, t); found {show(rt)[:200]}")

    def check_star_power(self, r_scan: Rule, r_tail: Rule, r_wiring: Rule) -> None:
        ctx = self.ctx
        if self.report_problems(r_wiring):
            return
        kw, node = self.parts["kw"], self.parts["node"]
        spd = kw.get("star_power_data")
        r_wiring.inst(f"{self.f.qual}: star_power_data / cursor wiring")
        pat = ("proj", ("?", "sp", ("call", ("func", H("spf")), (), ANYP)), 0)
        b = match(pat, spd)
        if b is None:
            fail(r_wiring, ctx, self.f, node, f"star_power_data must be component 0 of one star-power lookup; found {show(spd)[:200] if spd else None}")
            return
        sp = b["sp"]
        if strip(self.parts["i2"]) != strip(("proj", sp, 1)):
            fail(r_wiring, ctx, self.f, node, "the star-power cursor handed to the next note must be component 1 of the same lookup; "
                                              f"found {show(self.parts['i2'])[:160]}")
        sf = ctx.prog.functions.get(b["spf"])
        sps = sf.params()
        sk = dict(sp[3])
        if len(sps) != 3:
            fail(r_wiring, ctx, sf, sf.node, f"star-power lookup signature {sps} is not (tick, events, cursor)")
            return
        want = {sps[0]: self.tick_term(), sps[1]: self.P(3), sps[2]: self.P(6)}
        for k, w in want.items():
            if strip(sk.get(k)) != strip(w) and not (k == sps[2] and sk.get(k) == ("const", 0)):
                fail(r_wiring, ctx, self.f, node, f"star-power lookup argument `{k}` must be {show(w)[:80]}; found {show(sk.get(k))[:120]}")
        # the lookup itself
        s = ctx.summary(sf)
        tick, evs, cur = (("param", x) for x in sps)
        LEN = ("call", ("builtin", "len"), (evs,), ())
        loops = list(s.loops.values())
        r_scan.inst(f"{sf.qual}: first-not-after scan from the carried cursor")
        if len(loops) != 1 or loops[0].kind != "for":
            fail(r_scan, ctx, sf, sf.node, f"star-power lookup must be one forward `for k in range(cursor, len(events))` scan with a "
                                           f"break (schema S2); found {[(l.kind) for l in loops]}: a single step or a different scan "
                                           f"cannot skip several ended phrases")
            return
        loop = loops[0]
        it = loop.iter
        if not (it is not None and it[0] == "call" and it[1] == ("builtin", "range") and len(it[2]) == 2):
            fail(r_scan, ctx, sf, loop.node, f"scan iterable must be range(cursor, len(events)); found {show(it)[:120] if it else None}")
        else:
            lo, hi = it[2]
            if strip(lo) != cur:
                fail(r_scan, ctx, sf, loop.node, f"scan must start at the carried cursor; starts at {show(lo)}")
            if match(LEN, hi) is None:
                fail(r_scan, ctx, sf, loop.node, f"scan must run to the end of the phrase list; ends at {show(hi)}")
        elem = ("elem", loop.id)
        tname = loop.target.id if isinstance(loop.target, ast.Name) else None
        la = ("la", loop.id, tname)
        P_EL = ("sub", evs, elem)
        S = ("self", SPECIAL)
        c = ctx.cls(SPECIAL)
        af = c.find_method("tick_is_after_event")

        def after_of(p: Any, t: Any) -> tuple:
            ENDT = ("?or", ("attr", p, "end_tick"), ("?sym", "+", ("attr", p, "tick"), ("attr", p, "sustain")))
            alts = [("cmp", "<=", ENDT, t)]
            if af is not None:
                alts.append(("call", ("func", af.qual), (), tuple(sorted({"self": p, af.params()[1]: t}.items()))))
                alts.append(("call", ("meth", "tick_is_after_event"), (p, t), ()))
            return ("?or",) + tuple(alts)

        inl = [e for e in s.exits if e.loops]
        brk = [e for e in inl if e.kind == "break"]
        for e in inl:
            if e.kind != "break":
                fail(r_scan, ctx, sf, e.node, f"unexpected {e.kind} inside the star-power scan")
        pre_conds = None
        if len(brk) != 1:
            fail(r_scan, ctx, sf, loop.node, f"scan must break exactly once, at the first phrase that is not entirely before the "
                                             f"note; found {len(brk)} break(s)")
        else:
            e = brk[0]
            idx = [k for k, (a, p) in enumerate(e.cond) if a[0] == "inloop"]
            inner = e.cond[idx[0] + 1:] if idx else e.cond
            pre_conds = e.cond[:idx[0]] if idx else ()
            if not (len(inner) == 1 and inner[0][1] is False and match(after_of(P_EL, tick), inner[0][0]) is not None):
                fail(r_scan, ctx, sf, e.node, "scan must stop at the first phrase p with not after(p, tick) -- `during` would skip a "
                                              "phrase that starts later, `after` with another comparison changes the half-open "
                                              f"interval; found break when {cond_str(tuple(inner))[:200]}")
        for x in s.effects:
            fail(r_scan, ctx, sf, x.node, f"star-power lookup has a side effect ({x.kind})")
        for n, (a, u) in loop.carried.items():
            fail(r_scan, ctx, sf, loop.node, f"scan body rebinds `{n}`")
        # guards + tail
        P_LA = ("sub", evs, la)
        DUR = ("and", (("cmp", "<=", ("attr", P_LA, "tick"), tick), ("not", after_of(P_LA, tick))))
        du = c.find_method("tick_is_during_event")
        DURALTS = [DUR]
        if du is not None:
            DURALTS.append(("call", ("func", du.qual), (), tuple(sorted({"self": P_LA, du.params()[1]: tick}.items()))))
        atoms = [("events", truthy_atom(evs)), ("cursor>=len", icmp_atom(LEN, cur, 0)),
                 ("during", is_atom(("?or",) + tuple(DURALTS)))]
        post = [e for e in live_exits(s) if not e.loops]
        rows, unknown = decision_table(post, atoms)
        unknown_atoms(r_tail, ctx, sf, s, unknown, "events non-empty; cursor >= len(events); during(events[k], tick) for the k the scan "
                                                   "stopped at")
        if unknown:
            return
        for val, hit in rows:
            r_tail.inst(f"{sf.name}: {val}")
            if not val["events"]:
                if val["cursor>=len"] is False:
                    continue  # len == 0 and cursor < 0: not a reachable combination for cursor >= 0
                want = ("tuple", (("const", None), ("const", 0)))
                if len(hit) != 1 or hit[0].kind != "ret" or strip(hit[0].value) not in (want, ("const", (None, 0))):
                    fail(r_tail, ctx, sf, (hit[0].node if hit else sf.node), f"no phrases -> (None, 0); found {[show(h.value)[:60] for h in hit]}")
                continue
            if val["cursor>=len"]:
                if len(hit) != 1 or hit[0].kind != "raise" or not exc_is(ctx, exc_name(hit[0].value), "builtins.ValueError"):
                    fail(r_tail, ctx, sf, (hit[0].node if hit else sf.node), "a cursor beyond the phrase list must raise ValueError; found "
                         + str([h.kind for h in hit]))
                continue
            if len(hit) != 1 or hit[0].kind != "ret":
                fail(r_tail, ctx, sf, sf.node, f"star-power tail: {len(hit)} outcomes for {val}")
                continue
            v = strip(resolve_ite(hit[0].value, atoms, val))
            if val["during"]:
                want = ("tuple", (("call", ("class", SPDATA), (), (("star_power_event_index", la),)), la))
            else:
                want = ("tuple", (("const", None), la))
            if v != strip(want):
                fail(r_tail, ctx, sf, hit[0].node, f"for during={val['during']} the result must be {show(want)}; found {show(v)[:200]}")
