"""C03 -- sustains, end tick, end time and last-note-end are faithful to the lines."""
from .notes import Notes

LEVEL = "other"


def run(ctx, rep):
    rep.explanation = (
        "Lane selection is a predicate folded over all NoteTrackIndex members (true set must be exactly {0..4}); the slot "
        "store must be slots[d.index.value] = d.sustain for the same datum; the refinement and the longest-sustain helper "
        "are compared as decision tables over their own all()/isinstance atoms; end tick / end time are term-matched at the "
        "construction site (end = Q0(tick + longest(sustain)) for the very sustain stored); the track aggregator must be max over "
        "end_timestamp of all notes.")
    N = Notes(ctx)
    rsel = rep.rule("selection", "lane data = exactly indices 0..4", floor=1)
    rst = rep.rule("slot-store", "slots[d.index.value] = d.sustain, None-initialised, open-first returns its own length", floor=2)
    rre = rep.rule("refine", "all None -> 0; all equal -> that value; else the tuple", floor=3)
    N.check_sustain(rsel, rst, rre)
    rw = rep.rule("end-wiring", "end_timestamp = Q0(tick + longest(sustain)), sustain stored = the same term", floor=1)
    N.check_time_wiring(rw)
    rl = rep.rule("longest", "longest = the int, or max over non-None slots; cached properties are the same helpers on self", floor=5)
    N.check_longest(rl)
    ra = rep.rule("last-note-end", "max over end_timestamp of all notes; None iff no notes", floor=1)
    N.check_last_note_end(ra)
    ri = rep.rule("index-table", "lane indices 0..4, flags 5/6, open 7", floor=7)
    N.check_index_table(ri)
    # the statement speaks of the exact tempo-map time (of the end tick / of a tick bound): all premises of C01's argument
    from .C01 import exact_time_premises
    exact_time_premises(ctx, rep, prefix="time.")
    rgr = rep.rule("S1", "the lines whose lengths a note reports are exactly its tick's lines (group-adjacent schema)", floor=1)
    N.check_grouping(rgr)
    rch = rep.rule("chain", "file -> lines (read().splitlines(), utf-8-sig) -> framing -> section route -> dispatcher -> builders: every link "
                            "hands the lines on unchanged", floor=10)
    from .chain import check_chain
    check_chain(ctx, rch, "instrument", strict=True, recognisers=("chartparse.instrument.NoteEvent.ParsedData",))
    # "end timestamp is the tempo-map time of the end tick": the query itself (C01 P1/P4, C11 index)
    T = N.T
    rq = rep.rule("query", "Q = governing event's time + us(sec(offset)); index function guards + scan; seconds formula", floor=5)
    T.check_Q(rq)
    T.check_index(rq, rq)
    T.check_sec_formula(rq)
    T.check_sec_monotone(rq)
