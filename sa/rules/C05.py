"""C05 -- star-power membership of notes is exact and half-open."""
from .notes import Notes

LEVEL = "other"


def run(ctx, rep):
    rep.explanation = (
        "after/during are term-matched (t >= tick + sustain; tick <= t and not after): half-open, zero-length covers nothing. "
        "The lookup is matched against the first-hit forward scan schema S2 from the carried cursor with predicate not after, "
        "its tail against a decision table; the cursor threaded through the grouping loop must be the component the builder "
        "derives from its own star-power lookup (never the tempo cursor), starting at 0.")
    N = Notes(ctx)
    r1 = rep.rule("atoms", "after(p,t) <=> t >= p.tick + p.sustain; during(p,t) <=> p.tick <= t and not after(p,t)", floor=3)
    N.check_special_atoms(r1)
    r2 = rep.rule("scan", "for k in range(cursor, len): break at first not after(events[k], tick)", floor=1)
    r3 = rep.rule("tail", "empty -> (None,0); cursor >= len -> ValueError; during ? (StarPowerData(k), k) : (None, k)", floor=4)
    r4 = rep.rule("wiring", "lookup receives own tick, the track's phrase list and the carried star-power cursor", floor=1)
    N.check_star_power(r2, r3, r4)
    r5 = rep.rule("S1", "grouping loop (order of notes, one lookup per note)", floor=1)
    r6 = rep.rule("cursor", "star-power cursor: init 0, passed to its own keyword, rebound from its own result component", floor=1)
    N.check_grouping(r5, r6)
    r7 = rep.rule("phrases", "phrase list handed to the note builder is the track's own star-power event list, built in file order", floor=1)
    from .dispatch import check_track_sections
    check_track_sections(ctx, r7, which="instrument")
    rch = rep.rule("chain", "file -> lines (read().splitlines(), utf-8-sig) -> framing -> section route -> dispatcher -> builders: every link "
                            "hands the lines on unchanged", floor=10)
    from .chain import check_chain
    check_chain(ctx, rch, "instrument", strict=True, recognisers=("chartparse.instrument.NoteEvent.ParsedData", "chartparse.instrument.StarPowerEvent.ParsedData"))
    rfo = rep.rule("folds", "each kind's data are folded datum by datum, in order, by that kind's own builder with its predecessor and the tempo map", floor=6)
    from .timing import Timing as _T
    _T(ctx).check_folds(rfo)
