"""C10 -- metadata fields decode independently, verbatim, with documented defaults."""
from .. import rx
from ..constfold import Callable_, EnumMember, FoldedObject, NotConstant, Regex
from ..match import ANYP, H, match, strip
from ..terms import show, subterms
from .lang import P, b, D, check_pairwise_disjoint, impl_pattern
from .lib import exc_name, fail, live_exits

LEVEL = "proof"
META = "chartparse.metadata.Metadata"
RNM = "chartparse.exceptions.RegexNotMatchError"
MRF = "chartparse.exceptions.MissingRequiredField"
P2 = "chartparse.metadata.Player2Instrument"

# documented table (property statement / file format): field -> (kind, default)   REQUIRED = no default
REQ = object()
FIELDS = {
    "resolution": ("int", REQ), "offset": ("int", 0), "player2": ("p2", "BASS"), "difficulty": ("int", 0),
    "preview_start": ("int", 0), "preview_end": ("int", 0), "genre": ("str", "rock"), "media_type": ("str", "cd"),
    "name": ("str", None), "artist": ("str", None), "charter": ("str", None), "album": ("str", None), "year": ("str", None),
    "music_stream": ("str", None), "guitar_stream": ("str", None), "rhythm_stream": ("str", None), "bass_stream": ("str", None),
    "drum_stream": ("str", None), "drum2_stream": ("str", None), "drum3_stream": ("str", None), "drum4_stream": ("str", None),
    "vocal_stream": ("str", None), "keys_stream": ("str", None), "crowd_stream": ("str", None),
}


def pascal(snake: str) -> str:
    return "".join(w[:1].upper() + w[1:] for w in snake.split("_"))


def canon_for(field: str, kind: str):
    F = pascal(field)
    if kind == "str":
        return rf'{b}*{F} = "(?P<value>[^\n]+)"{b}*'
    if kind == "int":
        return rf"{b}*{F} = (?P<value>{D}+){b}*"
    return rf"{b}*{F} = (?P<value>bass|rhythm){b}*"


def run(ctx, rep):
    rep.explanation = (
        "The 24 field recognisers are recovered by constant folding through the spec classes' __init__ chains and the regex "
        "factory; decided by automata for all strings: 276 pairwise intersections empty (no line can feed two fields, so order and "
        "other fields' values are irrelevant), 24 canonical inclusions, 24 capture-exactness checks under backtracking priority "
        "(inner text verbatim, one pair of quotes removed, closing quote = last quote), numeric groups ⊆ \\d+.  Agreement table with "
        "24 rows: dataclass field <-> spec key <-> literal passed to set_kwarg/maybe_set_kwarg <-> Pascal name in the folded regex <-> "
        "conversion <-> annotated type.  The scan visits all lines (list(lines_iter)), returns at the first matching line, stores under "
        "the same key; only resolution goes through the raising callback (MissingRequiredField); defaults fold to the documented table.")
    rep.trusted += ["re._parser", "ordered-thread simulation == sre backtracking (validated in selftest/rx_validate.py)"]
    mc = ctx.cls(META)
    mod = ctx.prog.modules["chartparse.metadata"]
    f = ctx.func(f"{META}.from_chart_lines")
    s = ctx.summary(f)
    ra = rep.rule("agreement", "field <-> spec key <-> call literal <-> regex name <-> conversion <-> type", floor=24)
    rd = rep.rule("defaults", "dataclass defaults = documented table; resolution required", floor=24)
    rl = rep.rule("language", "every canonical 'Field = value' line is accepted by its own field's recogniser", floor=24)
    rc = rep.rule("capture", "captured value = inner text verbatim (one pair of quotes removed) / the digits / the word", floor=24)
    rx_ = rep.rule("disjoint", "pairwise disjoint field languages (276 pairs)", floor=276)
    rs = rep.rule("scan", "all lines scanned, first matching line wins, same key stored, required field raises", floor=3)
    # ---- spec dict
    specs_t = None
    gname = None
    for name in mod.assigns:
        t = ctx.ev.global_value(mod, name)
        if t[0] == "dict" and len(t[1]) >= 20:
            specs_t, gname = t, name
    if specs_t is None:
        fail(ra, ctx, f, f.node, "cannot find the module-level field-spec table (a dict literal with one entry per field)")
        return
    try:
        specs = ctx.fold.fold(specs_t)
    except NotConstant as e:
        fail(ra, ctx, f, f.node, f"the field-spec table does not fold to constants: {e}")
        return
    SPECS = ("gvar", f"chartparse.metadata.{gname}")
    # ---- scan helpers (nested functions evaluated in the enclosing environment)
    nested = {n: g for n, g in f.nested.items()}
    method = "match"
    lines_ok = False
    parse_f = None
    for n, g in nested.items():
        env = s.defs.get(n)
        gs = ctx.ev.evaluate(g, {}, env, 0)
        if gs.loops:
            parse_f = (g, gs)
    kwargs_alloc = None
    rets = s.rets()
    if len(rets) == 1 and rets[0].value[0] == "call" and rets[0].value[1][0] in ("clsparam", "class"):
        kwd = dict(rets[0].value[3])
        kwargs_alloc = kwd.get("**")
        rs.inst("Metadata(**kwargs) with the fresh dict filled by the scan")
        if kwargs_alloc is None or rets[0].value[2] or len(kwd) != 1 or not (kwargs_alloc[0] == "dict" or
                                                                            kwargs_alloc == ("call", ("builtin", "dict"), (), ())):
            fail(rs, ctx, f, rets[0].node, f"the result must be Metadata(**kwargs) for the dict filled field by field; found {show(rets[0].value)[:160]}")
    else:
        fail(rs, ctx, f, f.node, "Metadata.from_chart_lines must return one Metadata construction")
    if parse_f is None:
        fail(rs, ctx, f, f.node, "cannot find the per-field line scan (a nested function with a loop over the lines)")
    else:
        g, gs = parse_f
        fname = ("param", g.params()[0])
        SP = ("sub", SPECS, fname)
        loop = next(iter(gs.loops.values()))
        rs.inst(f"{g.name}: scan over list(lines_iter), first match returns")
        lp = ("param", f.params()[1])
        if strip(loop.iter) != ("call", ("builtin", "list"), (lp,), ()) and strip(loop.iter) != lp:
            fail(rs, ctx, g, loop.node, f"every field must be looked for in *all* the section's lines (lines = list(lines_iter)); the scan "
                                        f"iterates {show(loop.iter)[:160] if loop.iter else None} -- a pre-filter drops legitimate values")
        line = ("elem", loop.id)
        Mp = ("call", ("meth", H("method")), (("attr", SP, "regex_prog"), line), ())
        inl = [e for e in live_exits(gs) if e.loops]
        post = [e for e in live_exits(gs) if not e.loops]
        okr = False
        if len(inl) == 1 and inl[0].kind == "ret":
            conds = [(a, p) for a, p in inl[0].cond if a[0] != "inloop"]
            if len(conds) == 1 and not conds[0][1] and conds[0][0][0] == "cmp" and conds[0][0][1] == "is" and ("const", None) in conds[0][0][2:]:
                other = conds[0][0][3] if conds[0][0][2] == ("const", None) else conds[0][0][2]
                conds = [(other, True)]  # `m is None` false  ==  m truthy
            bm = match(Mp, conds[0][0]) if len(conds) == 1 and conds[0][1] else None
            if bm is not None and bm["method"] in ("match", "fullmatch", "search"):
                method = bm["method"]
                Mt = conds[0][0]
                want = ("call", ("meth", "processing_fn"), (SP, ("call", ("meth", "group"), (Mt, ("const", 1)), ())), ())
                want2 = ("call", ("attr", SP, "processing_fn"), (("call", ("meth", "group"), (Mt, ("const", 1)), ()),), ())
                okr = strip(inl[0].value) in (strip(want), strip(want2))
        if not okr:
            fail(rs, ctx, g, loop.node, "the scan must return spec.processing_fn(m.group(1)) at the first line its own field's recogniser matches; found "
                 + "; ".join(f"{e.kind} {show(e.value)[:120]} if {show(e.cond[-1][0])[:80] if e.cond else ''}" for e in inl)[:400])
        if len(post) != 1 or post[0].kind != "raise" or exc_name(post[0].value) != RNM:
            fail(rs, ctx, g, g.node, "when no line matches the scan must raise RegexNotMatchError (the 'field absent' signal)")
        for e in gs.effects:
            fail(rs, ctx, g, e.node, f"the scan has a side effect ({e.kind})")
    # ---- setters
    setters = {}
    for n, g in nested.items():
        if parse_f is not None and g is parse_f[0]:
            continue
        env = s.defs.get(n)
        gs = ctx.ev.evaluate(g, {}, env, 0)
        setters[n] = (g, gs)
    raising = set()
    storing = set()
    for n, (g, gs) in setters.items():
        fname = ("param", g.params()[0])
        st = [e for e in gs.effects if e.kind == "store_sub"]
        if st:
            storing.add(g.qual)
            rs.inst(f"{g.name}: kwargs[f] = scan(f) inside try/except RegexNotMatchError")
            e = st[0]
            okv = parse_f is not None and e.value[0] == "call" and e.value[1][0] in ("func", "closure") and e.value[1][1] == parse_f[0].qual \
                and [v for k, v in e.value[3]] == [fname]
            if len(st) != 1 or strip(e.key) != fname or not okv or (kwargs_alloc is not None and strip(e.target) != strip(kwargs_alloc)):
                fail(rs, ctx, g, e.node, f"the setter must store kwargs[field_name] = scan(field_name) for one and the same field; found "
                                         f"{show(e.target)[:40]}[{show(e.key)[:40]}] = {show(e.value)[:100]}")
            if not e.trys:
                fail(rs, ctx, g, e.node, "the store is not inside a try: an absent optional field would raise")
            else:
                tid, handlers = e.trys[-1]
                hn = [exc_name(h) for hs in handlers if hs is not None for h in hs]
                if hn != [RNM]:
                    fail(rs, ctx, g, e.node, f"the handler must catch exactly RegexNotMatchError; catches {hn}")
            for x in gs.effects:
                if x not in st:
                    fail(rs, ctx, g, x.node, f"setter has an extra effect ({x.kind})")
            # the absent-field callback: called exactly when the scan raised and a callback was given
            cb = None
            for p_ in g.params()[1:]:
                cb = ("param", p_)
            cbcalls = [c for c in gs.calls if cb is not None and c.fn == cb]
            if cb is not None:
                okcb = len(cbcalls) == 1
                if okcb:
                    lits = [(a, p) for a, p in cbcalls[0].cond]
                    from .lib import is_none_atom
                    isn = [is_none_atom(cb)(a) for a, p in lits]
                    raised = any(a[0] == "raises" and p for a, p in lits)
                    guard = [(x, p) for x, (a, p) in zip(isn, lits) if x is not None]
                    okcb = raised and len(guard) == 1 and (guard[0][0] != guard[0][1])  # `cb is None` must be False
                if not okcb:
                    fail(rs, ctx, g, g.node, "the absent-field callback must be invoked exactly when no line matched and a callback was supplied "
                                             "(`except RegexNotMatchError: if callback is not None: callback()`): otherwise a missing Resolution is "
                                             "not reported / an absent optional field calls None")
    # which setter raises MissingRequiredField through its callback
    for n, (g, gs) in setters.items():
        for c in gs.calls:
            for a in list(c.args) + [v for _, v in c.kwargs]:
                if a[0] == "closure":
                    lf = ctx.prog.lambdas.get(a[1])
                    if lf is not None:
                        ls = ctx.ev.evaluate(lf, {}, None, 0)
                        for cc in ls.calls:
                            for aa in subterms(cc.result):
                                if aa[0] == "call" and aa[1] == ("class", MRF):
                                    raising.add(g.qual)
    rz = ctx.func("chartparse.exceptions.raise_")
    rzs = ctx.summary(rz)
    if not (len(rzs.exits) == 1 and rzs.exits[0].kind == "raise" and rzs.exits[0].value == ("param", rz.params()[0])):
        fail(rs, ctx, rz, rz.node, "raise_(ex) must raise its argument")
    # ---- calls per field
    called = {}
    for c in s.calls:
        if c.fn[0] in ("func", "closure") and c.fn[1] in [g.qual for g, _ in setters.values()] and not c.inlined:
            kw = dict(c.kwargs)
            g = ctx.prog.functions.get(c.fn[1])
            a = kw.get(g.params()[0])
            if a is not None and a[0] == "elem" and a[1] in s.loops and c.loops == (a[1],):
                # the setter is called for every element of a constant list of names
                try:
                    names_ = ctx.fold.fold(s.loops[a[1]].iter)
                except NotConstant as e:
                    names_ = None
                    fail(ra, ctx, f, c.node, f"setter called in a loop over a list of names that does not fold to constants: {e}")
                extra_c = [(x, p_) for x, p_ in c.cond if x[0] != "inloop"]
                for x, p_ in extra_c:
                    # `if name != "resolution":` inside the loop: a filter on the constant list of names
                    sx = strip(x)
                    if sx[0] == "cmp" and sx[1] == "==" and a in (sx[2], sx[3]) and (sx[2][0] == "const" or sx[3][0] == "const") and names_ is not None:
                        cst = sx[2][1] if sx[2][0] == "const" else sx[3][1]
                        names_ = [nm for nm in names_ if (nm == cst) == p_]
                    else:
                        fail(ra, ctx, f, c.node, "fields are only looked for under a condition")
                for nm in (names_ or []):
                    called.setdefault(nm, []).append((c.fn[1], c))
                continue
            if a is not None and a[0] == "const":
                called.setdefault(a[1], []).append((c.fn[1], c))
                if c.cond:
                    fail(ra, ctx, f, c.node, f"field {a[1]!r} is only looked for under a condition")
            else:
                fail(ra, ctx, f, c.node, f"setter called with a non-literal field name {show(a)}")
    dc = {fl.name: fl for fl in mc.dc_fields()}
    for field, (kind, default) in FIELDS.items():
        ra.inst(f"{field}: {pascal(field)} / {kind}")
        fl = dc.get(field)
        if fl is None:
            fail(ra, ctx, mc, mc.node, f"Metadata has no dataclass field `{field}`")
            continue
        sp = specs.get(field)
        if not isinstance(sp, FoldedObject) or not isinstance(sp.attrs.get("regex_prog"), Regex):
            fail(ra, ctx, f, f.node, f"no field spec registered under {field!r}")
            continue
        cs = called.get(field, [])
        if len(cs) != 1:
            fail(ra, ctx, f, f.node, f"field {field!r} must be looked for exactly once; found {len(cs)} setter call(s): a field that is never "
                                     f"looked for silently keeps its default")
        elif default is REQ and cs[0][0] not in raising:
            fail(ra, ctx, f, cs[0][1].node, f"required field {field!r} must go through the setter whose callback raises MissingRequiredField")
        elif default is not REQ and cs[0][0] in raising and cs[0][0] not in storing:
            fail(ra, ctx, f, cs[0][1].node, f"optional field {field!r} goes through the raising setter: its absence would abort the parse")
        # conversion vs type
        pf = sp.attrs.get("processing_fn")
        ft = ctx.ev.types.field_type(mc, field)
        want_t = {"int": [("ext", "builtins.int")], "str": [("ext", "builtins.str"), ("union", (("ext", "builtins.str"), ("none",)))],
                  "p2": [("inst", P2)]}[kind]
        if ft not in want_t:
            fail(ra, ctx, mc, mc.node, f"Metadata.{field} is annotated {ft}; documented kind is {kind}")
        okp = False
        if isinstance(pf, Callable_):
            if kind == "int":
                okp = pf.term == ("builtin", "int")
            elif kind == "str":
                okp = pf.term == ("builtin", "str")
            else:
                lf = ctx.prog.lambdas.get(pf.term[1]) if pf.term[0] == "closure" else None
                if lf is not None:
                    lr = ctx.ev.summary(lf).ret_term()
                    okp = lr == ("call", ("class", P2), (("param", lf.params()[0]),), ())
                okp = okp or pf.term == ("class", P2)
        if not okp:
            fail(ra, ctx, f, f.node, f"field {field!r} ({kind}) is converted with {pf!r}")
        # defaults
        rd.inst(f"{field}: default {('required' if default is REQ else default)!r}")
        if default is REQ:
            if fl.default is not None:
                fail(rd, ctx, mc, mc.node, f"Metadata.{field} is required but has a default")
        else:
            if fl.default is None:
                fail(rd, ctx, mc, mc.node, f"Metadata.{field} has no default; documented default is {default!r}")
            else:
                from ..terms import _FuncEval, Env, State
                fe = _FuncEval(ctx.ev, None, {}, None, 0, module=fl.owner.module, cls_body=fl.owner)
                try:
                    dv = ctx.fold.fold(fe.expr(fl.default, State(Env(), ())))
                except NotConstant as e:
                    dv = f"<{e}>"
                got = dv.name if isinstance(dv, EnumMember) else dv
                if got != default or (default is not None and type(got) is not type(default)):
                    fail(rd, ctx, mc, mc.node, f"Metadata.{field} defaults to {dv!r}; documented default is {default!r}")
    extra = set(dc) - set(FIELDS)
    if extra:
        fail(ra, ctx, mc, mc.node, f"undocumented metadata fields {sorted(extra)}")
    # ---- automata
    impls = []
    for field, (kind, default) in FIELDS.items():
        sp = specs.get(field)
        if not isinstance(sp, FoldedObject) or not isinstance(sp.attrs.get("regex_prog"), Regex):
            impls.append((field, None))
            continue
        pat = sp.attrs["regex_prog"].pattern
        impl = impl_pattern(ctx, rl, f, pat, method)
        impls.append((pascal(field), impl))
        if impl is None:
            continue
        canon = P(canon_for(field, kind))
        rl.inst(f"{pascal(field)}: Canon ⊆ L({pat!r}.{method})")
        w = rx.included(canon, impl)
        if w is not None:
            fail(rl, ctx, f, f.node, f"the recogniser registered for {field!r}, {pat!r}, rejects its canonical line {w!r}: the field silently "
                                     f"keeps its default (wrong field name in the pattern, or a narrowed value language)", witness=w)
            continue
        rc.inst(f"{pascal(field)}: capture exactness")
        if impl.ngroups < 1:
            fail(rc, ctx, f, f.node, f"recogniser for {field!r} has no capture group")
            continue
        try:
            cw = rx.capture_exact(impl, canon, {"value": 1})
        except rx.RxUnsupported as e:
            fail(rc, ctx, f, f.node, f"capture analysis unsupported for {pat!r}: {e}")
            continue
        if cw is not None:
            fail(rc, ctx, f, f.node, f"on the line {cw.string!r} field {field!r} decodes to {cw.got} where {cw.want} is written (one pair of "
                                     f"surrounding quotes is removed, the inner text is kept verbatim)", witness=cw.string)
        if kind == "int":
            gw = rx.group_contents_included(impl, 1, P(r"\d+"))
            if gw is not None:
                fail(rc, ctx, f, f.node, f"numeric field {field!r} can capture {gw[1]!r} (line {gw[0]!r}): int() is not total on it", witness=gw[0])
    check_pairwise_disjoint(ctx, rx_, impls, f, "metadata")
    # ---- Player2 enumeration values are the file format's words
    p2c = ctx.cls(P2)
    p2t = ctx.fold.enum_table(p2c)
    ra.inst(f"Player2Instrument values: {p2t.primaries()}")
    if dict(p2t.primaries()) != {"BASS": "bass", "RHYTHM": "rhythm"} or p2t.aliases():
        fail(ra, ctx, p2c, p2c.node, f"Player2Instrument must be BASS='bass', RHYTHM='rhythm' (the words written in the file); found {p2t.rows}")
    # ---- the [Song] lines reach the scan verbatim
    from .chartrules import ChartRules
    rr = rep.rule("route", "Metadata.from_chart_lines receives the [Song] section's own lines exactly as they are in the file "
                           "(fp.read().splitlines(), framed by braces, no rewriting): values stay verbatim", floor=10)
    C = ChartRules(ctx)
    C.check_reading(rr)
    C.check_framing(rr)
    C.check_required(rr)
