"""C10 -- metadata fields decode independently, verbatim, with documented defaults."""
from .. import rx
from ..constfold import Callable_, EnumMember, FoldedObject, NotConstant, Regex
from ..match import ANYP, H, match, strip
from ..terms import show, subterms
from .lang import P, b, D, check_pairwise_disjoint, impl_pattern
from .lib import cond_str, exc_name, fail, live_exits
from .fieldtrace import Trace, Tracer

LEVEL = "proof"
META = "chartparse.metadata.Metadata"
RNM = "chartparse.exceptions.RegexNotMatchError"
MRF = "chartparse.exceptions.MissingRequiredField"
P2 = "chartparse.metadata.Player2Instrument"

# documented table (property statement / file format): field -> (kind, default)   REQUIRED = no default
REQ = object()
FIELDS = {
    "resolution": ("int", REQ), "offset": ("int", 0), "player2": ("p2", "BASS"), "difficulty": ("int", 0),
    "preview_start": ("int", 0), "preview_end": ("int", 0), "genre": ("str", "rock"), "media_type": ("str", "cd"),
    "name": ("str", None), "artist": ("str", None), "charter": ("str", None), "album": ("str", None), "year": ("str", None),
    "music_stream": ("str", None), "guitar_stream": ("str", None), "rhythm_stream": ("str", None), "bass_stream": ("str", None),
    "drum_stream": ("str", None), "drum2_stream": ("str", None), "drum3_stream": ("str", None), "drum4_stream": ("str", None),
    "vocal_stream": ("str", None), "keys_stream": ("str", None), "crowd_stream": ("str", None),
}


def pascal(snake: str) -> str:
    return "".join(w[:1].upper() + w[1:] for w in snake.split("_"))


def canon_for(field: str, kind: str):
    F = pascal(field)
    if kind == "str":
        return rf'{b}*{F} = "(?P<value>[^\n]+)"{b}*'
    if kind == "int":
        return rf"{b}*{F} = (?P<value>{D}+){b}*"
    return rf"{b}*{F} = (?P<value>bass|rhythm){b}*"


def judge_field(ctx, rs, f, c, tr, field, required, kwargs_alloc, SPECS, LINES):
    """The facts collected for one field (fieldtrace) against the statement: the value of the first line its own recogniser
    matches is stored under its own key; when no line matches a required field raises MissingRequiredField(field) and an
    optional one does nothing at all.  Returns the regex method used by the scan (or None)."""
    for g, node, msg in tr.problems:
        fail(rs, ctx, g, node, f"field {field!r}: {msg}")
    stores = [x for x in tr.facts if x.kind == "store"]
    SP = ("sub", SPECS, ("const", field))
    method = None
    tid = None
    if len(stores) != 1:
        fail(rs, ctx, f, c.node, f"field {field!r}: expected exactly one store kwargs[{field!r}] = <scan result>; found {len(stores)} store(s) "
                                 f"on the call chain {' -> '.join(q.rsplit('.', 1)[-1] for q in tr.visited)}")
    else:
        st = stores[0]
        if strip(st.key) != ("const", field) or (kwargs_alloc is not None and strip(st.target) != strip(kwargs_alloc)):
            fail(rs, ctx, st.g, st.node, f"the setter must store kwargs[field_name] = scan(field_name) for one and the same field; for "
                                         f"{field!r} it stores {show(st.target)[:40]}[{show(st.key)[:40]}] = {show(st.value)[:100]}")
        st_trys = st.trys
        crec_trys = tuple(st.callrec[3].trys) if st.callrec is not None else ()
        if not st.trys and len(crec_trys) == 1 and st.cond == (((("raises", crec_trys[0][0])), False),):
            # `try: v = scan(f)  except RegexNotMatchError: ...  else: kwargs[f] = v` -- the store in the else clause of the try
            # around the scan runs exactly when the scan did not raise, like a store inside the try body after the scan
            st_trys = crec_trys
        elif st.cond:
            fail(rs, ctx, st.g, st.node, f"field {field!r} is only stored under a condition ({cond_str(st.cond)[:120]})")
        if len(st_trys) != 1:
            fail(rs, ctx, st.g, st.node, "the store is not inside exactly one try: an absent optional field would raise / a failure is swallowed twice"
                 if not st.trys else "the store is enclosed by more than one try")
        else:
            tid, handlers = st_trys[-1]
            hn = [exc_name(h) for hs in handlers if hs is not None for h in hs]
            if hn != [RNM] or any(hs is None for hs in handlers):
                fail(rs, ctx, st.g, st.node, f"the handler must catch exactly RegexNotMatchError; catches {hn}")
        if st.callrec is None:
            fail(rs, ctx, st.g, st.node, f"field {field!r}: the stored value {show(st.value)[:120]} is not the result of a line scan (a helper of the "
                                         f"metadata module with a loop over the lines)")
        else:
            callee, cenv, bound, crec = st.callrec
            gs = ctx.ev.evaluate(callee, bound, cenv, 0)
            method = judge_scan(ctx, rs, callee, gs, field, SP, LINES)
    raises = [x for x in tr.facts if x.kind == "raise"]
    okraise = []
    for x in raises:
        en = exc_name(x.value)
        ok = en == MRF and x.value[0] == "call" and dict(x.value[3]).get("field_name") == ("const", field) and not x.value[2]
        ok = ok and not x.trys and tid is not None and set(x.cond) <= {(("raises", tid), True), (("handler", tid, 0), True)} \
            and (("raises", tid), True) in x.cond and not x.detail
        if ok:
            okraise.append(x)
        else:
            fail(rs, ctx, x.g, x.node, f"field {field!r}: unexpected raise of {show(x.value)[:100]} under {cond_str(x.cond)[:160]} "
                                       f"(only MissingRequiredField({field!r}), raised exactly when no line matched, is specified"
                                       f"{'' if required else '; an optional field never raises'})")
    if required and len(okraise) != 1:
        fail(rs, ctx, f, c.node, f"required field {field!r}: when no line matches, MissingRequiredField({field!r}) must be raised -- the absent-field "
                                 f"callback must be invoked exactly when no line matched and a callback was supplied; found {len(okraise)} such raise(s)")
    if not required and okraise:
        fail(rs, ctx, okraise[0].g, okraise[0].node, f"optional field {field!r} raises MissingRequiredField when absent: its absence would abort the parse")
    for x in tr.facts:
        if x.kind == "effect":
            fail(rs, ctx, x.g, x.node, f"field {field!r}: setter has an extra effect ({x.detail} on {show(x.target)[:60]})")
        elif x.kind == "opaque":
            fail(rs, ctx, x.g, x.node, f"field {field!r}: {x.detail} under {cond_str(x.cond)[:120]} -- a callable this analysis cannot resolve is invoked "
                                       f"(an absent optional field calls None / an unknown callback)")
        elif x.kind == "loop":
            fail(rs, ctx, x.g, x.node, f"field {field!r}: a loop in the setter chain outside the line scan ({show(x.value)[:80]})")
    return method


def judge_scan(ctx, rs, g, gs, field, SP, LINES):
    method = None
    if gs.unsupported:
        fail(rs, ctx, g, g.node, f"the line scan uses constructs outside the analysed subset: {gs.unsupported[:2]}")
        return None
    if len(gs.loops) != 1:
        fail(rs, ctx, g, g.node, f"cannot find the per-field line scan: {g.name} has {len(gs.loops)} loops (expected one loop over the lines)")
        return None
    loop = next(iter(gs.loops.values()))
    if strip(loop.iter) not in LINES:
        fail(rs, ctx, g, loop.node, f"every field must be looked for in *all* the section's lines (lines = list(lines_iter)); the scan "
                                    f"iterates {show(loop.iter)[:160] if loop.iter else None} -- a pre-filter drops legitimate values")
    line = ("elem", loop.id)
    Mp = ("call", ("meth", H("method")), (("attr", SP, "regex_prog"), line), ())
    inl = [e for e in live_exits(gs) if e.loops]
    post = [e for e in live_exits(gs) if not e.loops]
    okr = False
    if len(inl) == 1 and inl[0].kind == "ret":
        conds = [(a, p) for a, p in inl[0].cond if a[0] != "inloop"]
        if len(conds) == 1 and not conds[0][1] and conds[0][0][0] == "cmp" and conds[0][0][1] == "is" and ("const", None) in conds[0][0][2:]:
            other = conds[0][0][3] if conds[0][0][2] == ("const", None) else conds[0][0][2]
            conds = [(other, True)]  # `m is None` false  ==  m truthy
        bm = match(Mp, strip(conds[0][0])) if len(conds) == 1 and conds[0][1] else None
        if bm is not None and bm["method"] in ("match", "fullmatch", "search"):
            method = bm["method"]
            Mt = strip(conds[0][0])
            want = ("call", ("meth", "processing_fn"), (SP, ("call", ("meth", "group"), (Mt, ("const", 1)), ())), ())
            want2 = ("call", ("attr", SP, "processing_fn"), (("call", ("meth", "group"), (Mt, ("const", 1)), ()),), ())
            okr = strip(inl[0].value) in (strip(want), strip(want2))
    if not okr:
        fail(rs, ctx, g, loop.node, f"the scan for {field!r} must return spec.processing_fn(m.group(1)) at the first line its own field's recogniser "
                                    f"matches; found " + "; ".join(
            f"{e.kind} {show(e.value)[:120]} if {show(e.cond[-1][0])[:80] if e.cond else ''}" for e in inl)[:400])
    if len(post) != 1 or post[0].kind != "raise" or exc_name(post[0].value) != RNM or post[0].cond:
        fail(rs, ctx, g, g.node, "when no line matches the scan must raise RegexNotMatchError (the 'field absent' signal)")
    for e in gs.effects:
        fail(rs, ctx, g, e.node, f"the scan has a side effect ({e.kind})")
    for c_ in gs.calls:
        if not c_.inlined and c_.fn[0] in ("func", "closure", "boundcls", "param", "free"):
            fail(rs, ctx, g, c_.node, f"the scan delegates to {show(c_.fn)[:80]}, which this rule does not follow")
    return method


def check_field_flow(ctx, rs, ra, f, s, specs, SPECS, only=None):
    """What Metadata.from_chart_lines does per field (all 24, or the ones in `only`): returns ({field: [(callee, callrec, trace)]}, regex method)."""
    # ---- what the parser does per field, whatever the decomposition into helpers (sa/rules/fieldtrace.py)
    method = "match"
    kwargs_alloc = None
    rets = s.rets()
    if len(rets) == 1 and rets[0].value[0] == "call" and rets[0].value[1][0] in ("clsparam", "class"):
        kwd = dict(rets[0].value[3])
        kwargs_alloc = kwd.get("**")
        rs.inst("Metadata(**kwargs) with the fresh dict filled by the scan")
        if kwargs_alloc is None or rets[0].value[2] or len(kwd) != 1 or not (kwargs_alloc[0] == "dict" or
                                                                            kwargs_alloc == ("call", ("builtin", "dict"), (), ())):
            fail(rs, ctx, f, rets[0].node, f"the result must be Metadata(**kwargs) for the dict filled field by field; found {show(rets[0].value)[:160]}")
    else:
        fail(rs, ctx, f, f.node, "Metadata.from_chart_lines must return one Metadata construction")
    for e in s.effects:
        fail(rs, ctx, f, e.node, f"Metadata.from_chart_lines itself has a side effect ({e.kind} on {show(e.target)[:60]}) besides the per-field "
                                 f"setter calls")
    rz = ctx.func("chartparse.exceptions.raise_")
    rzs = ctx.summary(rz)
    if not (len(rzs.exits) == 1 and rzs.exits[0].kind == "raise" and rzs.exits[0].value == ("param", rz.params()[0])):
        fail(rs, ctx, rz, rz.node, "raise_(ex) must raise its argument")
    tracer = Tracer(ctx, specs, SPECS, f, s)
    lp = ("param", f.params()[1])
    LINES = (("call", ("builtin", "list"), (lp,), ()), lp)
    called = {}
    methods = {}
    for c in s.calls:
        if c.inlined:
            continue
        r = tracer.resolve(c.fn, c.args)
        if r is None:
            continue
        callee, cenv, _ = r
        bound = tracer.bind(callee, c)
        if bound is None:
            fail(ra, ctx, f, c.node, f"cannot bind the arguments of the call of {callee.qual}")
            continue
        lits = [(p_, v) for p_, v in bound.items() if v[0] == "const" and isinstance(v[1], str) and v[1] in FIELDS]
        elems = [(p_, v) for p_, v in bound.items() if v[0] == "elem" and v[1] in s.loops and c.loops == (v[1],)]
        names_ = None
        if len(lits) == 1 and not elems:
            names_ = [lits[0][1][1]]
            if c.cond:
                fail(ra, ctx, f, c.node, f"field {names_[0]!r} is only looked for under a condition")
            if c.loops:
                fail(ra, ctx, f, c.node, f"field {names_[0]!r} is looked for inside a loop")
            subst = None
        elif len(elems) == 1 and not lits:
            a = elems[0][1]
            # the setter is called for every element of a constant list of names
            try:
                names_ = list(ctx.fold.fold(s.loops[a[1]].iter))
            except NotConstant as e:
                names_ = None
                fail(ra, ctx, f, c.node, f"setter called in a loop over a list of names that does not fold to constants: {e}")
            for x, p_ in [(x, p_) for x, p_ in c.cond if x[0] != "inloop"]:
                # `if name != "resolution":` inside the loop: a filter on the constant list of names
                sx = strip(x)
                if sx[0] == "cmp" and sx[1] == "==" and a in (sx[2], sx[3]) and (sx[2][0] == "const" or sx[3][0] == "const") and names_ is not None:
                    cst = sx[2][1] if sx[2][0] == "const" else sx[3][1]
                    names_ = [nm for nm in names_ if (nm == cst) == p_]
                else:
                    fail(ra, ctx, f, c.node, "fields are only looked for under a condition")
            subst = elems[0][0]
        else:
            fail(ra, ctx, f, c.node, f"call of {callee.name} with a non-literal field name "
                                     f"({', '.join(show(v)[:40] for v in bound.values())})")
            continue
        if c.trys:
            fail(rs, ctx, f, c.node, "the per-field setter call is enclosed by a try in Metadata.from_chart_lines: a missing required field "
                                     "(or any failure of one field) could be swallowed there")
        for nm in (names_ or []):
            b2 = dict(bound)
            if subst is not None:
                b2[subst] = ("const", nm)
            tr = Trace()
            tracer.walk(tr, callee, b2, cenv, (), (), 0)
            called.setdefault(nm, []).append((callee.qual, c, tr))
    for field, (kind, default) in FIELDS.items():
        if only is not None and field not in only:
            continue
        cs = called.get(field, [])
        if len(cs) != 1:
            if only is not None:
                fail(ra, ctx, f, f.node, f"field {field!r} must be looked for exactly once; found {len(cs)} setter call(s)")
            continue  # reported in the agreement table below
        _, c, tr = cs[0]
        rs.inst(f"{field}: kwargs[{field!r}] = first matching line's converted value; absent -> "
                f"{'MissingRequiredField' if default is REQ else 'default kept'}  (through {' -> '.join(q.rsplit('.', 1)[-1] for q in tr.visited)})")
        m_ = judge_field(ctx, rs, f, c, tr, field, default is REQ, kwargs_alloc, SPECS, LINES)
        if m_:
            methods[field] = m_
    ms = set(methods.values())
    if len(ms) == 1:
        method = ms.pop()
    elif len(ms) > 1:
        fail(rs, ctx, f, f.node, f"the fields are recognised with different regex methods {sorted(ms)}; the language obligations assume one")
    return called, method


def run(ctx, rep):
    rep.explanation = (
        "The 24 field recognisers are recovered by constant folding through the spec classes' __init__ chains and the regex "
        "factory; decided by automata for all strings: 276 pairwise intersections empty (no line can feed two fields, so order and "
        "other fields' values are irrelevant), 24 canonical inclusions, 24 capture-exactness checks under backtracking priority "
        "(inner text verbatim, one pair of quotes removed, closing quote = last quote), numeric groups ⊆ \\d+.  Agreement table with "
        "24 rows: dataclass field <-> spec key <-> literal passed to set_kwarg/maybe_set_kwarg <-> Pascal name in the folded regex <-> "
        "conversion <-> annotated type.  The scan visits all lines (list(lines_iter)), returns at the first matching line, stores under "
        "the same key; only resolution goes through the raising callback (MissingRequiredField); defaults fold to the documented table.")
    rep.trusted += ["re._parser", "ordered-thread simulation == sre backtracking (validated in selftest/rx_validate.py)"]
    mc = ctx.cls(META)
    mod = ctx.prog.modules["chartparse.metadata"]
    f = ctx.func(f"{META}.from_chart_lines")
    s = ctx.summary(f)
    ra = rep.rule("agreement", "field <-> spec key <-> call literal <-> regex name <-> conversion <-> type", floor=24)
    rd = rep.rule("defaults", "dataclass defaults = documented table; resolution required", floor=24)
    rl = rep.rule("language", "every canonical 'Field = value' line is accepted by its own field's recogniser", floor=24)
    rc = rep.rule("capture", "captured value = inner text verbatim (one pair of quotes removed) / the digits / the word", floor=24)
    rx_ = rep.rule("disjoint", "pairwise disjoint field languages (276 pairs)", floor=276)
    rs = rep.rule("scan", "per field, whatever the decomposition into helpers: all lines scanned, first matching line wins, value stored under the own key inside try/except RegexNotMatchError, a required field raises MissingRequiredField(field) exactly when no line matched, an optional one does nothing", floor=25)
    # ---- spec dict
    specs_t = None
    gname = None
    for name in mod.assigns:
        t = ctx.ev.global_value(mod, name)
        if t[0] == "dict" and len(t[1]) >= 20:
            specs_t, gname = t, name
    if specs_t is None:
        fail(ra, ctx, f, f.node, "cannot find the module-level field-spec table (a dict literal with one entry per field)")
        return
    try:
        specs = ctx.fold.fold(specs_t)
    except NotConstant as e:
        fail(ra, ctx, f, f.node, f"the field-spec table does not fold to constants: {e}")
        return
    SPECS = ("gvar", f"chartparse.metadata.{gname}")
    called, method = check_field_flow(ctx, rs, ra, f, s, specs, SPECS)
    dc = {fl.name: fl for fl in mc.dc_fields()}
    for field, (kind, default) in FIELDS.items():
        ra.inst(f"{field}: {pascal(field)} / {kind}")
        fl = dc.get(field)
        if fl is None:
            fail(ra, ctx, mc, mc.node, f"Metadata has no dataclass field `{field}`")
            continue
        sp = specs.get(field)
        if not isinstance(sp, FoldedObject) or not isinstance(sp.attrs.get("regex_prog"), Regex):
            fail(ra, ctx, f, f.node, f"no field spec registered under {field!r}")
            continue
        cs = called.get(field, [])
        if len(cs) != 1:
            fail(ra, ctx, f, f.node, f"field {field!r} must be looked for exactly once; found {len(cs)} setter call(s): a field that is never "
                                     f"looked for silently keeps its default")
        # conversion vs type
        pf = sp.attrs.get("processing_fn")
        ft = ctx.ev.types.field_type(mc, field)
        want_t = {"int": [("ext", "builtins.int")], "str": [("ext", "builtins.str"), ("union", (("ext", "builtins.str"), ("none",)))],
                  "p2": [("inst", P2)]}[kind]
        if ft not in want_t:
            fail(ra, ctx, mc, mc.node, f"Metadata.{field} is annotated {ft}; documented kind is {kind}")
        okp = False
        if isinstance(pf, Callable_):
            if kind == "int":
                okp = pf.term == ("builtin", "int")
            elif kind == "str":
                okp = pf.term == ("builtin", "str")
            else:
                lf = ctx.prog.lambdas.get(pf.term[1]) if pf.term[0] == "closure" else None
                if lf is not None:
                    lr = ctx.ev.summary(lf).ret_term()
                    okp = lr == ("call", ("class", P2), (("param", lf.params()[0]),), ())
                okp = okp or pf.term == ("class", P2)
        if not okp:
            fail(ra, ctx, f, f.node, f"field {field!r} ({kind}) is converted with {pf!r}")
        # defaults
        rd.inst(f"{field}: default {('required' if default is REQ else default)!r}")
        if default is REQ:
            if fl.default is not None:
                fail(rd, ctx, mc, mc.node, f"Metadata.{field} is required but has a default")
        else:
            if fl.default is None:
                fail(rd, ctx, mc, mc.node, f"Metadata.{field} has no default; documented default is {default!r}")
            else:
                from ..terms import _FuncEval, Env, State
                fe = _FuncEval(ctx.ev, None, {}, None, 0, module=fl.owner.module, cls_body=fl.owner)
                try:
                    dv = ctx.fold.fold(fe.expr(fl.default, State(Env(), ())))
                except NotConstant as e:
                    dv = f"<{e}>"
                got = dv.name if isinstance(dv, EnumMember) else dv
                if got != default or (default is not None and type(got) is not type(default)):
                    fail(rd, ctx, mc, mc.node, f"Metadata.{field} defaults to {dv!r}; documented default is {default!r}")
    extra = set(dc) - set(FIELDS)
    if extra:
        fail(ra, ctx, mc, mc.node, f"undocumented metadata fields {sorted(extra)}")
    # ---- automata
    impls = []
    for field, (kind, default) in FIELDS.items():
        sp = specs.get(field)
        if not isinstance(sp, FoldedObject) or not isinstance(sp.attrs.get("regex_prog"), Regex):
            impls.append((field, None))
            continue
        pat = sp.attrs["regex_prog"].pattern
        impl = impl_pattern(ctx, rl, f, pat, method)
        impls.append((pascal(field), impl))
        if impl is None:
            continue
        canon = P(canon_for(field, kind))
        rl.inst(f"{pascal(field)}: Canon ⊆ L({pat!r}.{method})")
        w = rx.included(canon, impl)
        if w is not None:
            fail(rl, ctx, f, f.node, f"the recogniser registered for {field!r}, {pat!r}, rejects its canonical line {w!r}: the field silently "
                                     f"keeps its default (wrong field name in the pattern, or a narrowed value language)", witness=w)
            continue
        rc.inst(f"{pascal(field)}: capture exactness")
        if impl.ngroups < 1:
            fail(rc, ctx, f, f.node, f"recogniser for {field!r} has no capture group")
            continue
        try:
            cw = rx.capture_exact(impl, canon, {"value": 1})
        except rx.RxUnsupported as e:
            fail(rc, ctx, f, f.node, f"capture analysis unsupported for {pat!r}: {e}")
            continue
        if cw is not None:
            fail(rc, ctx, f, f.node, f"on the line {cw.string!r} field {field!r} decodes to {cw.got} where {cw.want} is written (one pair of "
                                     f"surrounding quotes is removed, the inner text is kept verbatim)", witness=cw.string)
        if kind == "int":
            gw = rx.group_contents_included(impl, 1, P(r"\d+"))
            if gw is not None:
                fail(rc, ctx, f, f.node, f"numeric field {field!r} can capture {gw[1]!r} (line {gw[0]!r}): int() is not total on it", witness=gw[0])
    check_pairwise_disjoint(ctx, rx_, impls, f, "metadata")
    # ---- Player2 enumeration values are the file format's words
    p2c = ctx.cls(P2)
    p2t = ctx.fold.enum_table(p2c)
    ra.inst(f"Player2Instrument values: {p2t.primaries()}")
    if dict(p2t.primaries()) != {"BASS": "bass", "RHYTHM": "rhythm"} or p2t.aliases():
        fail(ra, ctx, p2c, p2c.node, f"Player2Instrument must be BASS='bass', RHYTHM='rhythm' (the words written in the file); found {p2t.rows}")
    # ---- the [Song] lines reach the scan verbatim
    from .chartrules import ChartRules
    rr = rep.rule("route", "Metadata.from_chart_lines receives the [Song] section's own lines exactly as they are in the file "
                           "(fp.read().splitlines(), framed by braces, no rewriting): values stay verbatim", floor=10)
    C = ChartRules(ctx)
    C.check_reading(rr)
    C.check_framing(rr)
    C.check_required(rr)
