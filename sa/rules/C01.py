"""C01 -- event timestamps equal the exact tempo-map time of their tick."""
from .timing import Timing
from .notes import Notes
from . import escape
from .wiring import check_all_sections, check_from_file_wiring
from .decode import check_bpm_value

LEVEL = "other"


def run(ctx, rep):
    rep.explanation = (
        "Premises of the written lemma (DESIGN C01), each decided on the current source: P1 the seconds formula is the "
        "rational function 60*ticks/(bpm*resolution) built from IEEE * and / only, with at most 8 roundings (rounding-count "
        "abstract domain); P2 a float reaches a timestamp only through timedelta(seconds=sec(...)); P3 a tempo event's time is "
        "its predecessor's plus the elapsed ticks at the *previous* tempo, the first is timedelta(0); P4 the query uses one "
        "governing event for base, origin and tempo; P5 every stored timestamp (6 event kinds + note end) is component 0 of the "
        "query at the event's own tick; P6 the un-hinted query is the hinted one with hint 0; P7 the resolution everywhere is "
        "the metadata's; the tempo value is the correctly rounded n/1000.  Together with C11 (index) and C15 (guards) these imply the "
        "bound for every map and tick; the numeric constant follows from the standard IEEE model and is not measured.")
    rep.trusted += ["IEEE-754 double arithmetic with correct rounding", "timedelta(seconds=float) rounds half-even to microseconds; "
                    "timedelta addition is exact"]
    exact_time_premises(ctx, rep)
    rch = rep.rule("chain", "file -> lines (read().splitlines(), utf-8-sig) -> framing -> section route -> dispatcher -> builders: every link "
                            "hands the lines on unchanged", floor=10)
    from .chain import check_chain
    check_chain(ctx, rch, "all", strict=False)


def exact_time_premises(ctx, rep, prefix=""):
    """The premises under which a stored or queried time is the exact tempo-map time of its tick (the argument of C01).  Shared
    with the properties that state an *exact* time themselves: C03 (a note's end timestamp) and C16 (a tick bound)."""
    T = Timing(ctx)
    _rule = rep.rule

    class _R:
        def rule(self, id, text, floor=0):
            return _rule(prefix + id, text, floor=floor)
    rep = _R()
    r1 = rep.rule("P1.formula", "sec = 60*ticks/(bpm*resolution), IEEE * and / only, <= 8 roundings", floor=1)
    T.check_sec_formula(r1)
    r1g = rep.rule("P1.guards", "the seconds function refuses exactly ticks < 0, bpm <= 0, resolution <= 0 (comparisons on the float tempo "
                                "are not integer comparisons: `bpm < 1` is not `bpm <= 0`): every valid tempo yields a time", floor=8)
    T.check_sec_guards(r1g)
    r2 = rep.rule("P2.conversion", "float -> timestamp only via timedelta(seconds=sec(...))", floor=3)
    escape.check_float_to_time(ctx, r2, T)
    r3 = rep.rule("P3.accumulate", "tempo event time = prev.timestamp + us(sec(|dtick|, prev.bpm, resolution)); first = 0", floor=2)
    T.check_accumulate(r3)
    r4 = rep.rule("P4.query", "Q(t,h) = (g.timestamp + us(sec(|t - g.tick|, g.bpm, self.resolution)), i), g = events[i]", floor=1)
    T.check_Q(r4)
    r5 = rep.rule("P5.stamps", "every event stores Q0(own tick) (and the note end Q0(tick + longest))", floor=4)
    T.check_stamp_sites(r5)
    N = Notes(ctx, T)
    N.check_time_wiring(r5)
    r6 = rep.rule("P6.unhinted", "timestamp_at_tick_no_optimize_return(t) = Q(t, 0)[0]", floor=1)
    T.check_noopt(r6)
    r7 = rep.rule("P7.sources", "resolution = metadata.resolution; every builder receives this chart's tempo map; folds pass each "
                                "datum once with its predecessor", floor=8)
    check_from_file_wiring(ctx, r7)
    check_all_sections(ctx, r7, strict=False)
    T.check_folds(r7)
    r8 = rep.rule("bpm", "tempo value = int(raw)/1000: one correctly rounded division (0.001 steps exact to the nearest float)", floor=1)
    check_bpm_value(ctx, r8, T)
    rb2 = rep.rule("tempo-lines", "every canonical tempo line '<tick> = B <n>' (any digit count, n from 1) is accepted and decoded by the B "
                                  "recogniser: none is dropped (a dropped tempo line shifts every later time)", floor=4)
    from .decode import check_from_chart_line
    from .lang import check_line_recogniser
    BQ = "chartparse.sync.BPMEvent.ParsedData"
    info = check_from_chart_line(ctx, rb2, BQ)
    if info is not None:
        check_line_recogniser(ctx, BQ, info, rb2, rb2, rb2, only={"canon", "capture", "groups", "upper"})
    r9 = rep.rule("index", "governing index = last tempo event at or before the tick (guards + scan, C11)", floor=3)
    T.check_index(r9, r9)
    rrf = rep.rule("resolution-field", "the resolution every tick-to-time conversion and tick distance uses is the integer written on "
                                       "the [Song] Resolution line (converter int, digits-only capture)", floor=3)
    from .C15 import check_resolution_field
    check_resolution_field(ctx, rrf)
    return T
