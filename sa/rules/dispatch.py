"""dispatch -- the per-line dispatcher (schema S3) and the section -> kind -> builder wiring of the three track kinds.
Shared by C02, C05, C06, C09, C13, C14, C15."""
from __future__ import annotations

import ast
from typing import Any, Optional

from ..context import Ctx
from ..match import ANYP, H, match, strip
from ..report import Rule
from ..terms import show, subterms
from .lib import cond_str, exc_name, fail, live_exits

PARSE = "chartparse.track.parse_data_from_chart_lines"
BUILD = "chartparse.track.build_events_from_data"
PDM = "chartparse.track.ParsedDataMap"
TRACKS = {
    "instrument": "chartparse.instrument.InstrumentTrack",
    "sync": "chartparse.sync.SyncTrack",
    "global": "chartparse.globalevents.GlobalEventsTrack",
}


def check_dispatcher(ctx: Ctx, r: Rule) -> None:
    f = ctx.func(PARSE)
    s = ctx.summary(f)
    ps = f.params()
    types, lines = ("param", ps[0]), ("param", ps[1])
    r.inst(f"{f.qual}: per-item dispatch schema S3")
    outer = [l for l in s.loops.values() if l.parent is None]
    if len(outer) != 1 or len(s.loops) != 2:
        fail(r, ctx, f, f.node, f"dispatcher must be `for line in lines: for t in types: ... else: warn` (schema S3); found "
                                f"{len(s.loops)} loops")
        return
    L1 = outer[0]
    L2 = [l for l in s.loops.values() if l.parent == L1.id][0]
    if L1.kind != "for" or strip(L1.iter) != lines:
        fail(r, ctx, f, L1.node, f"outer loop must visit every body line once, in file order (iterate `lines` itself); iterates "
                                 f"{show(L1.iter)[:120] if L1.iter else '?'}")
    if L2.kind != "for" or strip(L2.iter) != types:
        fail(r, ctx, f, L2.node, f"inner loop must try the kinds in the order given; iterates {show(L2.iter)[:120] if L2.iter else '?'}")
    if not L2.has_else:
        fail(r, ctx, f, L2.node, "inner loop has no else arm: an unclaimed line is not reported")
    line, t = ("elem", L1.id), ("elem", L2.id)
    # the recogniser call
    calls = [c for c in s.calls if c.fn == ("meth", "from_chart_line")]
    if len(calls) != 1 or calls[0].args != (t, line) or calls[0].loops != (L1.id, L2.id):
        fail(r, ctx, f, L2.node, f"each kind must be tried exactly once on the current line (t.from_chart_line(line)); found "
                                 f"{[show(c.result)[:80] for c in calls]}")
        return
    call = calls[0]
    if len(call.trys) != 1:
        fail(r, ctx, f, call.node, "the recogniser call must sit in exactly one try")
        return
    tid, handlers = call.trys[0]
    hn = [exc_name(h) for hs in handlers if hs is not None for h in hs]
    if any(hs is None for hs in handlers) or hn != ["chartparse.exceptions.RegexNotMatchError"]:
        fail(r, ctx, f, s.trys[tid].node, f"the handler around the recogniser must catch exactly RegexNotMatchError (a wider handler "
                                          f"turns decoding errors into silent skips); it catches {hn or 'everything'}")
    tnode = s.trys[tid].node
    if len(tnode.body) != 1:
        fail(r, ctx, f, tnode, "the try body must contain only the recogniser call")
    last_in_body = bool(L2.node.body) and L2.node.body[-1] is tnode
    for h in tnode.handlers:
        okh = len(h.body) == 1 and (isinstance(h.body[0], ast.Continue) or (isinstance(h.body[0], ast.Pass) and last_in_body))
        if not okh:
            fail(r, ctx, f, tnode, "the RegexNotMatchError handler must only go on with the next kind (`continue`, or `pass` when the try "
                                   "statement ends the loop body)")
    # the map
    ex = live_exits(s)
    if len(ex) != 1 or ex[0].kind != "ret" or ex[0].loops or ex[0].value[0] != "call" or ex[0].value[1] != ("class", PDM):
        fail(r, ctx, f, f.node, f"dispatcher must return the map it allocated for this call; found "
             + "; ".join(f"{e.kind} {show(e.value)[:60]}" for e in ex))
        return
    m = ex[0].value
    good_cond = None
    appends = [e for e in s.effects if e.kind == "mutcall" and e.key == "append"]
    others = [e for e in s.effects if e not in appends]
    for e in others:
        fail(r, ctx, f, e.node, f"dispatcher has an extra effect ({e.kind} {e.key if isinstance(e.key, str) else ''} on "
                                f"{show(e.target)[:80]}): state shared between lines or calls")
    tgt_forms = [
        ("call", ("meth", "__getitem__"), (("attr", m, "_dict"), t), ()),
        ("sub", ("attr", m, "_dict"), t),
        ("sub", m, t),
    ]
    if len(appends) != 1:
        fail(r, ctx, f, L2.node, f"exactly one append per claimed line expected; found {len(appends)}")
    else:
        ap = appends[0]
        if not any(strip(ap.target) == strip(tf) for tf in tgt_forms):
            fail(r, ctx, f, ap.node, f"the datum must be appended to the list of the kind that claimed it (m[t]); target is {show(ap.target)[:120]}")
        if strip(ap.value[0]) != strip(call.result):
            fail(r, ctx, f, ap.node, f"the appended value must be the datum decoded from *this* line by *this* kind; found {show(ap.value[0])[:160]}")
        want_cond = [(("inloop", L1.id), True), (("inloop", L2.id), True), (("raises", tid), False)]
        if list(ap.cond) != want_cond or ap.loops != (L1.id, L2.id):
            fail(r, ctx, f, ap.node, f"append must happen exactly when the recogniser did not raise; found when {cond_str(ap.cond)[:200]}")
        good_cond = ap.cond
    inl = [e for e in s.exits if e.loops]
    brk = [e for e in inl if e.kind == "break"]
    cont = [e for e in inl if e.kind == "continue"]
    for e in inl:
        if e.kind in ("ret", "raise"):
            fail(r, ctx, f, e.node, f"dispatcher leaves from inside the loops with {e.kind}")
    if len(brk) != 1 or (good_cond is not None and brk[0].cond != good_cond) or brk[0].loops != (L1.id, L2.id):
        fail(r, ctx, f, L2.node, "after a successful append the inner loop must `break` (first match wins): without it a line is "
                                 f"claimed by every later kind that also matches; found {len(brk)} break(s)"
             + (f" when {cond_str(brk[0].cond)[:160]}" if brk else ""))
    if len(cont) > 1 or (len(cont) == 0 and not all(isinstance(h.body[0], ast.Pass) for h in tnode.handlers)):
        fail(r, ctx, f, L2.node, f"at most one `continue` (in the handler) expected; found {len(cont)}")
    # else arm: one warning
    warns = [c for c in s.calls if c.fn == ("meth", "warning") and c.loops and c.loops[-1].endswith(":else")]
    elsecalls = [c for c in s.calls if c.loops and c.loops[-1].endswith(":else") and not c.inlined and c.fn[0] != "builtin"]
    if len(warns) != 1:
        fail(r, ctx, f, L2.node, f"the else arm must report the unclaimed line exactly once (logger.warning); found {len(warns)}")
    # no loop-carried state across lines
    for root in [e.value for e in s.effects if isinstance(e.value, tuple)] + [e.value for e in s.exits] + \
                [a for e in list(s.exits) for a, _ in e.cond] + [a for e in s.effects for a, _ in e.cond] + \
                [x for c in s.calls for x in c.args]:
        for tt in subterms(root):
            if tt[0] in ("lv", "la") and tt[1] == L1.id:
                fail(r, ctx, f, L1.node, f"value `{tt[2]}` is carried from one line to the next (or out of the loop): a line's outcome "
                                         f"would depend on its neighbours")
                return
            if tt[0] == "lv" and tt[1] == L2.id:
                fail(r, ctx, f, L2.node, f"value `{tt[2]}` is carried between kinds/lines")
                return
    # the map class
    c = ctx.cls(PDM)
    init = c.find_method("__init__")
    gi = c.find_method("__getitem__")
    oki = False
    if init is not None:
        si = ctx.summary(init)
        st = [e for e in si.effects if e.kind == "store_attr"]
        oki = len(si.effects) == 1 and len(st) == 1 and st[0].key == "_dict" and \
            strip(st[0].value) == ("call", ("ext", "collections.defaultdict"), (("builtin", "list"),), ())
    if not oki:
        fail(r, ctx, init or c, (init.node if init else c.node), "ParsedDataMap must allocate its own defaultdict(list) per instance")
    if gi is not None:
        sg = ctx.summary(gi)
        rt = sg.ret_term()
        k = ("param", gi.params()[1])
        if not any(strip(rt) == strip(x) for x in (("call", ("meth", "__getitem__"), (("attr", ("self", PDM), "_dict"), k), ()),
                                                   ("sub", ("attr", ("self", PDM), "_dict"), k))):
            fail(r, ctx, gi, gi.node, f"ParsedDataMap[k] must be its own dict's list for k; found {show(rt)[:120]}")


def kinds_of(ctx: Ctx, which: str):
    """(class, parse-helper FuncInfo, tuple of ParsedData class quals in the order tried, {ParsedData qual: tuple index
    in the helper's result})."""
    cq = TRACKS[which]
    c = ctx.cls(cq)
    # discovered, not named: the method of this class that from_chart_lines calls and that itself calls the dispatcher
    pf = None
    fcl = c.find_method("from_chart_lines")
    if fcl is not None:
        for cl in ctx.summary(fcl).calls:
            if cl.fn[0] in ("func", "boundcls") and not cl.inlined:
                g = ctx.prog.functions.get(cl.fn[1])
                if g is not None and g.cls is not None and g.cls in c.mro and any(x.fn == ("func", PARSE) for x in ctx.summary(g).calls):
                    pf = g
    direct = False
    if pf is None and fcl is not None and any(x.fn == ("func", PARSE) for x in ctx.summary(fcl).calls):
        pf, direct = fcl, True  # the dispatcher is called by from_chart_lines itself (or through a helper the evaluator inlined)
    if pf is None:
        return c, None, None, None, None
    s = ctx.summary(pf)
    rt = s.ret_term() if not direct else None
    order = None
    pcall = None
    for cl in s.calls:
        if cl.fn == ("func", PARSE):
            pcall = cl
            kw = dict(cl.kwargs)
            pf_params = ctx.func(PARSE).params()
            tt = kw.get(pf_params[0])
            if tt is not None and tt[0] == "tuple" and all(x[0] == "class" for x in tt[1]):
                order = [x[1] for x in tt[1]]
    idx = {}
    if direct and order is not None:
        idx = {k: ("direct",) for k in order}
    if rt is not None and rt[0] == "tuple" and pcall is not None:
        for k, el in enumerate(rt[1]):
            for form in (("call", ("meth", "__getitem__"), (("attr", pcall.result, "_dict"), ("class", H("k"))), ()),
                         ("sub", pcall.result, ("class", H("k")))):
                b = match(form, el)
                if b is not None:
                    idx[b["k"]] = k
    return c, pf, order, idx, pcall


def check_track_sections(ctx: Ctx, r: Rule, which: str, strict: Any = True) -> dict:
    """from_chart_lines of one track class: own lines -> dispatcher (kinds as listed) -> per-kind builder -> own field."""
    c, pf, order, idx, pcall = kinds_of(ctx, which)
    cq = c.qual
    out = {"order": order}
    f = c.find_method("from_chart_lines")
    if f is None or pf is None:
        fail(r, ctx, c, c.node, f"{c.name}.from_chart_lines no longer hands its lines to the dispatcher through a helper of its own class")
        return out
    r.inst(f"{cq}: lines -> kinds -> builders -> fields")
    ps = pf.params()
    parse_params = ctx.func(PARSE).params()
    if pcall is None or order is None:
        fail(r, ctx, pf, pf.node, "the section's lines are not handed to the dispatcher with a literal tuple of kinds")
        return out
    direct = any(v == ("direct",) for v in idx.values())
    lines_formal = None
    for p_ in ps:
        if ctx.ev.types.param_type(pf, p_) == ("seq", ("ext", "builtins.str")):
            lines_formal = ("param", p_)
    if lines_formal is None:
        lines_formal = ("param", ps[1])
    if (strict is True or strict == "bpm") and strip(dict(pcall.kwargs).get(parse_params[1])) != lines_formal:
        fail(r, ctx, pf, pcall.node, f"the dispatcher must receive the section's own lines unchanged (every line, in order, "
                                     f"duplicates included); it receives {show(dict(pcall.kwargs).get(parse_params[1]))[:120]}")
    spf = ctx.summary(pf)
    if not direct and (spf.effects or spf.loops or len(live_exits(spf)) != 1):
        fail(r, ctx, pf, pf.node, "the kind-list helper must be a single return without effects")
    for k in idx:
        if k not in order:
            fail(r, ctx, pf, pf.node, f"the list of {k} is read but {k} is not among the kinds tried")
    s = ctx.summary(f)
    ex = live_exits(s)
    if len(ex) != 1 or ex[0].kind != "ret" or ex[0].cond or s.effects or s.loops:
        fail(r, ctx, f, f.node, f"{c.name}.from_chart_lines must be one unconditional construction; found {len(ex)} exits, "
                                f"{len(s.effects)} effects, {len(s.loops)} loops")
        return out
    v = ex[0].value
    if not (v[0] == "call" and v[1][0] in ("clsparam", "class") and v[1][1] == cq):
        fail(r, ctx, f, ex[0].node, f"result is not a {c.name} construction: {show(v)[:160]}")
        return out
    kw = dict(v[3])
    fps = f.params()
    lines_param = None
    for p in fps:
        t = ctx.ev.types.param_type(f, p)
        if t == ("seq", ("ext", "builtins.str")):
            lines_param = ("param", p)
    PC = ("call", ("func", pf.qual), (), tuple(sorted({ps[0]: ("clsparam", cq), ps[1]: lines_param}.items())))
    build_params = ctx.func(BUILD).params()
    out["fields"] = {}
    for field, val in sorted(kw.items()):
        if not (val[0] == "call" and val[1][0] in ("func", "boundcls")):
            continue
        if val[1][1] == BUILD:
            bk = dict(val[3])
            et = bk.get(build_params[0])
            if et is None or et[0] != "class":
                fail(r, ctx, f, ex[0].node, f"field {field}: event kind is not a class constant: {show(et)}")
                continue
            pdq = et[1] + ".ParsedData"
            # field annotation agrees with the kind
            ft = ctx.ev.types.field_type(c, field)
            et_ok = ft in (("seq", ("inst", et[1])), ("inst", "chartparse.sync.BPMEvents") if et[1].endswith("BPMEvent") else None)
            if not et_ok:
                fail(r, ctx, f, ex[0].node, f"field {field} is declared {ft} but is filled with {et[1]} events")
            want_d = ("proj", PC, idx.get(pdq, -1)) if not direct else \
                ("?or", ("call", ("meth", "__getitem__"), (("attr", pcall.result, "_dict"), ("class", pdq)), ()), ("sub", pcall.result, ("class", pdq)))
            is_strict = strict is True or (strict == "bpm" and et[1].endswith(".BPMEvent"))
            got_d = bk.get(build_params[1])
            if direct and pdq in idx and match(want_d, got_d) is not None:
                out["fields"][field] = (et[1], bk.get(build_params[2]), val)
                continue
            if not is_strict:
                # order / multiplicity of the data is irrelevant for the calling property: accept any term derived from the
                # right component of the kind-list helper
                loose = ("proj", ("call", ("func", pf.qual), (), ANYP), idx.get(pdq, -1)) if not direct else want_d
                if pdq in idx and got_d is not None and any(match(loose, t) is not None for t in subterms(got_d)):
                    out["fields"][field] = (et[1], bk.get(build_params[2]), val)
                    continue
            if pdq not in idx or direct or strip(got_d) != strip(want_d):
                fail(r, ctx, f, ex[0].node, f"field {field}: the {et[1].rsplit('.', 1)[-1]} builder must receive exactly the data the "
                                            f"dispatcher collected for {pdq.split('.', 1)[1]} from this section's own lines, in file order "
                                            f"(component {idx.get(pdq)} of the kind-list helper); it receives "
                                            f"{show(bk.get(build_params[1]))[:200]}")
            out["fields"][field] = (et[1], bk.get(build_params[2]), val)
    # every event-list field of the track is produced by a builder (none left to a stale or missing value)
    for fl in c.dc_fields():
        ft = ctx.ev.types.field_type(c, fl.name)
        is_events = ft is not None and ((ft[0] == "seq" and ft[1][0] == "inst" and ft[1][1] in ctx.prog.classes
                                         and any(getattr(k, "qual", k) == "chartparse.event.Event" for k in ctx.prog.classes[ft[1][1]].mro))
                                        or ft == ("inst", "chartparse.sync.BPMEvents"))
        if not is_events:
            continue
        v_ = kw.get(fl.name)
        if fl.name in out["fields"]:
            continue
        if v_ is not None and v_[0] == "call" and v_[1][0] in ("func", "boundcls") and v_[1][1] != BUILD:
            # a dedicated builder (note events; its loop is checked by the note rules): it must be fed this kind's own data list
            pdq = ft[1][1] + ".ParsedData" if ft[0] == "seq" else None
            if pdq is not None and pdq in idx:
                want_l = ("proj", PC, idx[pdq]) if not direct else \
                    ("?or", ("call", ("meth", "__getitem__"), (("attr", pcall.result, "_dict"), ("class", pdq)), ()), ("sub", pcall.result, ("class", pdq)))
                args_ = [a for _, a in v_[3]]
                if not any((match(want_l, a) is not None) if direct else (strip(a) == strip(want_l)) for a in args_):
                    fail(r, ctx, f, ex[0].node, f"the {fl.name} builder must receive exactly the data the dispatcher collected for {pdq.split('.', 1)[1]} from "
                                                f"this section's own lines; it receives {[show(a)[:80] for a in args_]}")
            elif pdq is not None:
                fail(r, ctx, f, ex[0].node, f"{pdq.split('.', 1)[1]} is not among the kinds whose data this section collects")
            continue
        fail(r, ctx, f, ex[0].node, f"field {fl.name} of {c.name} is not the result of a per-kind builder applied to this section's data; found "
                                    f"{show(v_)[:120] if v_ else None}")
    return out
