"""C09 -- global events are classified lyric / section / text with verbatim values."""
from .. import rx
from .decode import check_event_fields, check_from_chart_line
from .dispatch import check_dispatcher, check_track_sections, kinds_of
from .lang import LINE_SPECS, P, U_EVENT, b, D, check_line_recogniser
from .lib import fail
from .timing import Timing

LEVEL = "proof"
GL = "chartparse.globalevents."
SPEC = {
    GL + "LyricEvent.ParsedData": rf'{b}*{D}+ = E "lyric [^\n]*"{b}*',
    GL + "SectionEvent.ParsedData": rf'{b}*{D}+ = E "section [^\n]*"{b}*',
    GL + "TextEvent.ParsedData": rf'{b}*{D}+ = E "[^"\n]*"{b}*',
}


def run(ctx, rep):
    rep.explanation = (
        "With kinds tried in the order read at the dispatch site and first success ending the attempt (schema S3), kind k "
        "receives Eff_k = L_k minus the union of earlier kinds.  Decided by automata for all strings: Eff_k ∩ U = Spec_k for the "
        "three kinds (U = quoted event lines; Spec_text excludes texts starting with 'lyric ' / 'section '), L_k ⊆ Upper_k, and "
        "capture exactness (tick, value) under backtracking priority -- values may contain quotes, '=', brackets, non-ASCII; "
        "the closing quote is the last quote.  File order per list: S3 + the section wiring + the fold.")
    rep.trusted += ["re._parser", "ordered-thread simulation == sre backtracking (validated in selftest/rx_validate.py)"]
    r0 = rep.rule("decode", "from_chart_line closed-world for lyric / section / text", floor=3)
    rl = rep.rule("language", "L_k ⊆ Upper_k; canonical lines of kind k accepted by recogniser k", floor=6)
    rc = rep.rule("capture", "captures (tick, value) exactly: value verbatim, closing quote = last quote", floor=3)
    rg = rep.rule("groups", "tick group ⊆ \\d+; unpack arity", floor=6)
    re_ = rep.rule("effective", "Eff_k ∩ U = Spec_k under first-match-wins in the order at the dispatch site", floor=3)
    c, pf, order, idx, pcall = kinds_of(ctx, "global")
    if pf is None:
        pf = c.find_method("from_chart_lines") or c
    impls = {}
    if order is None:
        fail(re_, ctx, c, c.node, "cannot read the kind order at the global-events dispatch site")
        order = []
    for cq in order:
        if cq not in SPEC:
            fail(re_, ctx, pf, pf.node, f"unexpected kind {cq} in the events section")
            continue
        info = check_from_chart_line(ctx, r0, cq)
        if info is not None:
            impls[cq] = check_line_recogniser(ctx, cq, info, rl, rc, rg)
    for cq in SPEC:
        if cq not in order:
            fail(re_, ctx, pf, pf.node, f"kind {cq.replace('chartparse.', '')} is not tried in the events section")
    U = P(U_EVENT)
    lyric_s, section_s = P(SPEC[GL + "LyricEvent.ParsedData"]), P(SPEC[GL + "SectionEvent.ParsedData"])
    earlier = []
    for cq in order:
        impl = impls.get(cq)
        short = cq.replace(GL, "").replace(".ParsedData", "")
        re_.inst(f"{short}: Eff ∩ U = Spec  (tried after {[e[0] for e in earlier] or 'nothing'})")
        if impl is None:
            continue
        eff = rx.difference(impl, *[e[1] for e in earlier]) if earlier else rx.union(impl)
        got = rx.intersect(eff, U)
        if cq.endswith("TextEvent.ParsedData"):
            want = rx.difference(P(SPEC[cq]), lyric_s, section_s)
        else:
            want = rx.union(P(SPEC[cq]))
        w1 = got.included_in(want)
        w2 = want.included_in(got)
        if w1 is not None:
            fail(re_, ctx, pf, pf.node, f"the quoted event line {w1!r} lands in the {short} list although it is not a {short} line by "
                                        f"the specification (kind order {[o.replace(GL, '').replace('.ParsedData', '') for o in order]})", witness=w1)
        if w2 is not None:
            fail(re_, ctx, pf, pf.node, f"the {short} line {w2!r} does not land in the {short} list (an earlier kind claims it, or the "
                                        f"recogniser rejects it)", witness=w2)
        earlier.append((short, impl))
    rs = rep.rule("route", "events section: own lines -> dispatcher -> per-kind builders in file order; lists read under their own keys", floor=2)
    check_track_sections(ctx, rs, "global")
    check_dispatcher(ctx, rs)
    rf = rep.rule("fields", "event value = data.value, tick = data.tick; one fold per kind, datum by datum", floor=2)
    check_event_fields(ctx, rf, "chartparse.globalevents.GlobalEvent", {"value": lambda d: ("attr", d, "value"), "tick": lambda d: ("attr", d, "tick")})
    Timing(ctx).check_folds(rf)
    rch = rep.rule("chain", "file -> lines (read().splitlines(), utf-8-sig) -> framing -> section route -> dispatcher -> builders: every link "
                            "hands the lines on unchanged", floor=10)
    from .chain import check_chain
    check_chain(ctx, rch, "global", strict=True)
