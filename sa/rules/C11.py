"""C11 -- lookup hints are invisible; timestamps are never silently misplaced."""
from .timing import Timing
from .notes import Notes
from .wiring import check_all_sections

LEVEL = "other"


def run(ctx, rep):
    rep.explanation = (
        "Hint-independence lemma (DESIGN C11): if the index function is G1 (hint > last -> ValueError), G2 (events[hint].tick > "
        "tick -> ValueError) followed by the first-hit scan min{i in [hint,last): events[i+1].tick > tick} else last, then for every "
        "valid hint the result is g(t).  The rule checks G1/G2 as exact rejected sets dominating every return, the scan against "
        "schema S2 (start = hint, end = last, strict >, returns the scanned index, default last), that the query depends on (tick, "
        "index) only, that every hint at the 6 hinted call sites is 0 / the same list's predecessor cursor / the carried cursor, and "
        "that each stored cursor is the index returned by the very query whose time is stored; and that nothing reachable from the query "
        "writes state that outlives the call (a stored time equals a later query only if the query is a function of its arguments).")
    T = Timing(ctx)
    rg = rep.rule("guards", "G1/G2 are exactly {hint > last}, {events[hint].tick > tick}; both ValueError; before every return", floor=2)
    rs = rep.rule("scan", "S2: range(hint, last), predicate events[i+1].tick > tick, returns i, default last", floor=1)
    T.check_index(rg, rs)
    rq = rep.rule("query", "timestamp and returned index are functions of (tick, index(tick, hint)) only", floor=1)
    T.check_Q(rq)
    T.check_noopt(rq)
    r5 = rep.rule("stamps", "stored timestamp = Q0(own tick, hint)", floor=4)
    rh = rep.rule("hints", "hint sources in {0, prev._proximal_bpm_event_index if prev else 0, carried cursor}; stored cursor = "
                           "index of the same query", floor=5)
    T.check_stamp_sites(r5, rh)
    N = Notes(ctx, T)
    N.check_time_wiring(r5, rh)
    rf = rep.rule("folds", "predecessor = last event appended to the same list (S4); one tempo map per chart", floor=6)
    T.check_folds(rf)
    check_all_sections(ctx, rf, strict=False)
    rc = rep.rule("note-cursor", "tempo cursor threaded through the grouping loop: init 0, own keyword, own result component", floor=1)
    rx = rep.rule("S1", "grouping loop shape (cursor carried per group)", floor=1)
    N.check_grouping(rx, rc)
    ro = rep.rule("order", "tempo ticks strictly increasing (so g(t) is well defined)", floor=4)
    ra = rep.rule("accumulate", "tempo event construction", floor=2)
    T.check_accumulate(ra, ro)
    rpu = rep.rule("pure-query", "the query, its index function and the seconds function write nothing that outlives the call: the "
                                 "same (tick, tempo map) gives the same time at parse time and when queried later", floor=3)
    from .effects_lib import check_pure_reachable
    check_pure_reachable(ctx, rpu, ["chartparse.sync.BPMEvents.timestamp_at_tick",
                                    "chartparse.sync.BPMEvents.timestamp_at_tick_no_optimize_return"])
    rrf = rep.rule("resolution-field", "the resolution every tick-to-time conversion and tick distance uses is the integer written on "
                                       "the [Song] Resolution line (converter int, digits-only capture)", floor=3)
    from .C15 import check_resolution_field
    check_resolution_field(ctx, rrf)
    rch = rep.rule("chain", "file -> lines (read().splitlines(), utf-8-sig) -> framing -> section route -> dispatcher -> builders: every link "
                            "hands the lines on unchanged", floor=10)
    from .chain import check_chain
    check_chain(ctx, rch, "all", strict=False)
