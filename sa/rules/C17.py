"""C17 -- parsing is a pure function of the text, free of history and schedule."""
import os

from ..context import Ctx
from ..report import AnalysisError, Report
from .effects_lib import Purity

LEVEL = "other"
ENTRY = ["chartparse.chart.Chart.from_file", "chartparse.chart.Chart.from_filepath"]


def rules(ctx, rep, entries, floors=True):
    P = Purity(ctx, entries)
    r1 = rep.rule("W1+W2+W5.writes", "every write in the package targets an object allocated inside the same call (or self during "
                                     "construction); nothing writes module/class-level state", floor=5 if floors else 0)
    P.check_writes(r1, "all")
    r1b = rep.rule("W5.closures", "nested helpers write only fresh locals of their enclosing call", floor=1 if floors else 0)
    P.check_free_roots(r1b)
    r3 = rep.rule("W3.defaults", "no mutable default arguments", floor=0)
    P.check_defaults(r3)
    r4 = rep.rule("W4+W6.memo", "memoised functions and cached properties are pure, hashable-keyed and return immutable values", floor=0)
    P.check_memoised(r4)
    r7 = rep.rule("W7.ambient", "parse-reachable code reads no ambient state (environment, clock, randomness, argv, other files, hash())", floor=20 if floors else 0)
    P.check_ambient(r7, "all" if ctx.tier == "thorough" and floors else "reach")
    r8 = rep.rule("W8.order", "no result is built by iterating an unordered set (hash-seed dependent order)", floor=5 if floors else 0)
    P.check_unordered(r8, "all" if ctx.tier == "thorough" and floors else "reach")
    r9 = rep.rule("import-time", "import-time effects are the verified list (logging.basicConfig only)", floor=0)
    P.check_import_time(r9)
    r0 = rep.rule("inventory", "module/class-level mutable objects (each must have zero mutation sites, W1)", floor=0)
    P.inventory(r0)
    return P


def positive_control():
    """The same rules on a fixture package: each seeded impurity must be reported; a silent fixture is exit 2."""
    root = os.path.join(os.path.dirname(os.path.dirname(os.path.abspath(__file__))), "fixtures", "purity")
    fctx = Ctx(root, "quick", package="fx", min_modules=1)
    frep = Report("C17", "quick", "other", root)
    rules(fctx, frep, ["fx.m.entry"], floors=False)
    got = {f.construct for f in frep.findings()}
    want = {"fx.m.appends_module_list", "fx.m.fills_module_memo", "fx.m.mutable_default", "fx.m.reads_environment",
            "fx.m.iterates_a_set", "fx.m.cached_returns_list", "fx.m.Holder.__init__", "fx.m.extends_alias_in_place", "fx.m.cached_logs"}
    missing = want - got
    if missing:
        raise AnalysisError(f"purity positive controls silent for {sorted(missing)}: the effect rules no longer fire")
    return len(want)


def run(ctx, rep):
    rep.explanation = (
        "Two parses can influence each other only through state that outlives a call or through ambient inputs.  Interprocedural "
        "effect analysis over the resolved call graph: every store / augmented store / delete / mutating call in the package is "
        "classified by the root of its target (fresh allocation of this call, parameter -- resolved through all call sites --, self "
        "during construction, module/class-level object, unknown); memoised functions and cached properties must be pure with "
        "immutable results; no mutable defaults; no ambient reads, no hash(), no iteration over unordered sets on the parse path; "
        "import-time effects limited to logging.basicConfig().  Positive controls (a fixture package with nine seeded impurities) "
        "must fire on every run.")
    rep.trusted += ["functools.lru_cache / cached_property are thread-safe memo tables keyed by all arguments / the instance"]
    n = positive_control()
    rules(ctx, rep, ENTRY)
    rc = rep.rule("controls", "positive controls on the fixture package were all reported", floor=1)
    rc.inst(f"{n} seeded impurities reported in sa/fixtures/purity")
    # "observably identical": the rendering of a parsed chart must not contain anything history-dependent either
    from .C19 import reachable_classes
    rr = rep.rule("W9.render", "every class whose instances a parsed Chart contains renders by value: __repr__ is dataclass-generated, "
                               "defined in the package or an enum's -- never object.__repr__, which prints the memory address (different "
                               "in every parse, thread and process)", floor=10)
    for q, c in sorted(reachable_classes(ctx, "chartparse.chart.Chart").items()):
        if c.is_enum():
            rr.inst(f"{q}: enum rendering")
            continue
        kind, who = c.effective_special("__repr__")
        rr.inst(f"{q}: __repr__ from {kind} {getattr(who, 'qual', '') or ''}")
        if kind == "object":
            rr.fail(q, f"{q} is reachable from a parsed Chart but has no value-based __repr__ (repr=False without a repr mixin, or a plain class): "
                       f"repr() of the chart contains the object's address and differs between two parses of the same text",
                    file=c.module.path, line=c.node.lineno, stmt=f"class {c.name}")

