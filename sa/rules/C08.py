"""C08 -- tempo, time-signature and anchor lines decode to exact values."""
from ..match import H, match
from ..terms import show
from .decode import check_bpm_value, check_event_fields, check_from_chart_line
from .dispatch import check_dispatcher, check_track_sections, kinds_of
from .lang import check_line_recogniser
from .lib import fail, is_none_atom
from .timing import TIMEDELTA, Timing

LEVEL = "proof"
KINDS = ["chartparse.sync.BPMEvent.ParsedData", "chartparse.sync.TimeSignatureEvent.ParsedData",
         "chartparse.sync.AnchorEvent.ParsedData"]
TS = "chartparse.sync.TimeSignatureEvent"


def check_ts_numerals(ctx, r):
    c = ctx.cls(TS)
    f = c.find_method("from_parsed_data")
    r.inst(f"{TS}.from_parsed_data: upper = data.upper; lower = 2**data.lower, default 4")
    s = ctx.summary(f)
    data = ("param", f.params()[1])
    for e in s.rets():
        v = e.value
        if not (v[0] == "call" and v[1][0] in ("clsparam", "class")):
            fail(r, ctx, f, e.node, f"not a construction: {show(v)[:120]}")
            continue
        kw = dict(v[3])
        if kw.get("upper_numeral") != ("attr", data, "upper"):
            fail(r, ctx, f, e.node, f"upper numeral must be data.upper; found {show(kw.get('upper_numeral'))[:120]}")
        lo = kw.get("lower_numeral")
        ok = False
        if lo is not None and lo[0] == "ite":
            isn = is_none_atom(("attr", data, "lower"))(lo[1])
            a_, b_ = (lo[2], lo[3]) if isn is True else ((lo[3], lo[2]) if isn is False else (None, None))
            if a_ is not None:
                try:
                    dflt = ctx.fold.fold(a_)
                except Exception:
                    dflt = None
                ok = dflt == 4 and b_ == ("binop", "**", ("const", 2), ("attr", data, "lower"))
        if not ok:
            fail(r, ctx, f, e.node, "lower numeral must be 4 when the line has no second number (data.lower is None -- an explicit "
                                    f"exponent 0 means 1) and 2 ** data.lower otherwise; found {show(lo)[:200] if lo else None}")


def check_anchor(ctx, r):
    c = ctx.cls("chartparse.sync.AnchorEvent")
    f = c.find_method("from_parsed_data")
    r.inst("AnchorEvent.from_parsed_data: timestamp = timedelta(microseconds=data.microseconds)")
    s = ctx.summary(f)
    data = ("param", f.params()[1])
    want_ts = ("call", TIMEDELTA, (), (("microseconds", ("attr", data, "microseconds")),))
    rets = s.rets()
    if len(rets) != 1 or s.effects or len([e for e in s.exits if e.kind == "raise"]):
        fail(r, ctx, f, f.node, "anchor builder must be one unconditional construction")
        return
    v = rets[0].value
    kw = dict(v[3]) if v[0] == "call" else {}
    if kw.get("timestamp") != want_ts or kw.get("tick") != ("attr", data, "tick"):
        fail(r, ctx, f, rets[0].node, f"anchor must be (tick=data.tick, timestamp=timedelta(microseconds=data.microseconds)); found {show(v)[:200]}")


def run(ctx, rep):
    rep.explanation = (
        "Same automata obligations as C07 for the B / TS (one and two numbers) / A recognisers, plus: the tempo value reaching "
        "BPMEvent(bpm=) is int(raw)/1000 -- one correctly rounded operation on exact operands (rounding count 1) -- and the "
        "validator is round(bpm,3) != bpm, which cannot reject such a value; lower numeral = 2**l, default 4 exactly when the "
        "optional group did not take part; anchor = timedelta(microseconds=int).")
    rep.trusted += ["re._parser", "ordered-thread simulation == sre backtracking (validated in selftest/rx_validate.py)",
                    "CPython int/int true division is correctly rounded; round(x,3)==x for the double nearest to a 3-decimal number"]
    r0 = rep.rule("decode", "from_chart_line closed-world for B / TS / A", floor=3)
    rl = rep.rule("language", "Canon ⊆ L(shipped) ⊆ Upper", floor=6)
    rc = rep.rule("capture", "captures exactly the written numbers (TS: second number optional, never split off the first)", floor=3)
    rg = rep.rule("groups", "numeric groups ⊆ \\d+; unpack arity", floor=9)
    for cq in KINDS:
        info = check_from_chart_line(ctx, r0, cq)
        if info is not None:
            check_line_recogniser(ctx, cq, info, rl, rc, rg)
    rb = rep.rule("bpm", "bpm = int(raw_bpm)/1000 (single rounding); validator cannot reject it", floor=2)
    T_ = Timing(ctx)
    check_bpm_value(ctx, rb, T_)
    rac = rep.rule("accepted", "a decoded tempo line is rejected by its builder only for a tick that does not exceed its predecessor's: no "
                               "other condition can refuse a written value", floor=2)
    T_.check_accumulate(rac, rac)
    rt = rep.rule("ts", "time signature numerals", floor=1)
    check_ts_numerals(ctx, rt)
    ra = rep.rule("anchor", "anchor microseconds", floor=1)
    check_anchor(ctx, ra)
    rs = rep.rule("route", "the sync section hands its own lines to exactly these kinds; builders get each kind's own data", floor=2)
    check_track_sections(ctx, rs, "sync")
    check_dispatcher(ctx, rs)
    c, pf, order, idx, pcall = kinds_of(ctx, "sync")
    if pf is None:
        pf = c.find_method("from_chart_lines") or c
    rs.inst(f"sync kinds tried: {order}")
    if order is not None and sorted(order) != sorted(KINDS):
        fail(rs, ctx, pf, pf.node, f"sync section tries kinds {order}; expected the tempo, time-signature and anchor recognisers")
    rch = rep.rule("chain", "file -> lines (read().splitlines(), utf-8-sig) -> framing -> section route -> dispatcher -> builders: every link "
                            "hands the lines on unchanged", floor=10)
    from .chain import check_chain
    check_chain(ctx, rch, "sync", strict=True)
    rfo = rep.rule("folds", "each kind's data are folded datum by datum, in order, by that kind's own builder with its predecessor and the tempo map", floor=6)
    from .timing import Timing as _T
    _T(ctx).check_folds(rfo)
