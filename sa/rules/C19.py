"""C19 -- a parsed chart is an immutable value under all read-only use."""
import ast

from ..terms import show, subterms
from .effects_lib import Purity, root_of
from .lib import fail

LEVEL = "other"
CHART = "chartparse.chart.Chart"
CONSTRUCTORS = ("__init__", "__post_init__", "__new__")


def reachable_classes(ctx, start):
    """Classes reachable from `start`'s annotated attributes (through Sequence / dict / Optional / NewType)."""
    seen = {}
    stack = [ctx.cls(start)]

    def types_of(t, out):
        if t is None:
            return
        if t[0] == "inst":
            out.append(t[1])
        elif t[0] in ("seq", "type"):
            types_of(t[1], out)
        elif t[0] == "dict":
            types_of(t[1], out)
            types_of(t[2], out)
        elif t[0] in ("union", "tup"):
            for x in t[1]:
                types_of(x, out)

    while stack:
        c = stack.pop()
        if c.qual in seen:
            continue
        seen[c.qual] = c
        for k in c.pkg_mro():
            for name, (v, a, ln) in k.body_assigns.items():
                if a is None:
                    continue
                out = []
                types_of(ctx.ev.types.parse(a, k.module, k, None), out)
                for q in out:
                    cc = ctx.prog.classes.get(q)
                    if cc is not None and cc.qual not in seen:
                        stack.append(cc)
        for sub in ctx.prog.subclasses(c):
            if sub.qual not in seen:
                stack.append(sub)
    return seen


AUTO_INSERTING = (("ext", "collections.defaultdict"), ("ext", "collections.Counter"))


def value_sources(ctx, t, depth=0):
    """The terms a value can come from: through conditional values, NewType/cast wrappers already removed by the evaluator, and
    the returns of package functions it is the result of (a helper that builds and returns the mapping), up to four calls deep."""
    if not isinstance(t, tuple) or not t:
        return []
    if t[0] == "ite":
        return value_sources(ctx, t[2], depth) + value_sources(ctx, t[3], depth)
    if t[0] == "call" and t[1][0] in ("func", "closure", "boundcls") and depth < 4:
        g = ctx.prog.functions.get(t[1][1])
        if g is not None:
            try:
                rets = ctx.ev.summary(g).rets()
            except Exception:
                rets = []
            out = []
            for e in rets:
                out += value_sources(ctx, e.value, depth + 1)
            return out or [t]
    return [t]


def dict_based(ctx, f):
    """Does this method read self.__dict__ ?"""
    s = ctx.summary(f)
    for root in [e.value for e in s.exits] + [a for e in s.exits for a, _ in e.cond] + [x for c in s.calls for x in c.args]:
        for t in subterms(root):
            if t[0] == "attr" and t[2] == "__dict__" and t[1][0] == "self":
                return True
    for l in s.loops.values():
        if l.iter is not None and any(t[0] == "attr" and t[2] == "__dict__" for t in subterms(l.iter)):
            return True
    return False


def run(ctx, rep):
    rep.explanation = (
        "A read-only operation can change an observable datum only by storing into the chart's object graph, by reading through a "
        "container whose read inserts, or by changing the inputs of an equality/rendering that looks at the instance dictionary.  "
        "P1: every event / track class reachable from Chart's annotations (and every subclass) has an effective raising "
        "__setattr__ (dataclass(frozen=True), inherited by plain subclasses) and event fields have immutable annotated types; P2: no "
        "method of the read-only API (every public method / property of those classes and of Chart, everything but constructors and "
        "from_* factories) has, transitively, a write effect on anything but objects it allocated itself; P3: no collections."
        "defaultdict value is stored in a Chart attribute or dataclass field; P4: no class whose effective __eq__ / __repr__ reads "
        "self.__dict__ owns a cached_property or an attribute assigned outside construction (a lazily written attribute changes "
        "equality with an identically parsed twin).")
    classes = reachable_classes(ctx, CHART)
    P = Purity(ctx, [CHART + ".from_file"])
    r1 = rep.rule("P1.frozen", "event and track classes are frozen dataclasses; event fields are immutable values", floor=14)
    for q, c in sorted(classes.items()):
        if q == CHART or c.is_enum() or c.is_exception() or c.outer_func is not None:
            continue
        if not c.is_dataclass():
            # plain helper classes reachable through annotations (e.g. NewType targets) are not part of the value
            if c.module.name.endswith((".util", ".hints")):
                continue
        r1.inst(f"{q}: frozen={c.frozen()}")
        if not c.frozen():
            fail(r1, ctx, c, c.node, f"{q} is reachable from a parsed Chart but does not reject attribute assignment (no frozen dataclass in "
                                     f"its MRO, or a user __setattr__)")
        if any("chartparse.event.Event" == (k.qual if hasattr(k, "qual") else k) for k in c.mro):
            for fl in c.dc_fields():
                t = ctx.ev.types.parse(fl.annotation, fl.owner.module, fl.owner, None)

                def immutable(t):
                    if t is None:
                        return False
                    if t[0] in ("ext",):
                        return t[1] in ("builtins.int", "builtins.float", "builtins.str", "builtins.bool", "datetime.timedelta")
                    if t[0] == "none":
                        return True
                    if t[0] == "inst":
                        cc = ctx.prog.classes.get(t[1])
                        return cc is not None and (cc.is_enum() or cc.frozen())
                    if t[0] in ("union", "tup"):
                        return all(immutable(x) for x in t[1])
                    return False
                if not immutable(t):
                    fail(r1, ctx, c, c.node, f"event field {q}.{fl.name} is annotated with a mutable type {t}")
    # ---- P2 read-only API
    r2 = rep.rule("P2.readonly", "no read-only API method writes anything but its own fresh objects (transitively)", floor=20)
    api = []
    for q, c in sorted(classes.items()):
        if c.is_enum() or c.is_exception() or c.outer_func is not None:
            continue
        for name, m in sorted(c.methods.items()):
            if name in CONSTRUCTORS or m.kind == "classmethod" and name.startswith("from_"):
                continue
            callers_ = P.cg.callers_of(m.qual)
            if name.startswith("_") and not name.startswith("__") and callers_ and all(e.kind == "expanded" for e in callers_):
                continue  # a private helper expanded in place at every call site (second-chance normal form): analysed there
            if name.startswith("_") and not name.startswith("__") and m.kind in ("classmethod", "staticmethod") \
                    and (m.qual in P.reach or (callers_ and all(e.kind == "expanded" for e in callers_))) \
                    and not any(e.caller not in P.reach for e in callers_):
                continue  # private construction helpers: class/static methods called only from the from_* factories' call tree
                # (a helper expanded in place at every call site -- second-chance normal form -- is analysed there)
            api.append(m)
    mix = ["chartparse.util.DictPropertiesEqMixin.__eq__", "chartparse.util.DictReprMixin.__repr__",
           "chartparse.util.DictReprTruncatedSequencesMixin.__repr__"]
    for q in mix:
        api.append(ctx.func(q))
    seen_q = set()
    for m in api:
        if m.qual in seen_q:
            continue
        seen_q.add(m.qual)
        r2.inst(f"{m.qual}")
        for q in sorted(P.cg.reachable([m.qual])):
            g = P.cg.funcs.get(q)
            if g is None or g.name in CONSTRUCTORS:
                continue
            s = P.cg.summary(g)
            for e in s.effects:
                root = root_of(e.target)
                if root[0] == "fresh":
                    continue
                if root[0] == "unknown" and any(t[0] in ("list", "dict", "set") for t in subterms(e.target)):
                    continue
                what = f"{e.kind} {e.key if isinstance(e.key, str) else ''}".strip()
                fail(r2, ctx, g, e.node, f"read-only operation {m.qual} reaches {q}, which writes ({what} on {show(e.target)[:80]}, root {root[0]}): the "
                                         f"chart's observable state or its equality with a twin can change")
            for c in s.calls:
                if c.fn == ("meth", "__setattr__") or (c.fn[0] == "builtin" and c.fn[1] in ("setattr", "delattr")):
                    fail(r2, ctx, g, c.node, f"read-only operation {m.qual} reaches {q}, which bypasses the frozen check ({show(c.result)[:80]})")
    # ---- P3 auto-inserting mappings
    r3 = rep.rule("P3.autoinsert", "no auto-inserting mapping is stored on a Chart or in a dataclass field", floor=3)
    for q in sorted(P.reach):
        g = P.cg.funcs.get(q)
        if g is None:
            continue
        s = P.cg.summary(g)
        for c in s.calls:
            if c.fn[0] in ("class", "clsparam"):
                cc = ctx.prog.classes.get(c.fn[1])
                if cc is None or cc.qual not in classes:
                    continue
                r3.inst(f"{q}: {cc.name}(...) arguments")
                for k, v in list(c.kwargs) + [(i, a) for i, a in enumerate(c.args)]:
                    for t in value_sources(ctx, v):
                        if t[0] == "call" and t[1] in AUTO_INSERTING:
                            fail(r3, ctx, g, c.node, f"{cc.name}.{k} receives a collections.defaultdict: reading an absent key on the finished object "
                                                     f"inserts it (a read that mutates)")
        for e in s.effects:
            if e.kind == "store_attr" and isinstance(e.value, tuple) and e.value[0] == "call" and e.value[1] == ("ext", "collections.defaultdict") \
                    and g.cls is not None and g.cls.qual in classes:
                fail(r3, ctx, g, e.node, f"{g.cls.name}.{e.key} is an auto-inserting mapping on a class reachable from Chart")
    # ---- P4 dict-based eq/repr vs lazy attributes
    r4 = rep.rule("P4.dict-eq", "dict-based __eq__/__repr__ never meets a lazily written attribute", floor=14)
    for q, c in sorted(classes.items()):
        if c.is_enum() or c.is_exception() or c.outer_func is not None:
            continue
        lazy = []
        for k in c.pkg_mro():
            for name, m in k.methods.items():
                if m.kind == "cached_property":
                    lazy.append(f"cached_property {k.name}.{name}")
                if name not in CONSTRUCTORS and m.kind != "staticmethod":  # (a static method has no self to write to)
                    s = ctx.ev.summary(m)
                    if s.unsupported:
                        # outside the analysed subset (a generator method, ...): attribute stores on self are visible in the syntax
                        import ast as _ast
                        ps_ = m.params()
                        for n_ in _ast.walk(m.node):
                            if isinstance(n_, _ast.Attribute) and isinstance(n_.ctx, (_ast.Store, _ast.Del)) and ps_ and \
                                    isinstance(n_.value, _ast.Name) and n_.value.id == ps_[0]:
                                lazy.append(f"{k.name}.{name} assigns self.{n_.attr}")
                            if isinstance(n_, _ast.Call) and isinstance(n_.func, _ast.Name) and n_.func.id in ("setattr", "vars"):
                                lazy.append(f"{k.name}.{name} uses {n_.func.id}()")
                        continue
                    for e in s.effects:
                        if e.kind in ("store_attr", "aug_attr") and e.target[0] == "self":
                            lazy.append(f"{k.name}.{name} assigns self.{e.key}")
        verdicts = []
        for sp in ("__eq__", "__repr__"):
            kind, who = c.effective_special(sp)
            based = kind == "method" and dict_based(ctx, who)
            verdicts.append((sp, kind, who.qual if kind == "method" else (who.qual if who else None), based))
            if based and lazy:
                fail(r4, ctx, c, c.node, f"{q}.{sp} is {who.qual} (compares/renders self.__dict__) and the class has lazily written attributes "
                                         f"({'; '.join(lazy[:3])}): reading a derived attribute on one chart makes it unequal to / render "
                                         f"differently from an identically parsed twin")
        r4.inst(f"{q}: " + ", ".join(f"{sp}={k}{'(dict)' if b else ''}" for sp, k, w, b in verdicts) + f"; lazy={len(lazy)}")
