"""C16 -- notes_per_second is count-in-closed-interval over interval length."""
from .chartrules import ChartRules
from .notes import Notes
from .timing import Timing

LEVEL = "other"


def run(ctx, rep):
    rep.explanation = (
        "notes_per_second is turned into a decision table over (look-up failed, has notes, start/end is None/int/timedelta); for "
        "each of the 6 admissible bound forms the resolved bounds are compared with the specification table (None -> 0 / last note "
        "end, tick -> un-hinted tempo-map time, timedelta -> itself; `is None`, not truthiness); the helper must be count of events "
        "with start <= e.timestamp <= end (both non-strict, on the start time) divided by (end - start).total_seconds(), guarded by "
        "duration <= 0 -> ValueError; the KeyError->ValueError conversion encloses exactly the look-up; the default end is C03's "
        "max-over-end_timestamp aggregator; the un-hinted query is Q(t, 0)[0].")
    C = ChartRules(ctx)
    rb = rep.rule("bounds", "bound resolution table (6 rows)", floor=6)
    rc = rep.rule("count", "closed-interval count on e.timestamp / duration in seconds", floor=1)
    rg = rep.rule("guards", "absent track, note-less track, non-positive duration -> ValueError", floor=4)
    C.check_rate(rb, rc, rg)
    ra = rep.rule("last-note-end", "default end = max end_timestamp over all notes", floor=1)
    N = Notes(ctx)
    N.check_last_note_end(ra)
    rq = rep.rule("tick-bound", "a tick bound is the tempo-map time of that tick: un-hinted query = Q(t, 0)[0]", floor=2)
    T = N.T
    T.check_noopt(rq)
    T.check_Q(rq)
