"""C16 -- notes_per_second is count-in-closed-interval over interval length."""
from .chartrules import ChartRules
from .notes import Notes
from .timing import Timing

LEVEL = "other"


def run(ctx, rep):
    rep.explanation = (
        "notes_per_second is turned into a decision table over (look-up failed, has notes, start/end is None/int/timedelta); for "
        "each of the 6 admissible bound forms the resolved bounds are compared with the specification table (None -> 0 / last note "
        "end, tick -> un-hinted tempo-map time, timedelta -> itself; `is None`, not truthiness); the helper must be count of events "
        "with start <= e.timestamp <= end (both non-strict, on the start time) divided by (end - start).total_seconds(), guarded by "
        "duration <= 0 -> ValueError; the KeyError->ValueError conversion encloses exactly the look-up; the default end is C03's "
        "max-over-end_timestamp aggregator; the un-hinted query is Q(t, 0)[0].")
    C = ChartRules(ctx)
    rb = rep.rule("bounds", "bound resolution table (6 rows)", floor=6)
    rc = rep.rule("count", "closed-interval count on e.timestamp / duration in seconds", floor=1)
    rg = rep.rule("guards", "absent track, note-less track, non-positive duration -> ValueError", floor=4)
    C.check_rate(rb, rc, rg)
    ra = rep.rule("last-note-end", "default end = max end_timestamp over all notes", floor=1)
    N = Notes(ctx)
    N.check_last_note_end(ra)
    rq = rep.rule("tick-bound", "a tick bound is the tempo-map time of that tick: un-hinted query = Q(t, 0)[0]", floor=2)
    T = N.T
    T.check_noopt(rq)
    T.check_Q(rq)
    # premises the statement inherits: "start time" of a note and "last note end" are the tempo-map times of C01/C11/C03
    rn = rep.rule("note-times", "each note's start time is Q0(own tick) and its end Q0(tick + longest sustain) (C01 P5, C11 cursors, C03 sustains)", floor=3)
    N.check_time_wiring(rn, rn)
    N.check_grouping(rn, rn)
    rs1 = rep.rule("sustain.selection", "lane lengths come from exactly the five lanes (C03)", floor=1)
    rs2 = rep.rule("sustain.store", "slot store (C03)", floor=2)
    rs3 = rep.rule("sustain.refine", "refinement table (C03)", floor=3)
    N.check_sustain(rs1, rs2, rs3)
    rl = rep.rule("longest", "longest sustain helper (C03)", floor=5)
    N.check_longest(rl)
    ri = rep.rule("index", "governing tempo index: guards and scan (C11)", floor=3)
    T.check_index(ri, ri)
    rf = rep.rule("formula", "seconds formula (C01 P1)", floor=1)
    T.check_sec_formula(rf)
    # the statement speaks of the exact tempo-map time (of the end tick / of a tick bound): all premises of C01's argument
    from .C01 import exact_time_premises
    exact_time_premises(ctx, rep, prefix="time.")
    rch = rep.rule("chain", "file -> lines -> framing -> routing -> dispatcher -> note builder", floor=10)
    from .chain import check_chain
    check_chain(ctx, rch, "instrument", strict=True, recognisers=("chartparse.instrument.NoteEvent.ParsedData",))
    rd = rep.rule("defaults", "omitted bounds are None; the un-hinted query starts its scan at 0", floor=3)
    from .lib import check_param_defaults
    check_param_defaults(ctx, rd, "chartparse.chart.Chart.notes_per_second", {"start": None, "end": None})
    check_param_defaults(ctx, rd, "chartparse.sync.BPMEvents.timestamp_at_tick", {"start_iteration_index": 0})
