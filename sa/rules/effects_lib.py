"""effects_lib -- write/ambient-read effect summaries (DESIGN 3.G). Shared by C12, C13, C17, C19."""
from __future__ import annotations

import ast
from typing import Any, Optional

from ..context import Ctx
from ..report import Rule
from ..terms import Effect, Summary, show, subterms
from .lib import fail


def root_of(t: Any) -> tuple:
    """Classify the root object of a receiver term: ('fresh', ...) | ('param', name) | ('self',) | ('global', qual) |
    ('unknown', ...)."""
    while True:
        k = t[0]
        if k in ("attr",):
            t = t[1]
            continue
        if k in ("sub", "proj"):
            t = t[1]
            continue
        if k == "call":
            fn = t[1]
            if fn[0] == "meth" and fn[1] in ("__getitem__", "setdefault", "get", "pop") and t[2]:
                t = t[2][0]
                continue
            if fn[0] in ("class", "clsparam"):
                return ("fresh", "object")
            if fn[0] == "builtin" and fn[1] in ("list", "dict", "set", "tuple", "sorted"):
                return ("fresh", fn[1])
            if fn[0] == "ext" and fn[1] in ("collections.defaultdict", "collections.OrderedDict", "collections.deque"):
                return ("fresh", fn[1])
            return ("unknown", show(t)[:80])
        if k in ("list", "dict", "set", "comp"):
            return ("fresh", k)
        if k == "binop" and t[2][0] == "list":
            return ("fresh", "list")
        if k == "param":
            return ("param", t[1])
        if k == "free":
            return ("free", t[1])
        if k == "self":
            return ("self",)
        if k in ("gvar", "cattr", "class", "clsparam", "module", "logger", "enum"):
            return ("global", show(t))
        if k == "ite":
            a, b = root_of(t[2]), root_of(t[3])
            if a[0] == "fresh" and b[0] == "fresh":
                return a
            return b if a[0] == "fresh" else a  # the object may be the non-fresh alternative
        if k in ("lv", "la", "elem", "maybe", "bv"):
            return ("unknown", show(t)[:80])
        if k == "const":
            return ("fresh", "const")
        return ("unknown", show(t)[:80])


def check_no_effects(ctx: Ctx, r: Rule, funcs: list) -> None:
    for f in funcs:
        s = ctx.summary(f)
        r.inst(f"{f.qual}: no write effect")
        for e in s.effects:
            fail(r, ctx, f, e.node, f"{f.qual} writes state ({e.kind} {e.key if isinstance(e.key, str) else ''} on {show(e.target)[:80]}): "
                                    f"its answer could depend on earlier calls / other charts")


def check_pure_reachable(ctx: Ctx, r: Rule, roots: list) -> None:
    """Every write reachable from roots targets an object allocated inside the same call (fresh root), `self`
    inside __init__/__post_init__, or is a memo fill of the interpreter (lru_cache / cached_property are summarised
    by the C17 rules)."""
    from .escape import graph

    cg = graph(ctx)
    reach = cg.reachable(roots)
    for q in sorted(reach):
        f = cg.funcs.get(q)
        if f is None:
            continue
        s = cg.summary(f)
        r.inst(f"{q}: {len(s.effects)} write(s)")
        for e in s.effects:
            root = root_of(e.target)
            ok = root[0] == "fresh" or (root[0] == "self" and f.name in ("__init__", "__post_init__"))
            if root[0] in ("param", "free") and not ok:
                # writing into a parameter: acceptable only if every caller passes a fresh object -- the nested helpers of
                # Metadata.from_chart_lines write the enclosing function's fresh dict
                ok = root[0] == "free"
            if e.kind == "global_store":
                ok = False
            if not ok:
                fail(r, ctx, f, e.node, f"{q} writes {e.kind} {e.key if isinstance(e.key, str) else ''} on {show(e.target)[:80]} (root {root}): state "
                                        f"that outlives the call makes one section / parse depend on another")


# ==================================================================================================
# purity (C17)

AMBIENT_EXT_PREFIXES = ("os.", "time.", "random.", "locale.", "sys.", "uuid.", "socket.", "getpass.", "platform.", "tempfile.",
                        "glob.", "secrets.", "threading.", "multiprocessing.", "subprocess.", "shutil.", "datetime.datetime.now",
                        "datetime.datetime.today", "datetime.datetime.utcnow", "datetime.date.today", "importlib.", "gc.", "weakref.",
                        "atexit.", "signal.", "inspect.")
AMBIENT_BUILTINS = {"input", "globals", "vars", "id", "eval", "exec", "__import__", "breakpoint", "compile", "dir"}


class Purity:
    def __init__(self, ctx: Ctx, entries: list) -> None:
        from ..callgraph import CallGraph

        self.ctx = ctx
        self.cg = CallGraph(ctx)
        self.entries = entries
        self.reach = self.cg.reachable(entries)

    def funcs(self, scope: str):
        for q in sorted(self.cg.funcs):
            if scope == "reach" and q not in self.reach:
                continue
            yield q, self.cg.funcs[q], self.cg.summary(self.cg.funcs[q])

    # ---- W1/W2/W5: writes
    def fresh_at_callers(self, q: str, pname: str, depth: int = 0) -> Optional[str]:
        """None if every call site of q binds pname to a freshly allocated object; else a description."""
        if depth > 3:
            return "call chain too deep"
        edges = [e for e in self.cg.callers_of(q) if e.rec is not None and e.kind in ("direct", "ctor")]
        if not edges:
            return None if q not in self.reach else "no resolvable call site"
        for e in edges:
            kw = dict(e.rec.kwargs)
            a = kw.get(pname)
            if a is None:
                continue
            root = root_of(a)
            if root[0] == "fresh":
                continue
            if root[0] in ("param",):
                sub = self.fresh_at_callers(e.caller, root[1], depth + 1)
                if sub is not None:
                    return f"{e.caller} passes its parameter {root[1]} ({sub})"
                continue
            if root[0] == "self" and self.cg.funcs[e.caller].name in ("__init__", "__post_init__"):
                continue
            return f"{e.caller} passes {show(a)[:60]} (root {root[0]})"
        return None

    def check_writes(self, r: Rule, scope: str = "all") -> None:
        ctx = self.ctx
        for q, f, s in self.funcs(scope):
            for e in s.effects:
                root = root_of(e.target)
                what = f"{e.kind} {e.key if isinstance(e.key, str) else ''}".strip()
                r.inst(f"{q}: {what} on {show(e.target)[:60]} [{root[0]}]")
                if e.kind == "global_store" or root[0] == "global":
                    fail(r, ctx, f, e.node, f"{q} writes to module/class-level state ({what} on {show(e.target)[:80]}): it outlives the call and is "
                                            f"shared by every parse, thread and chart in the process")
                elif root[0] == "fresh":
                    continue
                elif root[0] == "self":
                    if f.name in ("__init__", "__post_init__"):
                        continue
                    fail(r, ctx, f, e.node, f"{q} writes to its own instance outside construction ({what} on {show(e.target)[:80]})")
                elif root[0] == "free":
                    continue  # a nested helper writing the enclosing call's local (checked fresh at its definition site)
                elif root[0] == "param":
                    why = self.fresh_at_callers(q, root[1])
                    if why is not None:
                        fail(r, ctx, f, e.node, f"{q} mutates its parameter `{root[1]}` ({what}) and not every caller passes a freshly allocated "
                                                f"object: {why}")
                else:
                    # unknown root: accept only objects derived from a fresh allocation of this call
                    ok = any(t[0] in ("list", "dict", "set") or (t[0] == "call" and t[1][0] in ("class", "clsparam"))
                             for t in subterms(e.target))
                    if not ok:
                        fail(r, ctx, f, e.node, f"{q}: cannot show that the object written ({what} on {show(e.target)[:80]}) was allocated inside "
                                                f"this call")

    def check_free_roots(self, r: Rule) -> None:
        """Nested helpers writing an enclosing local: that local must be a fresh allocation in the enclosing function."""
        ctx = self.ctx
        nested = 0
        for q, f, s in self.funcs("all"):
            if f.parent is not None:
                nested += 1
            for e in s.effects:
                root = root_of(e.target)
                if root[0] == "free":
                    parent = f.parent
                    ps = self.cg.summary(parent) if parent is not None else None
                    env = ps.defs.get(f.name) if ps is not None else None
                    v = env.get(root[1]) if env is not None else None
                    r.inst(f"{q}: writes enclosing local `{root[1]}` = {show(v)[:60] if v else '?'}")
                    if v is None or root_of(v)[0] != "fresh":
                        fail(r, ctx, f, e.node, f"{q} writes `{root[1]}` of the enclosing function, which is not a fresh allocation there "
                                                f"({show(v)[:80] if v else 'unknown'})")
        # the rule quantifies over nested functions: with none left in the package it holds trivially (and says so), which is
        # different from not seeing the ones that exist
        r.inst(f"{nested} nested function(s) examined for writes to enclosing locals", nontrivial=False)

    # ---- W3 mutable defaults
    def check_defaults(self, r: Rule) -> None:
        ctx = self.ctx
        for q, f, s in self.funcs("all"):
            a = f.node.args
            for d in list(a.defaults) + [x for x in a.kw_defaults if x is not None]:
                r.inst(f"{q}: default {ast.unparse(d)[:40]}", nontrivial=False)
                if isinstance(d, (ast.List, ast.Dict, ast.Set, ast.ListComp, ast.DictComp, ast.SetComp)) or \
                        (isinstance(d, ast.Call) and not (isinstance(d.func, ast.Name) and d.func.id in ("tuple", "frozenset", "Ticks", "Tick", "Timestamp", "Seconds", "timedelta"))
                         and not (isinstance(d.func, ast.Attribute) and d.func.attr in ("timedelta",))):
                    fail(r, ctx, f, d, f"{q} has a mutable default argument ({ast.unparse(d)[:60]}): one object shared by all calls")

    # ---- W4 memoised functions, W6 cached properties
    def is_pure(self, q: str, seen: Optional[set] = None) -> Optional[str]:
        seen = seen or set()
        if q in seen:
            return None
        seen.add(q)
        f = self.cg.funcs.get(q)
        if f is None:
            return f"unknown callee {q}"
        s = self.cg.summary(f)
        if s.effects:
            return f"{q} has write effects"
        for c in s.calls:
            k = c.fn[0]
            if k == "builtin":
                if c.fn[1] in AMBIENT_BUILTINS or c.fn[1] in ("open", "print", "hash"):
                    return f"{q} calls {c.fn[1]}()"
            elif k == "ext":
                if not c.fn[1].startswith(("typing.", "datetime.timedelta", "itertools.", "math.", "functools.", "fractions.", "operator.", "re.")):
                    return f"{q} calls {c.fn[1]}"
            elif k in ("func", "closure", "boundcls"):
                sub = self.is_pure(c.fn[1], seen)
                if sub is not None:
                    return sub
            elif k in ("class", "clsparam"):
                pass
            elif k == "meth":
                from ..terms import MUTATING_METHODS
                if c.fn[1] in MUTATING_METHODS:
                    return f"{q} calls mutating method .{c.fn[1]}"
                if c.args and (c.args[0][0] == "logger" or any(t[0] == "logger" for t in subterms(c.args[0]))):
                    return f"{q} emits a log record ({show(c.args[0])[:40]}.{c.fn[1]}): an observable effect that a cache hit skips"
        for root in [e.value for e in s.exits] + [a for e in s.exits for a, _ in e.cond]:
            for t in subterms(root):
                if t[0] == "gvar":
                    return f"{q} reads module-level object {t[1]}"
                if t[0] == "cattr":
                    c = self.ctx.prog.classes.get(t[1])
                    v = self.ctx.ev.class_attr_value(c, t[2]) if c is not None else None
                    if v is None or root_of(v)[0] != "fresh" or v[0] != "const":
                        if v is not None and v[0] == "const":
                            continue
                        return f"{q} reads class-level object {t[1]}.{t[2]}"
                if t[0] == "ext" and t[1].startswith(AMBIENT_EXT_PREFIXES):
                    return f"{q} reads {t[1]}"
        return None

    def check_memoised(self, r: Rule) -> None:
        ctx = self.ctx
        for q, f, s in self.funcs("all"):
            if not (f.lru_cached or f.kind == "cached_property"):
                continue
            kind = "memoised function" if f.lru_cached else "cached property"
            r.inst(f"{q}: {kind}")
            why = self.is_pure(q)
            if why is not None:
                fail(r, ctx, f, f.node, f"{kind} {q} is not a pure function of its arguments ({why}): a cache hit differs from a recomputation, "
                                        f"so results depend on what was parsed before")
            rt = ctx.ev.types.return_type(f)
            bad_ret = rt is not None and (rt[0] == "dict" or (rt[0] == "seq" and not _immutable_seq_annotation(f)))
            if bad_ret:
                fail(r, ctx, f, f.node, f"{kind} {q} returns a mutable container ({rt}): the one cached object is shared by every caller")
            for e in s.rets():
                if e.value[0] in ("list", "dict", "set") or (e.value[0] == "comp" and e.value[1] in ("list", "dict", "set")):
                    fail(r, ctx, f, e.node, f"{kind} {q} returns a freshly built mutable {e.value[0]}: the cached object is shared by every caller")
                if e.value[0] == "call" and e.value[1][0] in ("class", "clsparam"):
                    cc = ctx.prog.classes.get(e.value[1][1])
                    if cc is not None and not cc.is_enum() and not cc.frozen():
                        fail(r, ctx, f, e.node, f"{kind} {q} returns a new {cc.name} object, which is mutable: the one cached instance is shared by "
                                                f"every caller with the same arguments (across parses and threads)")
            if rt is not None and rt[0] == "inst":
                cc = ctx.prog.classes.get(rt[1])
                if cc is not None and not cc.is_enum() and not cc.frozen() and not cc.is_exception():
                    fail(r, ctx, f, f.node, f"{kind} {q} is declared to return the mutable class {cc.name}: a memo table would hand the same object to "
                                            f"every caller")
            if f.lru_cached:
                for p in f.params():
                    pt = ctx.ev.types.param_type(f, p)
                    if pt is not None and pt[0] in ("dict",) or (pt is not None and pt[0] == "seq" and "list" in ast.unparse(_ann_of(f, p) or ast.Constant(value=""))):
                        fail(r, ctx, f, f.node, f"{kind} {q}: parameter {p} is annotated with an unhashable/mutable type ({pt})")
            if f.kind == "cached_property" and f.cls is not None and not f.cls.frozen():
                fail(r, ctx, f, f.node, f"cached property {q} lives on a non-frozen class: its inputs can change after the value is cached")

    # ---- W7 ambient reads
    def check_ambient(self, r: Rule, scope: str = "reach") -> None:
        ctx = self.ctx
        for q, f, s in self.funcs(scope):
            r.inst(f"{q}: {len(s.calls)} call site(s) scanned", nontrivial=False)
            for c in s.calls:
                if c.fn[0] == "ext" and c.fn[1].startswith(AMBIENT_EXT_PREFIXES):
                    fail(r, ctx, f, c.node, f"{q} reads ambient state: {c.fn[1]}(...)")
                if c.fn[0] == "meth" and c.args and any(t[0] == "ext" and t[1].startswith(AMBIENT_EXT_PREFIXES) for t in subterms(c.args[0])):
                    fail(r, ctx, f, c.node, f"{q} reads ambient state: {show(c.result)[:80]}")
                if c.fn[0] == "builtin" and c.fn[1] in AMBIENT_BUILTINS:
                    fail(r, ctx, f, c.node, f"{q} calls {c.fn[1]}(): result depends on the process, not on the text")
                if c.fn[0] == "builtin" and c.fn[1] == "hash":
                    fail(r, ctx, f, c.node, f"{q} calls hash(): str hashes differ between interpreters")
                if c.fn[0] == "builtin" and c.fn[1] == "open":
                    ok = f.qual.endswith("Chart.from_filepath") and c.args and c.args[0] == ("param", f.params()[1])
                    if not ok:
                        fail(r, ctx, f, c.node, f"{q} opens a file other than the chart it was given")
            for root in [e.value for e in s.exits] + [a for e in s.exits for a, _ in e.cond]:
                for t in subterms(root):
                    if t[0] == "ext" and t[1].startswith(("os.environ", "sys.argv", "sys.flags", "sys.path")):
                        fail(r, ctx, f, f.node, f"{q} reads {t[1]}")

    # ---- W8 unordered iteration
    def check_unordered(self, r: Rule, scope: str = "reach") -> None:
        ctx = self.ctx

        def setish(t) -> bool:
            if t[0] == "set" or (t[0] == "comp" and t[1] == "set"):
                return True
            if t[0] == "call" and t[1][0] == "builtin" and t[1][1] in ("set", "frozenset"):
                return True
            if t[0] == "binop" and t[1] in ("-", "|", "&", "^"):
                for side in (t[2], t[3]):
                    if setish(side) or (side[0] == "call" and side[1][0] == "meth" and side[1][1] in ("keys", "items")):
                        return True
            if t[0] == "call" and t[1][0] == "meth" and t[1][1] in ("union", "intersection", "difference", "symmetric_difference"):
                return True
            return False

        for q, f, s in self.funcs(scope):
            for l in s.loops.values():
                r.inst(f"{q}: loop over {show(l.iter)[:60] if l.iter else 'while'}", nontrivial=False)
                if l.iter is not None and setish(l.iter):
                    fail(r, ctx, f, l.node, f"{q} iterates over an unordered set ({show(l.iter)[:100]}): the order of the results depends on the "
                                            f"interpreter's hash seed, not on the text")
            for root in [e.value for e in s.exits] + [e.value for e in s.effects if isinstance(e.value, tuple)]:
                for t in subterms(root):
                    if t[0] == "comp" and t[1] in ("list", "gen", "dict"):
                        for bv, it, conds in t[3]:
                            if setish(it):
                                fail(r, ctx, f, f.node, f"{q} builds an ordered result from an unordered set ({show(it)[:100]})")
                    if t[0] == "call" and t[1][0] == "builtin" and t[1][1] in ("list", "tuple") and t[2] and setish(t[2][0]):
                        fail(r, ctx, f, f.node, f"{q} orders a set arbitrarily ({show(t)[:100]})")

    # ---- import-time effects
    def check_import_time(self, r: Rule) -> None:
        ctx = self.ctx
        for m in ctx.prog.modules.values():
            for st in m.tree.body:
                if isinstance(st, ast.Expr) and isinstance(st.value, ast.Call):
                    d = ast.unparse(st.value.func)
                    r.inst(f"{m.name}: import-time call {d}()")
                    if d not in ("logging.basicConfig",):
                        fail(r, ctx, m, st, f"{m.name} runs {d}(...) at import time: process-wide effect outside the verified list")
                elif isinstance(st, (ast.For, ast.While, ast.With, ast.Try, ast.Delete, ast.Global, ast.AugAssign)):
                    fail(r, ctx, m, st, f"{m.name} has a module-level {type(st).__name__} statement: import-time behaviour outside the analysed subset")

    def inventory(self, r: Rule) -> None:
        """Module/class-level mutable objects (informational instances; their mutation sites are W1 findings)."""
        ctx = self.ctx
        for m in ctx.prog.modules.values():
            for name, (v, a, ln) in m.assigns.items():
                if isinstance(v, (ast.List, ast.Dict, ast.Set, ast.ListComp, ast.DictComp, ast.SetComp)) or \
                        (isinstance(v, ast.Call) and ast.unparse(v.func).split(".")[-1] in ("dict", "list", "set", "defaultdict", "OrderedDict", "deque")):
                    r.inst(f"{m.name}.{name}: module-level mutable object", nontrivial=False)
        for c in ctx.prog.classes.values():
            for name, (v, a, ln) in c.body_assigns.items():
                if isinstance(v, (ast.List, ast.Dict, ast.Set)) or \
                        (isinstance(v, ast.Call) and ast.unparse(v.func).split(".")[-1] in ("dict", "list", "set", "defaultdict")):
                    r.inst(f"{c.qual}.{name}: class-level mutable object", nontrivial=False)


def _ann_of(f, p):
    a = f.node.args
    for x in a.posonlyargs + a.args + a.kwonlyargs:
        if x.arg == p:
            return x.annotation
    return None


def _immutable_seq_annotation(f) -> bool:
    r = getattr(f.node, "returns", None)
    s = ast.unparse(r) if r is not None else ""
    return "tuple" in s.lower() or "Tuple" in s or "frozenset" in s or "str" == s


def module_object_is_mutated(ctx, qual: str) -> bool:
    """Does any function of the package write (store / delete / mutating call) into the module-level object `qual`, directly or
    through an attribute / element of it?  Conservative: a function the evaluator cannot summarise counts as a writer."""
    for f in ctx.prog.all_functions():
        try:
            s = ctx.ev.summary(f)
        except Exception:
            return True
        for e in s.effects:
            r = root_of(e.target)
            if r[0] == "global" and (len(r) < 2 or r[1] == qual or qual in repr(e.target)):
                return True
            if e.kind == "global_store" and qual in repr(e.target):
                return True
    return False
