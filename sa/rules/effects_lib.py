"""effects_lib -- write/ambient-read effect summaries (DESIGN 3.G). Shared by C12, C13, C17, C19."""
from __future__ import annotations

import ast
from typing import Any, Optional

from ..context import Ctx
from ..report import Rule
from ..terms import Effect, Summary, show, subterms
from .lib import fail


def root_of(t: Any) -> tuple:
    """Classify the root object of a receiver term: ('fresh', ...) | ('param', name) | ('self',) | ('global', qual) |
    ('unknown', ...)."""
    while True:
        k = t[0]
        if k in ("attr",):
            t = t[1]
            continue
        if k in ("sub", "proj"):
            t = t[1]
            continue
        if k == "call":
            fn = t[1]
            if fn[0] == "meth" and fn[1] in ("__getitem__", "setdefault", "get", "pop") and t[2]:
                t = t[2][0]
                continue
            if fn[0] in ("class", "clsparam"):
                return ("fresh", "object")
            if fn[0] == "builtin" and fn[1] in ("list", "dict", "set", "tuple", "sorted"):
                return ("fresh", fn[1])
            if fn[0] == "ext" and fn[1] in ("collections.defaultdict", "collections.OrderedDict", "collections.deque"):
                return ("fresh", fn[1])
            return ("unknown", show(t)[:80])
        if k in ("list", "dict", "set", "comp"):
            return ("fresh", k)
        if k == "binop" and t[2][0] == "list":
            return ("fresh", "list")
        if k in ("param", "free"):
            return ("param", t[1])
        if k == "self":
            return ("self",)
        if k in ("gvar", "cattr", "class", "clsparam", "module", "logger", "enum"):
            return ("global", show(t))
        if k in ("lv", "la", "elem", "maybe", "ite", "bv"):
            return ("unknown", show(t)[:80])
        if k == "const":
            return ("fresh", "const")
        return ("unknown", show(t)[:80])


def check_no_effects(ctx: Ctx, r: Rule, funcs: list) -> None:
    for f in funcs:
        s = ctx.summary(f)
        r.inst(f"{f.qual}: no write effect")
        for e in s.effects:
            fail(r, ctx, f, e.node, f"{f.qual} writes state ({e.kind} {e.key if isinstance(e.key, str) else ''} on {show(e.target)[:80]}): "
                                    f"its answer could depend on earlier calls / other charts")


def check_pure_reachable(ctx: Ctx, r: Rule, roots: list) -> None:
    """Every write reachable from roots targets an object allocated inside the same call (fresh root), `self`
    inside __init__/__post_init__, or is a memo fill of the interpreter (lru_cache / cached_property are summarised
    by the C17 rules)."""
    from .escape import graph

    cg = graph(ctx)
    reach = cg.reachable(roots)
    for q in sorted(reach):
        f = cg.funcs.get(q)
        if f is None:
            continue
        s = cg.summary(f)
        r.inst(f"{q}: {len(s.effects)} write(s)")
        for e in s.effects:
            root = root_of(e.target)
            ok = root[0] == "fresh" or (root[0] == "self" and f.name in ("__init__", "__post_init__"))
            if root[0] in ("param", "free") and not ok:
                # writing into a parameter: acceptable only if every caller passes a fresh object -- the nested helpers of
                # Metadata.from_chart_lines write the enclosing function's fresh dict
                ok = root[0] == "free"
            if e.kind == "global_store":
                ok = False
            if not ok:
                fail(r, ctx, f, e.node, f"{q} writes {e.kind} {e.key if isinstance(e.key, str) else ''} on {show(e.target)[:80]} (root {root}): state "
                                        f"that outlives the call makes one section / parse depend on another")
