"""timing -- premises about the tick->time machinery shared by C01, C03, C11, C12, C15, C16.

Public anchors: chartparse.sync.BPMEvents.timestamp_at_tick (Q), .timestamp_at_tick_no_optimize_return,
chartparse.sync.BPMEvent.from_parsed_data, chartparse.event.Event and its subclasses' from_parsed_data,
chartparse.track.build_events_from_data.  The index function, the seconds formula, the fold helpers are
*discovered* from the terms of those anchors.
"""
from __future__ import annotations

from fractions import Fraction
from typing import Any, Optional

from ..context import Ctx
from ..match import ANYP, H, NotMonomial, affine, decision_table, eval_bool, is_atom, match, monomial, monotone, \
    resolve_ite, strip, UnknownAtom
from ..report import AnalysisError, Rule
from ..srcmodel import ClassInfo, FuncInfo
from ..terms import Summary, Term, show, subterms
from .lib import (cond_str, exc_is, exc_name, fail, fcmp_atom, icmp, icmp_atom, is_none_atom, live_exits, opt_atom,
                  truthy_atom, unknown_atoms)

BPMEVENTS = "chartparse.sync.BPMEvents"
BPMEVENT = "chartparse.sync.BPMEvent"
Q = f"{BPMEVENTS}.timestamp_at_tick"
QNO = f"{BPMEVENTS}.timestamp_at_tick_no_optimize_return"
EVENT = "chartparse.event.Event"
TIMEDELTA = ("ext", "datetime.timedelta")
SELF = ("self", BPMEVENTS)


def td_seconds(x: Any) -> tuple:
    return ("call", TIMEDELTA, (), (("seconds", x),))


TD_ZERO_FORMS = [
    ("call", TIMEDELTA, (("const", 0),), ()),
    ("call", TIMEDELTA, (), ()),
    ("call", TIMEDELTA, (), (("seconds", ("const", 0)),)),
    ("call", TIMEDELTA, (), (("microseconds", ("const", 0)),)),
]


def delta_forms(a: Any, b: Any) -> tuple:
    """|a - b| written as abs(a-b), abs(b-a) or (b - a) (the caller proves b >= a)."""
    ab = ("call", ("builtin", "abs"), (("binop", "-", a, b),), ())
    ba = ("call", ("builtin", "abs"), (("binop", "-", b, a),), ())
    return ("?or", ab, ba, ("binop", "-", b, a))


class Timing:
    def __init__(self, ctx: Ctx) -> None:
        self.ctx = ctx
        self.qf = ctx.func(Q)
        self.qs = ctx.summary(self.qf)
        self.idxf: Optional[FuncInfo] = None
        self.secf: Optional[FuncInfo] = None
        self._discover()

    # ------------------------------------------------------------------ discovery
    def _discover(self) -> None:
        """Index function = package callee whose result subscripts self.events in Q; seconds formula = package
        callee whose result feeds a timedelta(seconds=...) in Q."""
        ctx = self.ctx
        roots = [e.value for e in self.qs.exits] + [a for e in self.qs.exits for a, _ in e.cond]
        for root in roots:
            for t in subterms(root):
                if t[0] == "sub" and t[1] == ("attr", SELF, "events") and t[2][0] == "call" and t[2][1][0] == "func":
                    self.idxf = ctx.prog.functions.get(t[2][1][1])
                if t[0] == "call" and t[1] == TIMEDELTA:
                    for k, v in t[3]:
                        for u in subterms(v):
                            if u[0] == "call" and u[1][0] == "func" and self.secf is None:
                                self.secf = ctx.prog.functions.get(u[1][1])
        if self.idxf is None:
            # fall back: a method of the tempo map called by the query with the query's own (tick, hint)
            for c in self.qs.calls:
                if c.fn[0] == "func" and c.fn[1].startswith(BPMEVENTS + ".") and c.fn[1] != Q and not c.inlined:
                    f = ctx.prog.functions.get(c.fn[1])
                    if f is not None and len(f.params()) >= 3:
                        self.idxf = f
        if self.secf is None:
            for c in self.qs.calls:
                if c.fn[0] == "func" and not c.inlined:
                    f = ctx.prog.functions.get(c.fn[1])
                    if f is not None and f.cls is None and f is not self.idxf and len(f.params()) == 3:
                        self.secf = f

    # ------------------------------------------------------------------ Q
    def idx_call(self, tick: Any, hint: Any, recv: Any = SELF) -> tuple:
        assert self.idxf is not None
        ps = self.idxf.params()
        return ("call", ("func", self.idxf.qual), (), tuple(sorted({ps[0]: recv, ps[1]: tick, ps[2]: hint}.items())))

    def q_call(self, recv: Any, tick: Any, hint: Any) -> tuple:
        return ("call", ("func", Q), (), tuple(sorted({"self": recv, "tick": tick, "start_iteration_index": hint}.items())))

    def sec_call(self, ticks: Any, bpm: Any, res: Any) -> tuple:
        assert self.secf is not None
        ps = self.secf.params()
        return ("call", ("func", self.secf.qual), (), tuple(sorted({ps[0]: ticks, ps[1]: bpm, ps[2]: res}.items())))

    def check_Q(self, r: Rule) -> None:
        """P4: Q(t,h) = (g.timestamp + us(sec(|t - g.tick|, g.bpm, self.resolution)), i),  g = self.events[i],
        i = index(t, h)."""
        ctx, f, s = self.ctx, self.qf, self.qs
        r.inst(f"{f.qual}: return term")
        ex = live_exits(s)
        if len(ex) != 1 or ex[0].kind != "ret" or ex[0].cond:
            fail(r, ctx, f, f.node, f"tick-to-time query must have a single unconditional result; found {len(ex)} exits "
                                    f"({'; '.join(e.kind + ' if ' + cond_str(e.cond) for e in ex)[:300]})")
            return
        for e in s.effects:
            fail(r, ctx, f, e.node, f"tick-to-time query has a side effect ({e.kind} on {show(e.target)[:60]})")
        if self.idxf is None or self.secf is None:
            fail(r, ctx, f, ex[0].node, "cannot find the governing-event lookup (self.events[index(tick, hint)]) and the "
                                        "seconds formula feeding timedelta(seconds=...) in the query's result term: "
                                        + show(ex[0].value)[:300])
            return
        tick = ("param", "tick")
        hint = ("param", "start_iteration_index")
        I = self.idx_call(tick, hint)
        G = ("sub", ("attr", SELF, "events"), I)
        SEC = self.sec_call(delta_forms(("attr", G, "tick"), tick), ("attr", G, "bpm"), ("attr", SELF, "resolution"))
        TS = ("?sym", "+", ("attr", G, "timestamp"), td_seconds(SEC))
        pat = ("tuple", (TS, I))
        if match(pat, ex[0].value) is None:
            fail(r, ctx, f, ex[0].node,
                 "query result is not (g.timestamp + timedelta(seconds=sec(|tick - g.tick|, g.bpm, self.resolution)), i) "
                 "with g = self.events[i] and i = index(tick, hint) for one and the same i; found "
                 + show(ex[0].value)[:600])

    def check_noopt(self, r: Rule) -> None:
        ctx = self.ctx
        f = ctx.func(QNO)
        s = ctx.summary(f)
        r.inst(f"{f.qual}: return term")
        ex = live_exits(s)
        want = ("proj", self.q_call(SELF, ("param", "tick"), ("const", 0)), 0)
        if len(ex) != 1 or ex[0].kind != "ret" or ex[0].cond or match(want, ex[0].value) is None or s.effects:
            fail(r, ctx, f, (ex[0].node if ex else f.node),
                 "the un-hinted query must be component 0 of timestamp_at_tick(tick) with the default hint 0; found "
                 + "; ".join(show(e.value)[:200] for e in ex))

    # ------------------------------------------------------------------ sec
    def check_sec_formula(self, r: Rule, max_roundings: int = 8) -> None:
        """P1: sec = 60*ticks/(bpm*resolution) as a rational function; only IEEE * and /; k <= 8 roundings."""
        ctx, f = self.ctx, self.secf
        if f is None:
            fail(r, ctx, self.qf, self.qf.node, "cannot find the seconds formula: no package function feeds "
                                                "timedelta(seconds=...) in the tick-to-time query")
            return
        s = ctx.summary(f)
        ps = f.params()
        rets = s.rets()
        r.inst(f"{f.qual}: {len(rets)} return(s)")
        if not rets:
            fail(r, ctx, f, f.node, "seconds formula never returns")
        for e in rets:
            def leaf(t: Term) -> Optional[str]:
                if t[0] == "param" and t[1] in ps:
                    return t[1]
                return None
            try:
                c, exps, n = monomial(e.value, leaf)
            except NotMonomial as ex:
                fail(r, ctx, f, e.node, f"seconds formula is not a product/quotient of its arguments and exact literals "
                                        f"(an operation other than IEEE * and / adds a rounding the error bound does not "
                                        f"cover): offending sub-term {ex}")
                continue
            want = {ps[0]: 1, ps[1]: -1, ps[2]: -1}
            if c != Fraction(60) or exps != want:
                fail(r, ctx, f, e.node, f"seconds formula is {c}*" + "*".join(f"{k}^{v}" for k, v in sorted(exps.items()))
                     + f", expected 60*{ps[0]}/({ps[1]}*{ps[2]})")
            if n > max_roundings:
                fail(r, ctx, f, e.node, f"seconds formula uses {n} float operations (> {max_roundings}): the 1 ns error "
                                        f"budget of the argument no longer holds")

    def sec_guard_atoms(self):
        f = self.secf
        assert f is not None
        ps = f.params()
        T, B, R = ("param", ps[0]), ("param", ps[1]), ("param", ps[2])
        return [
            ("ticks<0", fcmp_atom("<", T, ("const", 0))),
            ("bpm<=0", fcmp_atom("<=", B, ("const", 0))),
            ("res<=0", fcmp_atom("<=", R, ("const", 0))),
        ]

    def check_sec_guards(self, r: Rule) -> None:
        """C15: sec rejects ticks<0, bpm<=0, resolution<=0 with ValueError before any return, and nothing else."""
        ctx, f = self.ctx, self.secf
        if f is None:
            fail(r, ctx, self.qf, self.qf.node, "cannot find the guarded seconds formula in the tick-to-time query")
            return
        s = ctx.summary(f)
        atoms = self.sec_guard_atoms()
        rows, unknown = decision_table(live_exits(s), atoms)
        unknown_atoms(r, ctx, f, s, unknown, "ticks < 0, bpm <= 0, resolution <= 0")
        if unknown:
            return
        for val, hit in rows:
            bad = any(val.values())
            r.inst(f"{f.name}: {val}")
            if len(hit) != 1:
                fail(r, ctx, f, f.node, f"for {val} the function has {len(hit)} outcomes; expected exactly one")
                continue
            e = hit[0]
            if bad:
                if e.kind != "raise" or not exc_is(ctx, exc_name(e.value), "builtins.ValueError"):
                    fail(r, ctx, f, e.node, f"untrustworthy argument ({[k for k, v in val.items() if v]}) must raise "
                                            f"ValueError before any result; found {e.kind} {show(e.value)[:80]}")
            else:
                if e.kind != "ret":
                    fail(r, ctx, f, e.node, f"valid arguments (ticks >= 0, bpm > 0, resolution > 0) must yield a value; "
                                            f"found raise {exc_name(e.value)}")
        for e in s.effects:
            fail(r, ctx, f, e.node, f"seconds formula has a side effect ({e.kind})")
        if s.loops:
            fail(r, ctx, f, f.node, "seconds formula contains a loop")

    def check_sec_monotone(self, r: Rule) -> None:
        """C12: every float step of sec is monotone non-decreasing in ticks when bpm, resolution > 0."""
        ctx, f = self.ctx, self.secf
        if f is None:
            fail(r, ctx, self.qf, self.qf.node, "cannot find the seconds formula in the tick-to-time query")
            return
        s = ctx.summary(f)
        ps = f.params()
        for e in s.rets():
            r.inst(f"{f.qual}: monotonicity of {show(e.value)[:100]} in {ps[0]}")
            guards = {a for a, p in e.cond}

            def positive(t: Term) -> bool:
                if t[0] == "const":
                    return isinstance(t[1], (int, float)) and t[1] > 0
                if t[0] == "param" and t[1] in ps[1:]:
                    # positive by the dominating guard (checked by check_sec_guards)
                    return True
                if t[0] == "binop" and t[1] in ("*", "/"):
                    return positive(t[2]) and positive(t[3])
                return False
            m = monotone(e.value, lambda t: t == ("param", ps[0]), positive)
            if m != "+":
                fail(r, ctx, f, e.node, f"cannot show the seconds formula monotone non-decreasing in {ps[0]} step by step "
                                        f"(verdict {m}); a non-monotone step lets a later tick get an earlier time")

    # ------------------------------------------------------------------ index function
    def check_index(self, r_guards: Rule, r_scan: Rule) -> None:
        """C11 G1/G2 + S2 scan; C15 (tick before events[h] rejected)."""
        ctx, f = self.ctx, self.idxf
        if f is None:
            fail(r_guards, ctx, self.qf, self.qf.node, "cannot find the governing-event lookup: the tick-to-time query no "
                                                       "longer subscripts self.events with the result of one guarded index "
                                                       "function on every path")
            return
        s = ctx.summary(f)
        ps = f.params()
        if len(ps) < 3:
            fail(r_guards, ctx, f, f.node, f"index function signature {ps} is not (self, tick, hint)")
            return
        tick, h = ("param", ps[1]), ("param", ps[2])
        EV = ("attr", SELF, "events")
        LEN = ("call", ("builtin", "len"), (EV,), ())
        # G1: h > last  <=>  len - h <= 0
        g1 = icmp_atom(LEN, h, 0)
        g2 = fcmp_atom("<", tick, ("attr", ("sub", EV, h), "tick"))
        atoms = [("hint>last", g1), ("tick<events[hint].tick", g2)]
        r_guards.inst(f"{f.qual}: guard hint beyond last event")
        r_guards.inst(f"{f.qual}: guard tick precedes events[hint]")
        if len(s.loops) > 1:
            fail(r_scan, ctx, f, f.node, f"index function has {len(s.loops)} loops; the verified scan schema S2 has one")
            return
        loop = next(iter(s.loops.values()), None)
        pre = [e for e in live_exits(s) if not e.loops]
        inl = [e for e in live_exits(s) if e.loops]
        rows, unknown = decision_table(pre, atoms)
        unknown_atoms(r_guards, ctx, f, s, unknown, "hint > last index; tick < events[hint].tick")
        if unknown:
            return
        default = None
        for val, hit in rows:
            if val["hint>last"]:
                # whatever else holds, must raise ValueError
                if len(hit) != 1 or hit[0].kind != "raise" or not exc_is(ctx, exc_name(hit[0].value), "builtins.ValueError"):
                    fail(r_guards, ctx, f, (hit[0].node if hit else f.node),
                         "a hint beyond the last tempo event must raise ValueError (otherwise events[hint] is an "
                         f"IndexError or, for negative wrap-around, a wrong event); outcomes for {val}: "
                         + ", ".join(e.kind for e in hit))
            elif val["tick<events[hint].tick"]:
                if len(hit) != 1 or hit[0].kind != "raise" or not exc_is(ctx, exc_name(hit[0].value), "builtins.ValueError"):
                    fail(r_guards, ctx, f, (hit[0].node if hit else f.node),
                         "a tick before events[hint] must raise ValueError (hint beyond the governing event, or a tick "
                         f"before the first tempo event); outcomes for {val}: " + ", ".join(e.kind for e in hit))
            else:
                if len(hit) != 1 or hit[0].kind != "ret":
                    fail(r_guards, ctx, f, (hit[0].node if hit else f.node),
                         f"valid (tick, hint) must fall through to the scan with one default result; found "
                         + ", ".join(e.kind for e in hit))
                else:
                    default = hit[0]
        # S2 scan
        r_scan.inst(f"{f.qual}: forward scan")
        if loop is None or loop.kind != "for":
            fail(r_scan, ctx, f, f.node, "index function has no `for i in range(hint, last)` scan (schema S2)")
            return
        it = loop.iter
        ok = it is not None and it[0] == "call" and it[1] == ("builtin", "range") and len(it[2]) == 2 and not it[3]
        if ok:
            lo, hi = it[2]
            bl, cl = affine(lo)
            bh, ch = affine(hi)
            if not (strip(bl) == h and cl == 0):
                fail(r_scan, ctx, f, loop.node, f"scan must start at the hint itself; it starts at {show(lo)} "
                                                f"(starting later skips the governing event when hint == g(t))")
            if not (bh is not None and match(LEN, bh) is not None and ch == -1):
                fail(r_scan, ctx, f, loop.node, f"scan must stop before the last index (range end len(events) - 1); "
                                                f"found {show(hi)}")
        else:
            fail(r_scan, ctx, f, loop.node, f"scan iterable is not range(hint, last): {show(it) if it else None}")
        elem = ("elem", loop.id)
        # inside: exactly one exit: return elem if events[elem+1].tick > tick
        rets_in = [e for e in inl if e.kind == "ret"]
        others = [e for e in inl if e.kind != "ret"]
        for e in others:
            fail(r_scan, ctx, f, e.node, f"unexpected {e.kind} inside the scan")
        if len(rets_in) != 1:
            fail(r_scan, ctx, f, loop.node, f"scan must have exactly one `return i` under one test; found {len(rets_in)}")
        else:
            e = rets_in[0]
            if strip(e.value) != elem:
                fail(r_scan, ctx, f, e.node, f"scan must return the scanned index itself; returns {show(e.value)}")
            # dominance: the scan runs only after both guards have been passed (a guard placed after the loop lets a hint beyond the
            # governing event answer from inside the scan)
            for gname, g in atoms:
                established = False
                for a_, p_ in e.cond:
                    v_ = g(a_)
                    if v_ is not None and (p_ if v_ else not p_) is False:
                        established = True
                if not established:
                    fail(r_guards, ctx, f, e.node, f"the scan's `return i` is not dominated by the guard `{gname}` -> ValueError: the guard must be "
                                                   f"tested before the scan (path condition of the return: {cond_str(tuple((a, p) for a, p in e.cond if a[0] != 'inloop'))[:200]})")
            inner = [(a, p) for a, p in e.cond if a[0] != "inloop" and (a, p) not in (default.cond if default else ())]
            want = fcmp_atom("<", tick, ("attr", ("sub", EV, ("binop", "+", elem, ("const", 1))), "tick"))
            if len(inner) != 1 or want(inner[0][0]) != inner[0][1] or want(inner[0][0]) is None:
                fail(r_scan, ctx, f, e.node,
                     "scan predicate must be exactly events[i + 1].tick > tick (strict: with >= a tick equal to a tempo "
                     "change would be governed by the previous tempo); found " + cond_str(tuple(inner)))
        for n, (init, upd) in loop.carried.items():
            if upd is not None and n not in ("index",):
                pass
        if default is not None:
            b, c = affine(default.value)
            if not (b is not None and match(LEN, b) is not None and c == -1):
                fail(r_scan, ctx, f, default.node, f"default result must be the last index len(events) - 1; found "
                                                   f"{show(default.value)}")
        for e in s.effects:
            fail(r_scan, ctx, f, e.node, f"index function has a side effect ({e.kind})")

    # ------------------------------------------------------------------ accumulate
    def check_accumulate(self, r: Rule, r_order: Optional[Rule] = None) -> dict:
        """P3 + order guard on BPMEvent.from_parsed_data. Returns the ctor kwargs for further checks."""
        ctx = self.ctx
        f = ctx.func(f"{BPMEVENT}.from_parsed_data")
        s = ctx.summary(f)
        ps = f.params()
        data, prev, res = ("param", ps[1]), ("param", ps[2]), ("param", ps[3])
        atoms = [("prev is None", opt_atom(prev)),
                 ("data.tick<=prev.tick", fcmp_atom("<=", ("attr", data, "tick"), ("attr", prev, "tick")))]
        rows, unknown = decision_table(live_exits(s), atoms)
        rr = r_order or r
        unknown_atoms(rr, ctx, f, s, unknown, "prev_event is None; data.tick <= prev_event.tick")
        out: dict = {}
        if unknown:
            return out
        for e in s.effects:
            fail(r, ctx, f, e.node, f"tempo event builder has a side effect ({e.kind})")
        for val, hit in rows:
            N, O = val["prev is None"], val["data.tick<=prev.tick"]
            if r_order is not None:
                r_order.inst(f"{f.name}: {val}")
            if len(hit) != 1:
                fail(rr, ctx, f, f.node, f"for {val}: {len(hit)} outcomes, expected one")
                continue
            e = hit[0]
            if not N and O:
                if e.kind != "raise" or not exc_is(ctx, exc_name(e.value), "builtins.ValueError"):
                    fail(rr, ctx, f, e.node, "a tempo event whose tick is not after its predecessor's must raise "
                                             f"ValueError (strictly increasing ticks); found {e.kind} {show(e.value)[:80]}")
                continue
            if e.kind != "ret":
                fail(rr, ctx, f, e.node, f"well-ordered tempo event must be built; found raise {exc_name(e.value)} for {val}")
                continue
            v = resolve_ite(e.value, atoms, val)
            if not (v[0] == "call" and v[1] in (("clsparam", BPMEVENT), ("class", BPMEVENT))):
                fail(r, ctx, f, e.node, f"result is not a construction of the tempo event: {show(v)[:200]}")
                continue
            kw = dict(v[3])
            out[N] = kw
            r.inst(f"{f.name}: ctor for prev {'None' if N else 'present'}")
            if strip(kw.get("tick")) != ("attr", data, "tick"):
                fail(r, ctx, f, e.node, f"tempo event tick must be data.tick; found {show(kw.get('tick'))}")
            ts = kw.get("timestamp")
            if N:
                if not any(match(z, ts) is not None for z in TD_ZERO_FORMS):
                    fail(r, ctx, f, e.node, f"first tempo event must be at exactly time zero; found {show(ts)[:120]}")
            else:
                if self.secf is None:
                    fail(r, ctx, f, e.node, "seconds formula not found in the tick-to-time query; cannot relate the "
                                            "accumulation to it")
                    continue
                SEC = self.sec_call(delta_forms(("attr", prev, "tick"), ("attr", data, "tick")), ("attr", prev, "bpm"), res)
                pat = ("?sym", "+", ("attr", prev, "timestamp"), td_seconds(SEC))
                if match(pat, ts) is None:
                    fail(r, ctx, f, e.node,
                         "tempo event time must be prev.timestamp + timedelta(seconds=sec(|tick - prev.tick|, prev.bpm, "
                         "resolution)) -- the *previous* tempo over the elapsed ticks, one microsecond rounding; found "
                         + show(ts)[:400])
        return out

    # ------------------------------------------------------------------ stamp sites
    def event_builders(self) -> list:
        """Distinct from_parsed_data implementations of Event subclasses (public base anchor)."""
        ctx = self.ctx
        ev = ctx.cls(EVENT)
        out: dict = {}
        for c in ctx.prog.subclasses(ev):
            f = c.find_method("from_parsed_data")
            if f is not None and not f.is_abstract:
                out.setdefault(f.qual, (f, []))[1].append(c)
        return list(out.values())

    def hint_ok(self, hint: Term, prev: Term) -> bool:
        """hint in {0, prev._proximal_bpm_event_index if prev else 0}."""
        if hint == ("const", 0):
            return True
        atoms = [("prev is None", opt_atom(prev))]
        try:
            a = resolve_ite(hint, atoms, {"prev is None": True})
            b = resolve_ite(hint, atoms, {"prev is None": False})
        except UnknownAtom:
            return False
        return a == ("const", 0) and strip(b) == ("attr", prev, "_proximal_bpm_event_index")

    def check_stamp_sites(self, r: Rule, r_hint: Optional[Rule] = None) -> None:
        """P5 (+C11 P4): every tempo-map-needing event stores Q0(own tick, hint) and the index of the *same* query."""
        ctx = self.ctx
        for f, classes in self.event_builders():
            owner = f.cls.qual if f.cls is not None else "?"
            if owner in (BPMEVENT, "chartparse.sync.AnchorEvent", "chartparse.instrument.NoteEvent"):
                continue
            s = ctx.summary(f)
            ps = f.params()
            if len(ps) < 4:
                fail(r, ctx, f, f.node, f"event builder signature {ps} is not (cls, data, prev_event, bpm_events)")
                continue
            data, prev, bpm = ("param", ps[1]), ("param", ps[2]), ("param", ps[3])
            names = ", ".join(c.name for c in classes)
            r.inst(f"{f.qual} (builds {names}): tick/timestamp/index wiring")
            if r_hint is not None:
                r_hint.inst(f"{f.qual}: hint source")
            ex = live_exits(s)
            if len(ex) != 1 or ex[0].kind != "ret" or ex[0].cond or s.effects or s.loops:
                fail(r, ctx, f, f.node, f"event builder must be a single unconditional construction without effects; found "
                                        f"{len(ex)} exits, {len(s.effects)} effects, {len(s.loops)} loops: "
                     + "; ".join(f"{e.kind} if {cond_str(e.cond)[:100]}" for e in ex)[:400])
                continue
            v = ex[0].value
            if not (v[0] == "call" and v[1][0] in ("clsparam", "class")):
                fail(r, ctx, f, ex[0].node, f"result is not a construction: {show(v)[:200]}")
                continue
            kw = dict(v[3])
            tick = ("attr", data, "tick")
            if strip(kw.get("tick")) != tick:
                fail(r, ctx, f, ex[0].node, f"event tick must be data.tick; found {show(kw.get('tick'))}")
            qp = ("proj", ("?", "q", self.q_call(bpm, tick, H("hint"))), 0)
            b = match(qp, kw.get("timestamp"))
            if b is None:
                fail(r, ctx, f, ex[0].node, "event timestamp must be component 0 of bpm_events.timestamp_at_tick(data.tick, "
                                            "start_iteration_index=hint) for the event's own tick; found "
                     + show(kw.get("timestamp"))[:300])
                continue
            px = kw.get("_proximal_bpm_event_index", ("const", 0))
            if not (px == ("const", 0) or strip(px) == strip(("proj", b["q"], 1))):
                fail(r_hint or r, ctx, f, ex[0].node,
                     "stored tempo cursor must be the index returned by the very query that produced the timestamp "
                     "(or the literal 0); found " + show(px)[:200])
            if not self.hint_ok(b["hint"], prev):
                fail(r_hint or r, ctx, f, ex[0].node,
                     "lookup hint must be 0 or the predecessor's stored cursor (prev._proximal_bpm_event_index if prev "
                     "else 0); any other source may lie beyond the governing tempo event; found " + show(b["hint"])[:200])

    # ------------------------------------------------------------------ folds (S4) and dispatch
    def check_folds(self, r: Rule) -> dict:
        """S4 on the per-kind builders inside build_events_from_data + exhaustive dispatch.
        Returns {event class qual: FuncInfo of the from_parsed_data it is folded with}."""
        ctx = self.ctx
        bf = ctx.func("chartparse.track.build_events_from_data")
        bs = ctx.summary(bf)
        ps = bf.params()
        result: dict = {}
        ev = ctx.cls(EVENT)
        kinds = [c for c in ctx.prog.subclasses(ev) if c.find_method("from_parsed_data") is not None
                 and not c.find_method("from_parsed_data").is_abstract and c.qual != "chartparse.instrument.NoteEvent"]
        # only classes actually passed at call sites
        passed = set()
        sites = 0
        for g in ctx.prog.all_functions():
            try:
                sm = ctx.ev.summary(g)
            except Exception:
                continue
            for c in sm.calls:
                if c.fn == ("func", bf.qual):
                    sites += 1
                    a = dict(c.kwargs).get(ps[0])
                    if a is not None and a[0] == "class":
                        passed.add(a[1])
                    else:
                        fail(r, ctx, g, c.node, f"event kind passed to the builder is not a class constant: {show(a)}")
        self.build_sites = sites
        for cq in sorted(passed):
            c = ctx.cls(cq)
            sp = ctx.specialise(bf, {ps[0]: ("class", cq)})
            ex = live_exits(sp)
            r.inst(f"build_events_from_data[{c.name}]: dispatch + fold")
            if len(ex) != 1 or ex[0].kind != "ret":
                fail(r, ctx, bf, bf.node, f"dispatch for {c.name} is not a single return: "
                     + "; ".join(f"{e.kind} {exc_name(e.value) if e.kind == 'raise' else ''} if {cond_str(e.cond)[:80]}" for e in ex))
                continue
            v = ex[0].value
            if v[0] == "comp" and v[1] == "list":
                self._check_fold_comp(r, bf, ex[0], v, c, ("param", ps[1]), result)
                continue
            if not (v[0] == "call" and v[1][0] in ("closure", "func") and (ctx.prog.functions.get(v[1][1]) is not None)):
                fail(r, ctx, bf, ex[0].node, f"dispatch for {c.name} does not call a per-kind fold helper: {show(v)[:200]}")
                continue
            helper = ctx.prog.functions.get(v[1][1])
            if helper is None:
                raise AnalysisError(f"fold helper {v[1][1]} not found")
            hk = dict(v[3])
            hargs = {}
            for k, a in hk.items():
                hargs[k] = a
            hs = ctx.ev.evaluate(helper, hargs, None, 0)
            self._check_fold(r, helper, hs, c, ("param", ps[1]), ("param", ps[2]), result)
        return result

    def _check_fold_comp(self, r: Rule, where, ex, v: Term, c: ClassInfo, datas: Term, result: dict) -> None:
        """[K.from_parsed_data(d) for d in datas] -- admissible only for builders that take no predecessor / tempo map."""
        ctx = self.ctx
        want = c.find_method("from_parsed_data")
        gens = v[3]
        if want is None or len(want.params()) != 2:
            fail(r, ctx, where, ex.node, f"{c.name} events are built by a comprehension, but their builder needs the predecessor and the tempo map: "
                                         f"a comprehension cannot thread them")
            return
        if len(gens) != 1 or gens[0][2] or strip(gens[0][1]) != strip(datas):
            fail(r, ctx, where, ex.node, f"{c.name} comprehension must visit every parsed datum once, in order, unfiltered; found {show(v)[:160]}")
            return
        bv = gens[0][0]
        sp = ctx.ev.evaluate(want, {want.params()[0]: ("class", c.qual), want.params()[1]: bv}, None, 0)
        rt = sp.ret_term()
        if rt is None or strip(v[2]) != strip(rt):
            fail(r, ctx, where, ex.node, f"{c.name} comprehension element is not the kind's own builder applied to the datum: {show(v[2])[:160]}")
            return
        result[c.qual] = want
        self.anchor_ctor = (where, None, v[2], bv)

    def _check_fold(self, r: Rule, helper: FuncInfo, hs: Summary, c: ClassInfo, datas: Term, third: Term, result: dict) -> None:
        ctx = self.ctx
        if not hs.loops:
            exs = live_exits(hs)
            if len(exs) == 1 and exs[0].kind == "ret" and exs[0].value[0] == "comp" and exs[0].value[1] == "list":
                self._check_fold_comp(r, helper, exs[0], exs[0].value, c, datas, result)
                return
        if len(hs.loops) != 1:
            fail(r, ctx, helper, helper.node, f"fold helper for {c.name} must be a single loop over the data; found "
                                              f"{len(hs.loops)} loops")
            return
        loop = next(iter(hs.loops.values()))
        if loop.kind != "for" or strip(loop.iter) != strip(datas):
            fail(r, ctx, helper, loop.node, f"fold for {c.name} must iterate the parsed data in the order given (file "
                                            f"order); it iterates {show(loop.iter) if loop.iter else 'a while loop'}")
        ex = live_exits(hs)
        if len(ex) != 1 or ex[0].kind != "ret" or ex[0].loops:
            fail(r, ctx, helper, helper.node, f"fold helper for {c.name} must return once after the loop; found "
                 + "; ".join(f"{e.kind} in-loop={bool(e.loops)}" for e in ex))
            return
        ret = ex[0].value
        acc = ret
        if ret[0] == "call" and ret[1] == ("class", BPMEVENTS):
            kw = dict(ret[3])
            acc = kw.get("events")
            if strip(kw.get("resolution")) != strip(third):
                fail(r, ctx, helper, ex[0].node, f"tempo map must carry the resolution it was built with; found "
                                                 f"{show(kw.get('resolution'))}")
        if acc is None or acc[0] != "list" or acc[1]:
            fail(r, ctx, helper, ex[0].node, f"fold for {c.name} must return its own fresh accumulator list; returns "
                                             f"{show(ret)[:120]}")
            return
        appends = [e for e in hs.effects if e.kind == "mutcall" and e.key == "append" and e.target == acc]
        other = [e for e in hs.effects if e not in appends]
        for e in other:
            fail(r, ctx, helper, e.node, f"fold for {c.name} has an extra effect: {e.kind} {e.key} on {show(e.target)[:60]}")
        if len(appends) != 1:
            fail(r, ctx, helper, loop.node, f"fold for {c.name} must append exactly once per datum; found {len(appends)} appends")
            return
        ap = appends[0]
        extra = [(a, p) for a, p in ap.cond if a[0] != "inloop"]
        if extra or ap.loops != (loop.id,):
            fail(r, ctx, helper, ap.node, f"append for {c.name} is conditional ({cond_str(tuple(extra))}) -- a datum could be "
                                          f"dropped")
        val = ap.value[0]
        elem = ("elem", loop.id)
        PREV = ("ite", acc, ("sub", acc, ("const", -1)), ("const", None))
        want = c.find_method("from_parsed_data")
        # the builder call record (present whether or not the evaluator inlined the builder's body)
        recs = [x for x in hs.calls if want is not None and x.fn[0] in ("func", "boundcls") and x.fn[1] == want.qual and x.loops == (loop.id,)]
        if want is None or len(recs) != 1:
            others = sorted({x.fn[1] for x in hs.calls if x.fn[0] in ("func", "boundcls") and x.fn[1].endswith(".from_parsed_data")})
            fail(r, ctx, helper, ap.node, f"{c.name} data must be built by exactly one call of {want.qual if want else '?'} per datum; found "
                                          f"{len(recs)} such call(s) (builders called: {others})")
            return
        rec = recs[0]
        if strip(val) != strip(rec.result):
            fail(r, ctx, helper, ap.node, f"the value appended for {c.name} is not the result of the builder call on this datum: {show(val)[:160]}")
        if True:
            fi = want
            result[c.qual] = fi
            kw = dict(rec.kwargs)
            fps = fi.params()
            if strip(kw.get(fps[1])) != elem:
                fail(r, ctx, helper, ap.node, f"builder for {c.name} must receive the current datum as `{fps[1]}`; receives {show(kw.get(fps[1]))[:120]}")
            if len(fps) >= 4:
                prev_a = kw.get(fps[2])
                carried_ok = False
                if prev_a is not None and prev_a[0] == "lv" and prev_a[1] == loop.id:
                    # second verified form: the predecessor is carried in a local -- starts as None, becomes the event just appended at
                    # the end of every iteration (exactly the value appended; no other assignment)
                    init_, upd_ = loop.carried.get(prev_a[2], (None, None))
                    carried_ok = init_ == ("const", None) and upd_ is not None and strip(upd_) == strip(val) and not extra
                if not carried_ok and strip(prev_a) != strip(PREV):
                    fail(r, ctx, helper, ap.node,
                         f"predecessor passed for {c.name} must be the last event appended to the same list "
                         f"(acc[-1] if acc else None); found {show(kw.get(fps[2]))[:160]}")
                if strip(kw.get(fps[3])) != strip(third):
                    fail(r, ctx, helper, ap.node, f"third builder argument for {c.name} must be the tempo map / resolution "
                                                  f"handed to build_events_from_data; found {show(kw.get(fps[3]))[:120]}")
            if val[0] == "call" and val[1][0] in ("class", "clsparam"):
                self.anchor_ctor = (helper, ap, val, elem)

