"""decode -- line recognisers' from_chart_line: match -> conversions -> ParsedData fields; ParsedData -> event fields.
Shared by C01 (tempo value), C07, C08, C09, C14, C18."""
from __future__ import annotations

from typing import Any, Optional

from ..constfold import NotConstant, Regex
from ..context import Ctx
from ..match import ANYP, H, decision_table, is_atom, match, resolve_ite, strip
from ..report import AnalysisError, Rule, Unproven
from ..terms import show, subterms
from .lib import cond_str, exc_is, exc_name, fail, is_none_atom, live_exits, unknown_atoms
from .timing import BPMEVENT, TIMEDELTA

RNM = "chartparse.exceptions.RegexNotMatchError"
NTI = "chartparse.instrument.NoteTrackIndex"

# public recogniser classes -> {ParsedData field: (regex group number, conversion)}
RECOGNISERS = {
    "chartparse.instrument.NoteEvent.ParsedData": {"tick": (1, "int"), "note_track_index": (2, "nti"), "sustain": (3, "int")},
    "chartparse.instrument.StarPowerEvent.ParsedData": {"tick": (1, "int"), "sustain": (2, "int")},
    "chartparse.instrument.TrackEvent.ParsedData": {"tick": (1, "int"), "value": (2, "str")},
    "chartparse.sync.BPMEvent.ParsedData": {"tick": (1, "int"), "raw_bpm": (2, "str")},
    "chartparse.sync.TimeSignatureEvent.ParsedData": {"tick": (1, "int"), "upper": (2, "int"), "lower": (3, "optint")},
    "chartparse.sync.AnchorEvent.ParsedData": {"tick": (1, "int"), "microseconds": (2, "int")},
    "chartparse.globalevents.TextEvent.ParsedData": {"tick": (1, "int"), "value": (2, "str")},
    "chartparse.globalevents.SectionEvent.ParsedData": {"tick": (1, "int"), "value": (2, "str")},
    "chartparse.globalevents.LyricEvent.ParsedData": {"tick": (1, "int"), "value": (2, "str")},
}


def regex_of(ctx: Ctx, cq: str, attr: str = "_regex_prog") -> Regex:
    c = ctx.cls(cq)
    t = ctx.ev.class_attr_value(c, attr)
    if t is None:
        raise AnalysisError(f"{cq}.{attr} not found")
    try:
        v = ctx.fold.fold(t)
    except NotConstant as e:
        raise Unproven(f"{cq}.{attr}", f"{cq}.{attr} is not a constant the analysis can evaluate any more: {e}", c.module.path, getattr(c.node, "lineno", 0))
    if not isinstance(v, Regex):
        raise Unproven(f"{cq}.{attr}", f"{cq}.{attr} evaluates to {v!r}, not a compiled pattern", c.module.path, getattr(c.node, "lineno", 0))
    return v


def check_from_chart_line(ctx: Ctx, r: Rule, cq: str) -> Optional[dict]:
    """Closed-world check of one recogniser's from_chart_line.  Returns {'pattern', 'method', 'ngroups_unpacked'}."""
    c = ctx.cls(cq)
    f = c.find_method("from_chart_line")
    spec = RECOGNISERS[cq]
    short = cq.replace("chartparse.", "")
    r.inst(f"{short}.from_chart_line: match -> conversions")
    if f is None or f.is_abstract:
        fail(r, ctx, c, c.node, f"{short} has no from_chart_line")
        return None
    # evaluate with cls bound to the concrete class so that inherited methods read the right class attributes
    s = ctx.ev.evaluate(f, {f.params()[0]: ("clsparam", cq)}, None, 0)
    line = ("param", f.params()[1])
    PROG = ("?or", ("attr", ("clsparam", cq), "_regex_prog"))
    M = ("call", ("meth", H("method")), (("attr", ("clsparam", cq), H("progattr")), line), ())
    found: dict = {}

    def matcher(t):
        b = match(M, t)
        if b is not None and b["method"] in ("match", "fullmatch", "search"):
            found.update(b)
            found["M"] = t
            return True
        if t[0] == "not":
            x = matcher(t[1])
            return None if x is None else (not x)
        if t[0] == "cmp" and t[1] == "is" and ("const", None) in (t[2], t[3]):
            other = t[3] if t[2] == ("const", None) else t[2]
            x = matcher(other)
            return None if x is None else (not x)
        return None

    atoms = [("matched", matcher)]
    rows, unknown = decision_table(live_exits(s), atoms)
    unknown_atoms(r, ctx, f, s, unknown, "the recogniser's own regular expression matched the line")
    if unknown:
        return None
    for e in s.effects:
        fail(r, ctx, f, e.node, f"{short}.from_chart_line has a side effect ({e.kind} on {show(e.target)[:60]}): decoding one line "
                                f"must not depend on or change anything else")
    if s.loops:
        fail(r, ctx, f, f.node, f"{short}.from_chart_line contains a loop")
    info = None
    for val, hit in rows:
        if len(hit) != 1:
            fail(r, ctx, f, f.node, f"{short}.from_chart_line: {len(hit)} outcomes for matched={val['matched']}")
            continue
        e = hit[0]
        if not val["matched"]:
            if e.kind != "raise" or exc_name(e.value) != RNM:
                fail(r, ctx, f, e.node, f"a line the recogniser does not match must raise RegexNotMatchError (the dispatcher's "
                                        f"'try next kind' signal); found {e.kind} {show(e.value)[:80]}")
            continue
        if e.kind != "ret":
            fail(r, ctx, f, e.node, f"a matching line must be decoded; found raise {exc_name(e.value)}")
            continue
        v = e.value
        if not (v[0] == "call" and v[1][0] in ("clsparam", "class") and v[1][1] == cq):
            fail(r, ctx, f, e.node, f"result is not a {short} construction: {show(v)[:160]}")
            continue
        kw = dict(v[3])
        Mt = found.get("M")
        GR = ("call", ("meth", "groups"), (Mt,), ())

        def grp(k):  # group k (1-based)
            return ("?or", ("proj", GR, k - 1), ("call", ("meth", "group"), (Mt, ("const", k)), ()), ("sub", Mt, ("const", k)))

        INT = lambda x: ("call", ("builtin", "int"), (x,), ())  # noqa: E731
        for field, (g, conv) in spec.items():
            got = kw.get(field)
            if conv == "int":
                ok = match(INT(grp(g)), got) is not None
                want = f"int(group {g})"
            elif conv == "str":
                ok = match(grp(g), got) is not None
                want = f"group {g} verbatim"
            elif conv == "nti":
                ok = match(("call", ("class", NTI), (INT(grp(g)),), ()), got) is not None
                want = f"NoteTrackIndex(int(group {g}))"
            elif conv == "optint":
                want = f"int(group {g}) if the group took part else None"
                ok = False
                if got is not None and got[0] == "ite":
                    c_, a_, b_ = got[1], got[2], got[3]
                    # try/except TypeError form:  (None if <raises T> else int(g))
                    # (`lower = None` before the try with a handler that does nothing leaves "what it was before", i.e. None, too)
                    if c_[0] == "raises" and (a_ == ("const", None) or (len(a_) == 4 and a_[0] == "maybe" and a_[1] == c_[1] and a_[3] == ("const", None))) \
                            and match(INT(grp(g)), b_) is not None:
                        tid = c_[1]
                        ti = s.trys.get(tid)
                        hn = [exc_name(h) for hs in (ti.handlers if ti else []) if hs is not None for h in hs]
                        ok = hn == ["builtins.TypeError"] and ti is not None and len(ti.node.body) == 1
                    else:
                        isn = is_none_atom(grp(g))(c_)
                        if isn is True:
                            ok = a_ == ("const", None) and match(INT(grp(g)), b_) is not None
                        elif isn is False:
                            ok = b_ == ("const", None) and match(INT(grp(g)), a_) is not None
            else:
                ok, want = False, "?"
            if not ok:
                fail(r, ctx, f, e.node, f"{short}.{field} must be {want}; found {show(got)[:200] if got else None}")
        extra = set(kw) - set(spec)
        if extra:
            fail(r, ctx, f, e.node, f"{short} is built with unexpected fields {sorted(extra)}")
        ngroups = max(g for g, _ in spec.values())
        info = {"method": found.get("method"), "progattr": found.get("progattr"), "ngroups": ngroups, "func": f}
    if info is not None:
        try:
            info["pattern"] = regex_of(ctx, cq, info["progattr"]).pattern
        except AnalysisError as e:
            fail(r, ctx, f, f.node, str(e))
            return None
        # the error message's regex attribute is irrelevant; unpack arity = group count is checked by the rx rules
    return info


def check_bpm_value(ctx: Ctx, r: Rule, T) -> None:
    """C08: bpm = one correctly rounded int(raw_bpm)/1000; validator = round(bpm, 3) != bpm, nothing stricter."""
    f = ctx.func(f"{BPMEVENT}.from_parsed_data")
    s = ctx.summary(f)
    data = ("param", f.params()[1])
    r.inst(f"{f.qual}: bpm term")
    RAW = ("attr", data, "raw_bpm")
    # int / int true division is correctly rounded for operands of any size (CPython long_true_divide); with a float on either
    # side (1000.0, float(raw)) the integer is first rounded to a double, which is a second rounding for n > 2**53
    forms = [
        ("binop", "/", ("call", ("builtin", "int"), (RAW,), ()), ("?", "div")),
    ]
    n = 0
    for e in s.rets():
        for t in subterms(e.value):
            if t[0] == "call" and t[1][0] in ("clsparam", "class") and t[1][1] == BPMEVENT:
                n += 1
                bpm = dict(t[3]).get("bpm")
                okb = False
                for p in forms:
                    mb = match(p, bpm) if bpm is not None else None
                    if mb is not None and mb["div"][0] == "const" and type(mb["div"][1]) is int and mb["div"][1] == 1000:
                        okb = True
                if not okb:
                    fail(r, ctx, f, e.node, "tempo must be int(raw_bpm) / 1000 with the *integer* 1000 -- exactly one correctly rounded operation on exact "
                                            "operands whose exact result is n/1000 (a sum of parts, a product with 0.001, a string splice, or a "
                                            f"float operand such as 1000.0 / float(raw) is not the nearest float of n/1000 for every n); found {show(bpm)[:240] if bpm else None}")
    if n == 0:
        fail(r, ctx, f, f.node, "no BPMEvent construction found in the tempo builder")
    c = ctx.cls(BPMEVENT)
    v = c.find_method("__post_init__")
    r.inst(f"{BPMEVENT}.__post_init__: three-decimal validator")
    if v is not None:
        sv = ctx.summary(v)
        B = ("attr", ("self", BPMEVENT), "bpm")
        atom = ("3dec", lambda t: (True if match(("?sym", "==", ("call", ("builtin", "round"), (B, ("const", 3)), ()), B), t) is not None else
                                   (False if t[0] == "not" and match(("?sym", "==", ("call", ("builtin", "round"), (B, ("const", 3)), ()), B), t[1]) is not None else None)))
        rows, unknown = decision_table(live_exits(sv), [atom])
        unknown_atoms(r, ctx, v, sv, unknown, "round(self.bpm, 3) == self.bpm")
        if not unknown:
            for val, hit in rows:
                if len(hit) != 1 or (val["3dec"] and hit[0].kind != "ret"):
                    fail(r, ctx, v, v.node, "the tempo validator must accept every value with round(bpm, 3) == bpm (it cannot reject "
                                            "a correctly rounded n/1000)")


def check_event_fields(ctx: Ctx, r: Rule, event_q: str, fields: dict) -> None:
    """ParsedData -> event field conversions at the construction site of <event>.from_parsed_data.
    fields: {event field: pattern over ('param', data)}."""
    c = ctx.cls(event_q)
    f = c.find_method("from_parsed_data")
    short = event_q.replace("chartparse.", "")
    r.inst(f"{short}.from_parsed_data: field conversions {sorted(fields)}")
    if f is None:
        fail(r, ctx, c, c.node, f"{short}.from_parsed_data vanished")
        return
    s = ctx.summary(f)
    data = ("param", f.params()[1])
    ok_any = False
    for e in s.rets():
        for t in subterms(e.value):
            if t[0] == "call" and t[1][0] in ("clsparam", "class") and ctx.prog.classes.get(t[1][1]) is not None \
                    and c in ctx.prog.classes[t[1][1]].mro or (t[0] == "call" and t[1] == ("clsparam", f.cls.qual if f.cls else "")):
                ok_any = True
                kw = dict(t[3])
                for name, pat in fields.items():
                    p = pat(data) if callable(pat) else pat
                    if match(p, kw.get(name)) is None:
                        fail(r, ctx, f, e.node, f"{short}.{name} must be {show_pat(p)}; found {show(kw.get(name))[:200] if kw.get(name) else None}")
    if not ok_any:
        fail(r, ctx, f, f.node, f"no {short} construction found in from_parsed_data")


def show_pat(p: Any) -> str:
    try:
        return show(p)[:160]
    except Exception:
        return str(p)[:160]
