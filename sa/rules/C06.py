"""C06 -- sections are framed and routed to the right parser and track key."""
from .chartrules import ChartRules, CHART
from .decode import regex_of
from .lang import P, impl_pattern
from .lib import fail
from .. import rx
from ..report import AnalysisError

LEVEL = "other"


def check_header_regex(ctx, r, info):
    if info is None or not info.get("prog") or not info.get("method"):
        return  # the framing rule has already reported that it cannot find the header test
    f = info["func"]
    pat = regex_of(ctx, CHART, info["prog"]).pattern
    impl = impl_pattern(ctx, r, f, pat, info["method"])
    if impl is None:
        return
    canon = P(r"\[(?P<tag>[^\n]+)\]")
    upper = P(r"\[[^\n]+\]\n?")
    if rx.ambiguity(canon, ["tag"]) is not None:
        raise AnalysisError("header specification ambiguous")
    r.inst(f"header recogniser {pat!r}.{info['method']}: Canon ⊆ L")
    w = rx.included(canon, impl)
    if w is not None:
        fail(r, ctx, f, f.node, f"the header recogniser {pat!r} rejects the header line {w!r} (unknown sections must be reported and "
                                f"ignored, not rejected)", witness=w)
    r.inst("header recogniser: L ⊆ Upper")
    w = rx.included(impl, upper)
    if w is not None:
        fail(r, ctx, f, f.node, f"the header recogniser {pat!r} accepts {w!r}, which is not a [header] line", witness=w)
    r.inst("header recogniser: group 1 = text between the first '[' and the last ']'")
    if impl.ngroups < 1:
        fail(r, ctx, f, f.node, f"the header recogniser {pat!r} has no capture group: the section tag cannot be its group 1")
        return
    cw = rx.capture_exact(impl, canon, {"tag": 1})
    if cw is not None:
        fail(r, ctx, f, f.node, f"on the header line {cw.string!r} the recogniser captures {cw.got} where the tag is {cw.want}", witness=cw.string)
    # a BOM would be part of the line: the recogniser must reject it (so utf-8-sig is necessary, checked separately)


def run(ctx, rep):
    rep.explanation = (
        "P1 header recogniser language and capture (automata); P2 framing loop = schema S5: per-line decision table over (no section "
        "open, header matched, '{', '}') with affine body range [i_open + 1, i_close) over the re-iterable line list; P3 the section "
        "map is only addressed by tag; P4 fp.read().splitlines() and encoding='utf-8-sig' as folded constants; P5 each required tag's "
        "body feeds the parser of the class that owns the tag and the tags fold to Song / SyncTrack / Events; P6 the folded routing "
        "table has exactly the file format's 40 '<Difficulty><Instrument>' keys, each mapped to the (Instrument, Difficulty) pair whose "
        "values concatenate to it, passed in annotated order, stored under [instrument][difficulty], labelled with the same values; "
        "P7 the all(...) guard raises ValueError before any section is used; unknown sections only log.  Behaviour on malformed "
        "brace nesting is left open.")
    C = ChartRules(ctx)
    r2 = rep.rule("P2.framing", "framing loop = S5 with body range (open, close) exclusive", floor=8)
    info = C.check_framing(r2)
    r1 = rep.rule("P1.header", "L(header) = '[' .+ ']' with exact capture", floor=3)
    check_header_regex(ctx, r1, info)
    r3 = rep.rule("P3.by-tag", "sections addressed by tag only", floor=1)
    C.check_section_uses(r3)
    r4 = rep.rule("P4.reading", "splitlines() / utf-8-sig", floor=2)
    C.check_reading(r4)
    r5 = rep.rule("P5+P7.required", "required tags, guard, and the three routes", floor=7)
    C.check_required(r5)
    r8 = rep.rule("ctor", "the Chart stores exactly what from_file built, under the right attribute", floor=1)
    C.check_chart_init(r8)
    r6 = rep.rule("P6.table", "40-row header table = file format table", floor=41)
    r7 = rep.rule("P6.routing", "pair order, own body, store key, labels; unknown sections only reported", floor=1)
    parts = C.routing(r7)
    if parts is not None:
        C.check_table(r6, parts)
        C.check_routing(r7, parts)
    r9 = rep.rule("P8.total", "the reading, framing and routing code of chartparse.chart performs no partial operation that can fail on some "
                              "text (subscript, format template, None receiver, ...): a file lacking a section is rejected with the documented "
                              "ValueError and an unknown section is reported, never an internal error raised while building the message", floor=5)
    from .partial import check_partial_scope
    # (the two entry points and the private helpers they are cut into; other public methods and the special methods of Chart --
    # `chart[instrument]` raising KeyError for an absent instrument is its documented behaviour -- are not part of the parse)
    check_partial_scope(ctx, r9, [f"{CHART}.from_file", f"{CHART}.from_filepath"], only_modules={"chartparse.chart"},
                        only_funcs=lambda g: g.name in ("from_file", "from_filepath") or (g.name.startswith("_") and not g.name.startswith("__"))
                        or g.parent is not None)
