"""C18 -- only documented errors escape; parsed charts always render."""
from ..callgraph import CallGraph
from ..terms import show, subterms
from .C19 import reachable_classes
from .escape import catches, graph
from .lib import exc_bases, exc_is, exc_name, fail
from .notes import Notes
from .partial import Collector, Discharger
from .timing import Timing

LEVEL = "other"
ENTRY = "chartparse.chart.Chart.from_file"
DOCUMENTED = ["builtins.ValueError", "chartparse.exceptions.RegexNotMatchError", "chartparse.exceptions.MissingRequiredField"]
UNREACHABLE = "chartparse.exceptions.UnreachableError"


class Raises:
    """may-raise sets of explicit raises, propagated over the call graph, minus enclosing handlers; callee summaries are
    specialised on class-constant arguments so that exhaustive isinstance/issubclass dispatches fold statically."""

    def __init__(self, ctx) -> None:
        self.ctx = ctx
        self.cg = graph(ctx)
        self.memo: dict = {}
        self.sites = 0

    def of_summary(self, q, s, stack):
        out = {}
        f = self.cg.funcs.get(q)
        for e in s.exits:
            if e.kind != "raise":
                continue
            self.sites += 1
            name = exc_name(e.value)
            if name == "reraise":
                continue
            if e.handled is not None:
                ti = s.trys.get(e.handled)
                if ti is not None and any(catches(self.ctx, hs, name) for hs in ti.handlers) and not name.startswith("param:"):
                    continue
            out.setdefault(name, (q, e.node, [q]))
        for c in s.calls:
            if c.inlined and c.fn[0] in ("func", "closure", "boundcls"):
                continue
            callees = []
            if c.fn[0] in ("func", "closure", "boundcls"):
                callees = [c.fn[1]]
            elif c.fn[0] in ("class", "clsparam"):
                callees = [m.qual for cc in ([self.ctx.prog.classes.get(c.fn[1])] if c.fn[0] == "class" else self.ctx.prog.subclasses(self.ctx.prog.classes.get(c.fn[1])))
                           if cc is not None for m in self.cg._ctor_targets(cc.qual)]
                cc0 = self.ctx.prog.classes.get(c.fn[1])
                if cc0 is not None and cc0.is_enum():
                    out.setdefault("builtins.ValueError", (q, c.node, [q, f"{cc0.name}(value)"]))
            elif c.fn[0] == "meth":
                callees = [e.callee for e in self.cg.edges.get(q, []) if e.rec is c and e.kind == "cha"]
            # callbacks passed as arguments are attributed to the passer
            for a in list(c.args) + [v for _, v in c.kwargs]:
                if a[0] == "closure" and a[1] in self.cg.funcs:
                    callees.append(a[1])
            for cq in callees:
                g = self.cg.funcs.get(cq)
                if g is None:
                    continue
                spec = {k: v for k, v in c.kwargs if v[0] == "class"} if c.fn[0] in ("func", "boundcls") else {}
                sub = self.may_raise(cq, spec, stack)
                for name, (wq, wnode, chain) in sub.items():
                    nm = name
                    if name.startswith("param:"):
                        a = dict(c.kwargs).get(name[6:])
                        nm = exc_name(a) if a is not None else name
                    caught = any(catches(self.ctx, hs, nm) for tid, handlers in c.trys for hs in handlers) and not nm.startswith("param:")
                    if caught:
                        continue
                    out.setdefault(nm, (wq, wnode, [q] + chain))
        return out

    def may_raise(self, q, spec=None, stack=()):
        key = (q, tuple(sorted((k, v) for k, v in (spec or {}).items())))
        if key in self.memo:
            return self.memo[key]
        if q in stack:
            return {}
        f = self.cg.funcs.get(q)
        if f is None:
            return {}
        if spec:
            s = self.ctx.specialise(f, spec)
            # nested helpers called with the specialised arguments are evaluated through their own call records
        else:
            s = self.cg.summary(f)
        r = self.of_summary(q, s, stack + (q,))
        self.memo[key] = r
        return r


def run(ctx, rep):
    rep.explanation = (
        "An exception leaves Chart.from_file only if it is raised explicitly, or implicitly by a partial operation, outside a matching "
        "handler.  (A) may-raise analysis: explicit raise sites propagated over the resolved call graph minus enclosing handlers by "
        "class hierarchy, with callee summaries specialised on class-constant arguments (so the exhaustive issubclass / isinstance "
        "dispatches fold statically and their UnreachableError branches are proved dead); the escaping set must be within ValueError "
        "(and subclasses), RegexNotMatchError, MissingRequiredField; no assert on the path.  (B) every partial operation (value "
        "subscript, next/max, division, ordering comparison / arithmetic / attribute access on a possibly-None value, int() of an "
        "optional group, format specification) in parse-reachable code and in the __str__/__repr__ methods of every class reachable "
        "from a Chart is an obligation that must be discharged by one idiom of a closed list (D1..D16, DESIGN A.5); an undischarged "
        "obligation is reported.  Numeric overflow and resource exhaustion are outside the statement's bounds.")
    cg = graph(ctx)
    R = Raises(ctx)
    ra = rep.rule("A.escape", "explicit raises escaping Chart.from_file ⊆ {ValueError, RegexNotMatchError, MissingRequiredField}", floor=3)
    esc = R.may_raise(ENTRY)
    ef = ctx.func(ENTRY)
    for name, (wq, wnode, chain) in sorted(esc.items()):
        ra.inst(f"may escape: {name}  (raised in {wq}; chain {' -> '.join(c.replace('chartparse.', '') for c in chain[:6])})")
        ok = any(exc_is(ctx, name, d) for d in DOCUMENTED)
        if not ok:
            g = cg.funcs.get(wq) or ef
            fail(ra, ctx, g, wnode, f"{name} can escape Chart.from_file: raised in {wq}, reached through {' -> '.join(chain[:8])}; it is not one of "
                                    f"the documented errors")
    ra.inst(f"{R.sites} explicit raise site(s) examined on the parse path")
    # callables stored in module-level tables (e.g. the metadata field converters) are called through attributes the call graph
    # cannot resolve: every lambda / function referenced from a module-level value of a parse-reachable module counts as reachable
    table_roots = []
    for m_ in ctx.prog.modules.values():
        for name_ in m_.assigns:
            try:
                gv = ctx.ev.global_value(m_, name_)
            except Exception:
                continue
            for t_ in subterms(gv):
                if t_[0] == "closure" and (t_[1] in ctx.prog.lambdas or t_[1] in ctx.prog.functions):
                    table_roots.append(t_[1])
    for q_ in table_roots:
        if q_ not in cg.funcs:
            fi_ = ctx.prog.lambdas.get(q_) or ctx.prog.functions.get(q_)
            cg.funcs[q_] = fi_
            cg._build(fi_)
    reach = cg.reachable([ENTRY] + table_roots)
    for q_ in table_roots:
        for name, (wq, wnode, chain) in sorted(R.may_raise(q_).items()):
            ra.inst(f"may escape via table callable {q_}: {name}")
            if not any(exc_is(ctx, name, d) for d in DOCUMENTED):
                fail(ra, ctx, cg.funcs.get(wq) or ef, wnode, f"{name} can escape through the table callable {q_}")
    rb = rep.rule("A.assert", "no assert statement on the parse path", floor=1)
    n_as = 0
    import ast
    for q in sorted(reach):
        g = cg.funcs.get(q)
        if g is None:
            continue
        for n in ast.walk(g.node):
            if isinstance(n, ast.Assert):
                n_as += 1
                fail(rb, ctx, g, n, f"assert on the parse path in {q}: AssertionError is an internal failure")
    rb.inst(f"{len(reach)} parse-reachable functions scanned, {n_as} assert(s)")
    # ---- premises for contracts
    T = Timing(ctx)
    N = Notes(ctx, T)
    rp = rep.rule("B.contracts", "contracts used by the discharge idioms: S1 passes non-empty groups; the index function returns in-range "
                                 "indices", floor=2)
    N.check_grouping(rp)
    T.check_index(rp, rp)
    contracts = {"index-functions": (T.idxf.qual,) if T.idxf is not None else ()}
    for fq in ("chartparse.instrument.NoteEvent.from_parsed_data", "chartparse.instrument.complex_sustain_from_parsed_datas",
               "chartparse.instrument.Note.from_parsed_datas"):
        try:
            g = ctx.func(fq)
        except Exception:
            continue
        for p in g.params():
            if p == "datas":
                contracts[(fq, p)] = "group slice datas[left:j+1] with j >= left (schema S1)"
    # callers of those helpers must pass the group itself
    for fq, p in [k for k in contracts if isinstance(k, tuple)]:
        for e in cg.callers_of(fq):
            if e.rec is None or e.caller not in reach:
                continue
            a = dict(e.rec.kwargs).get(p)
            if a is None:
                continue
            okc = (a[0] == "param" and (e.caller, a[1]) in contracts) or (a[0] == "sub" and a[2][0] == "slice") or \
                (a[0] == "call" and a[1] in (("builtin", "list"), ("builtin", "tuple")) and len(a[2]) == 1 and a[2][0][0] == "proj"
                 and a[2][0][1][0] == "elem")  # list(group) of itertools.groupby: groups are never empty
            if not okc:
                fail(rp, ctx, cg.funcs[e.caller], e.rec.node, f"{e.caller} passes {show(a)[:80]} as `{p}` of {fq}: not the non-empty group the "
                                                             f"callee's first-element reads rely on")
    # ---- the static types the obligations rely on: each kind's list holds data of that kind only (dispatcher S3, section wiring)
    rty = rep.rule("B.kinds", "every parsed datum is filed under its own kind and every builder reads its own kind's list: attribute and "
                              "method look-ups on data and events resolve as their annotations say", floor=10)
    from .chain import check_chain
    check_chain(ctx, rty, "all", strict=True, safe_skip=False)
    # ---- partial operations
    D = Discharger(ctx, contracts)
    ro = rep.rule("B.partial", "every partial operation on the parse path is discharged by a guard idiom", floor=30)
    rr = rep.rule("C.render", "every partial operation and format specification in __str__/__repr__ of classes reachable from Chart is "
                              "discharged", floor=3)
    classes = reachable_classes(ctx, "chartparse.chart.Chart")
    render = set()
    for cq, c in classes.items():
        for sp in ("__str__", "__repr__"):
            m = c.find_method(sp)
            if m is not None:
                render.add(m.qual)
    render_reach = cg.reachable(sorted(render))
    idioms = {}

    def only_inlined(q, scope):
        """A single-expression wrapper whose every call site in scope was inlined is analysed at those sites (with their facts)."""
        edges = [e for e in cg.callers_of(q) if e.caller in scope and e.rec is not None]
        return bool(edges) and all(e.rec.inlined for e in edges) and not any(e.kind == "cha" for e in cg.callers_of(q) if e.caller in scope)

    for scope, rule in ((reach, ro), (render_reach - reach, rr)):
        for q in sorted(scope):
            g = cg.funcs.get(q)
            if g is None:
                continue
            if only_inlined(q, scope) or (g.name in ("__getitem__", "__len__") and g.cls is not None and not any(
                    e.kind != "cha" and e.rec is not None and not e.rec.inlined for e in cg.callers_of(q) if e.caller in scope)):
                continue
            s = cg.summary(g)
            for ob in Collector(ctx, g, s).collect():
                how = D.discharge(ob)
                if ob.kind in ("NOTNONE", "ORDER", "ARITH") and how is not None and how.startswith("D15") and "non-None" in how and ob.kind != "NOTNONE":
                    # trivial: operands that can never be None are not listed as instances
                    idioms[how] = idioms.get(how, 0) + 1
                    continue
                if ob.kind == "NOTNONE" and how is not None and "type" in how and not D.maybe_none(ob.term, ob) and \
                        not any(True for _ in [0] if D.nonnone_fact(ob.term, __import__("sa.rules.partial", fromlist=["flatten_facts"]).flatten_facts(ob.facts))):
                    idioms[how] = idioms.get(how, 0) + 1
                    continue
                if ob.kind == "ATTR" and how is not None:
                    idioms[how] = idioms.get(how, 0) + 1  # counted, not listed one by one
                    continue
                rule.inst(f"{q}: {ob.kind} {show(ob.term)[:70]} -- {how or 'UNDISCHARGED'}")
                if how is None:
                    fail(rule, ctx, g, ob.node, f"{ob.kind} obligation not discharged: `{show(ob.term)[:160]}` {('(' + ob.detail + ') ') if ob.detail else ''}"
                                                f"in {q} is not protected by any verified guard idiom (facts here: "
                                                f"{'; '.join((show(a)[:60] if p else 'not ' + show(a)[:60]) for a, p in ob.facts if a[0] not in ('inloop', 'compvar'))[:300] or 'none'}): "
                                                f"it can raise an internal error for some text / chart")
                else:
                    idioms[how] = idioms.get(how, 0) + 1
            from .partial import check_signatures
            nsig = check_signatures(ctx, rule, g, s)
            idioms["D18 call of a package function / constructor binds (arity, keywords, required parameters)"] = \
                idioms.get("D18 call of a package function / constructor binds (arity, keywords, required parameters)", 0) + nsig
    rep.extra["discharge_idioms_used"] = idioms
