"""C15 -- untrustworthy tempo data is rejected loudly, never turned into times."""
from __future__ import annotations

from ..match import decision_table
from ..terms import show
from .lib import (cond_str, exc_is, exc_name, fail, fcmp_atom, icmp_atom, live_exits, truthy_atom, unknown_atoms)
from .timing import BPMEVENTS, Timing
from . import escape

LEVEL = "other"


def validators(ctx, rep, T):
    """__post_init__ guards of BPMEvents and SyncTrack: rejected sets are exactly the untrusted sets."""
    r = rep.rule("G.post_init", "constructor validators reject exactly: resolution <= 0, no tempo events, first tempo tick "
                                "!= 0, no time signatures, first signature tick != 0 -- with ValueError, before the object "
                                "exists", floor=5)
    specs = [
        (BPMEVENTS, [("resolution<=0", fcmp_atom("<=", ("attr", ("self", BPMEVENTS), "resolution"), ("const", 0)), None),
                     ("events empty", None, ("attr", ("self", BPMEVENTS), "events")),
                     ("events[0].tick!=0", "first", ("attr", ("self", BPMEVENTS), "events"))]),
        ("chartparse.sync.SyncTrack", [("time signatures empty", None, ("attr", ("self", "chartparse.sync.SyncTrack"), "time_signature_events")),
                                       ("ts[0].tick!=0", "first", ("attr", ("self", "chartparse.sync.SyncTrack"), "time_signature_events"))]),
    ]
    for cq, guards in specs:
        c = ctx.cls(cq)
        if c.dataclass_args is None or c.dataclass_args.get("init", True) is False:
            fail(r, ctx, c, c.node, f"{c.name} is no longer a dataclass with a generated __init__: __post_init__ validation "
                                    f"is not guaranteed to run on construction")
        f = c.find_method("__post_init__")
        if f is None:
            fail(r, ctx, c, c.node, f"{c.name} has no __post_init__ validator")
            continue
        s = ctx.summary(f)
        atoms = []
        for name, m, seq in guards:
            if m is None:
                inner = truthy_atom(seq)
                atoms.append((name, (lambda inner: (lambda t: (None if inner(t) is None else (not inner(t)))))(inner)))
            elif m == "first":
                first_tick = ("attr", ("sub", seq, ("const", 0)), "tick")

                def mk(first_tick):
                    def mm(t):
                        # first.tick != 0
                        if t[0] == "cmp" and t[1] == "==" and {t[2], t[3]} == {("const", 0), first_tick}:
                            return False
                        if t[0] == "not":
                            x = mm(t[1])
                            return None if x is None else (not x)
                        return None
                    return mm
                atoms.append((name, mk(first_tick)))
            else:
                atoms.append((name, m))
        rows, unknown = decision_table(live_exits(s), atoms)
        unknown_atoms(r, ctx, f, s, unknown, "; ".join(n for n, _, _ in guards))
        if unknown:
            continue
        for name, _, _ in guards:
            r.inst(f"{f.qual}: guard `{name}`")
        names = [n for n, _, _ in guards]
        for val, hit in rows:
            # emptiness makes the first-element test meaningless: skip inconsistent rows (empty and first!=0)
            skip = False
            for i, n in enumerate(names):
                if n.endswith("empty") and val[n]:
                    for n2 in names[i + 1:]:
                        if val[n2]:
                            skip = True
            if skip:
                continue
            bad = any(val.values())
            if len(hit) != 1:
                fail(r, ctx, f, f.node, f"{c.name} validator: {len(hit)} outcomes for {val} (expected exactly one)")
                continue
            e = hit[0]
            if bad and not (e.kind == "raise" and exc_is(ctx, exc_name(e.value), "builtins.ValueError")):
                fail(r, ctx, f, e.node, f"{c.name} must reject {[k for k, v in val.items() if v]} with ValueError; found "
                                        f"{e.kind} {show(e.value)[:60]}")
            if not bad and e.kind != "ret":
                fail(r, ctx, f, e.node, f"{c.name} validator rejects trustworthy data ({val}) with {exc_name(e.value)}")
        for e in s.effects:
            fail(r, ctx, f, e.node, f"validator has a side effect ({e.kind})")


def run(ctx, rep):
    rep.explanation = (
        "Static proof obligations for 'untrustworthy tempo data is rejected with ValueError': each of the validators is "
        "turned into a decision table over its own comparison atoms and compared with the set of untrusted values "
        "(set equality, not text); the guards must dominate every result; the validators must be reached from "
        "Chart.from_file on every path and their ValueError must escape (no enclosing handler); times are produced only "
        "through the guarded seconds formula.")
    rep.trusted += ["dataclasses call __post_init__ from the generated __init__", "total order on int/float (no NaN tempo: "
                    "bpm is int/1000)"]
    T = Timing(ctx)
    validators(ctx, rep, T)
    r = rep.rule("G.sec", "seconds formula rejects ticks < 0, bpm <= 0, resolution <= 0 with ValueError on every path "
                          "before a value is returned, and rejects nothing else", floor=8)
    T.check_sec_guards(r)
    rg = rep.rule("G.index", "index function rejects a hint beyond the last event and a tick before events[hint] "
                             "(so tick -1 and any tick before the first tempo event) with ValueError", floor=2)
    rs = rep.rule("G.index.scan", "the scan after the guards is the verified first-hit schema (so a rejected tick cannot be "
                                  "answered by another path)", floor=1)
    T.check_index(rg, rs)
    ro = rep.rule("G.order", "tempo builder rejects data.tick <= prev.tick with ValueError (strictly increasing ticks)",
                  floor=4)
    ra = rep.rule("G.order.ctor", "tempo builder constructs the event on every accepted path", floor=2)
    T.check_accumulate(ra, ro)
    rq = rep.rule("F.only-through-sec", "every float->timedelta conversion on the parse path takes its seconds from the "
                                        "guarded formula; the query goes through the guarded index function", floor=2)
    T.check_Q(rq)
    escape.check_float_to_time(ctx, rq, T)
    rw = rep.rule("R.data", "the tempo builder receives exactly the tempo data the dispatcher collected from the section's own "
                            "lines, in file order (a sort or de-duplication before the order guard hides reordered or duplicated "
                            "tempo lines); every kind is folded datum by datum with its predecessor", floor=4)
    from .wiring import check_all_sections, check_from_file_wiring
    check_all_sections(ctx, rw, strict="bpm")
    check_from_file_wiring(ctx, rw)
    T.check_folds(rw)
    rr = rep.rule("R.reach", "each validator is reached from Chart.from_file on every path of its caller and its ValueError "
                             "escapes: no handler for ValueError/Exception/bare encloses any call on the chain", floor=5)
    escape.check_reach_and_escape(ctx, rr, T)
    rbv = rep.rule("R.tempo-value", "the tempo the zero/positive guard sees is the written one: bpm = int(raw)/1000 (no clamp, floor or "
                                    "default between the line and the guard)", floor=1)
    from .decode import check_bpm_value, check_from_chart_line
    from .lang import check_line_recogniser
    check_bpm_value(ctx, rbv, T)
    rtl = rep.rule("R.tempo-lines", "every canonical tempo line '<tick> = B <n>' (n from 0, any digit count) reaches the builder: a dropped "
                                    "tempo line is a zero tempo, a repeated or backward tick that is never seen by its guard", floor=4)
    BQ = "chartparse.sync.BPMEvent.ParsedData"
    info = check_from_chart_line(ctx, rtl, BQ)
    if info is not None:
        check_line_recogniser(ctx, BQ, info, rtl, rtl, rtl, only={"canon", "capture", "groups", "upper"})
    rres = rep.rule("R.resolution-field", "the resolution the validators see is the integer written on the [Song] Resolution line: the "
                                          "field's converter is int and its recogniser captures digits only (no default, clamp or "
                                          "fallback between the file and the positive-resolution guard)", floor=3)
    check_resolution_field(ctx, rres)
    rch = rep.rule("chain", "file -> lines (read().splitlines(), utf-8-sig) -> framing -> section route -> dispatcher -> builders: every link "
                            "hands the lines on unchanged", floor=10)
    from .chain import check_chain
    check_chain(ctx, rch, "sync", strict="bpm")


def check_resolution_field(ctx, r):
    from ..constfold import Callable_, FoldedObject, NotConstant, Regex
    from .. import rx
    from .lang import P
    from .lib import fail
    mod = ctx.prog.modules.get("chartparse.metadata")
    f = ctx.func("chartparse.metadata.Metadata.from_chart_lines")
    table = None
    for name in (mod.assigns if mod is not None else ()):
        t = ctx.ev.global_value(mod, name)
        if t[0] == "dict" and len(t[1]) >= 20:
            table = t
    if table is None:
        fail(r, ctx, f, f.node, "cannot find the module-level field-spec table")
        return
    try:
        specs = ctx.fold.fold(table)
    except NotConstant as e:
        fail(r, ctx, f, f.node, f"the field-spec table does not fold to constants: {e}")
        return
    spec = specs.get("resolution")
    r.inst("field table: entry 'resolution'")
    if not isinstance(spec, FoldedObject):
        fail(r, ctx, f, f.node, "the field-spec table has no foldable 'resolution' entry")
        return
    try:
        fn = ctx.fold.getattr(spec, "processing_fn")
        prog = ctx.fold.getattr(spec, "regex_prog")
    except Exception as e:
        fail(r, ctx, f, f.node, f"the 'resolution' entry has no foldable converter / recogniser: {e}")
        return
    r.inst(f"resolution converter: {fn!r}")
    if not (isinstance(fn, Callable_) and fn.term[:2] == ("builtin", "int")):
        fail(r, ctx, f, f.node, f"the Resolution converter must be int (the written integer reaches the positive-resolution guard unchanged); "
                                f"found {fn!r}: a fallback, clamp or default here hides `Resolution = 0`")
    if not isinstance(prog, Regex):
        fail(r, ctx, f, f.node, f"the Resolution recogniser does not fold to a compiled pattern: {prog!r}")
        return
    r.inst(f"resolution recogniser {prog.pattern!r}: group 1 is digits")
    try:
        w = rx.group_contents_included(P(prog.pattern, "match"), 1, P(r"\d+", "fullmatch"))
    except Exception as e:
        fail(r, ctx, f, f.node, f"cannot decide the Resolution recogniser's capture: {e}")
        return
    if w is not None:
        fail(r, ctx, f, f.node, f"on the line {w[0]!r} the Resolution recogniser captures {w[1]!r}, which is not a digit string", witness=w[0])
    # the written value reaches the constructor (and so the positive-resolution guard) on every path: stored unconditionally under its
    # own key from the first matching line, MissingRequiredField when absent (C10's per-field flow, for this one field)
    from .C10 import check_field_flow
    gname = next((n for n in mod.assigns if ctx.ev.global_value(mod, n) is table), None)
    r.inst("resolution: kwargs['resolution'] = int(first matching line's digits), unconditionally; absent -> MissingRequiredField")
    check_field_flow(ctx, r, r, f, ctx.summary(f), specs, ("gvar", f"chartparse.metadata.{gname}"), only={"resolution"})
