"""C20 -- every module is importable first; import order does not matter."""
import os

from .. import importsim
from ..report import AnalysisError

LEVEL = "model_checking"


def run(ctx, rep):
    rep.explanation = (
        "Exhaustive exploration of an abstract import machine (DESIGN 3.J / B.2): module state ABSENT | EXEC(pc, bound names) | "
        "DONE; `import a.b` only needs a.b started, `from a.b import n` needs n bound (or a.b DONE, or n a submodule), an "
        "import-time read pkg.mod.attr needs pkg.mod DONE, import-time global reads need the name bound; TYPE_CHECKING blocks "
        "skipped, function-local imports deferred and replayed from every reachable state.  quick = every first-import followed by "
        "all others + deferred imports; thorough = all import sequences (state = set of DONE modules).  Syntactic side conditions "
        "(no guarded/conditional imports, no sys.modules/importlib, no rebinding of imported names, no import *) make the final "
        "bindings order-independent.")
    rep.trusted += ["CPython >= 3.7 import semantics as modelled (validated against fresh interpreters on 48 variants / 963 sequences "
                    "in selftest/importsim_validate.py)"]
    pkg_dir = os.path.join(ctx.root, "chartparse")
    rpt = importsim.analyse(pkg_dir, "chartparse", tier=rep.tier)
    if len(rpt.modules) < 12:
        raise AnalysisError(f"only {len(rpt.modules)} modules seen by the import machine")
    r1 = rep.rule("first-import", "each module can be imported as the very first chartparse import", floor=12)
    r2 = rep.rule("orders", "every explored import sequence and every deferred import succeeds", floor=1)
    r3 = rep.rule("bindings", "side conditions for order-independent bindings; same public names in every order", floor=1)
    for m in rpt.modules:
        v = rpt.first_import_verdicts.get(m, "ok")
        r1.inst(f"import {m} first: {v}")
    r2.inst(f"{rpt.states} states, {rpt.transitions} transitions, {rpt.statements} top-level statements executed, "
            f"{rpt.import_time_reads} import-time reads checked, {len(rpt.deferred)} deferred imports ({rpt.deferred_replayed} replays)")
    r3.inst(f"{len(rpt.modules)} modules scanned for guarded imports / sys.modules / importlib / rebinding / import *")

    def loc(f):
        mod, line, text = f.chain[-1] if f.chain else (rpt.modules[0], 0, "")
        path = os.path.join(pkg_dir, mod.split(".")[-1] + ".py") if mod != "chartparse" else os.path.join(pkg_dir, "__init__.py")
        return mod, path, line, text

    for f in rpt.failures:
        mod, path, line, text = loc(f)
        rule = r1 if len(f.first) == 1 else r2
        if f.kind == "order-dependent bindings":
            rule = r3
        rule.fail(mod, f"{f.kind}: client imports {list(f.first)} -> " + " -> ".join(f"{m}:{ln} `{t}`" for m, ln, t in f.chain)
                  + f" :: {f.detail}", file=path, line=line, stmt=f"{f.kind}|{text}", witness=list(f.first))
    for f in rpt.side_conditions:
        mod, path, line, text = loc(f)
        r3.fail(mod, f"{f.kind}: {f.detail} :: " + " -> ".join(f"{m}:{ln} `{t}`" for m, ln, t in f.chain),
                file=path, line=line, stmt=f"side|{text}")
    rep.extra.update({
        "states": rpt.states, "transitions": rpt.transitions, "traces_validated_against_impl": 0,
        "samples": [" ; ".join(s) if isinstance(s, list) else str(s) for s in rpt.sequences_sampled[:12]] or ["(none)"],
        "deferred_imports": [list(d) for d in rpt.deferred],
        "exhaustive": rep.tier == "thorough",
    })
