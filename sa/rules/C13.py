"""C13 -- track selection restricts the parse and tracks do not interfere."""
from .chartrules import ChartRules
from .dispatch import check_dispatcher, check_track_sections
from .effects_lib import check_pure_reachable

LEVEL = "other"


def run(ctx, rep):
    rep.explanation = (
        "The header table is the format's 40 names, each mapped to its own (instrument, difficulty) pair.  In the routing loop: decision over (header known, selection is None, pair in selection) shows a section is built and stored "
        "iff not (selection given and pair not in it) -- an empty selection is a selection; the selection parameter flows nowhere "
        "else (taint) and is tested on the pairs as given; a skipped section's body is never consumed (bodies are lazy slices); the "
        "built track depends only on its table pair, its own body and the shared tempo map, is stored under that pair, and nothing is "
        "carried from one section to the next; framing (schema S5) hands each header exactly its own lines, header tests applying "
        "only while no section is open; the track builder writes no state that outlives the call (effect analysis).")
    C = ChartRules(ctx)
    r0 = rep.rule("routing", "builder arguments, store key, no cross-section state", floor=1)
    r1 = rep.rule("selection", "skip <=> selection given and pair not in it; taint; skipped bodies untouched", floor=6)
    parts = C.routing(r0)
    if parts is not None:
        C.check_routing(r0, parts, r1)
        rt = rep.rule("table", "the header table has exactly the format's 40 '<Difficulty><Instrument>' names, each mapped to its own "
                               "pair ('the tracks that exist in the file' are the sections with these names)", floor=2)
        C.check_table(rt, parts)
    r2 = rep.rule("framing", "each header gets exactly the lines between its braces (S5)", floor=8)
    C.check_framing(r2)
    r3 = rep.rule("own-lines", "the track parses its own lines only", floor=1)
    check_track_sections(ctx, r3, "instrument")
    check_dispatcher(ctx, r3)
    rss = rep.rule("safe-skip", "no line of a section can abort the parse through an internal error: trying a kind on any line only "
                                "succeeds or raises RegexNotMatchError (otherwise one section's content decides whether another's track exists)",
                   floor=20)
    from .partial import check_partial_scope
    from .dispatch import PARSE
    check_partial_scope(ctx, rss, [PARSE])
    r4 = rep.rule("pure-builder", "nothing reachable from InstrumentTrack.from_chart_lines writes state that outlives the call", floor=10)
    check_pure_reachable(ctx, r4, ["chartparse.instrument.InstrumentTrack.from_chart_lines"])
    r6 = rep.rule("ctor", "each Chart owns the map from_file filled for it (no shared default)", floor=1)
    C.check_chart_init(r6)
    r5 = rep.rule("passthrough", "from_filepath passes the selection unchanged", floor=2)
    C.check_reading(r5)
    rd = rep.rule("defaults", "an omitted selection is None (= all tracks) in both entry points", floor=2)
    from .lib import check_param_defaults
    check_param_defaults(ctx, rd, "chartparse.chart.Chart.from_file", {"want_tracks": None})
    check_param_defaults(ctx, rd, "chartparse.chart.Chart.from_filepath", {"want_tracks": None})
