"""wiring -- end-to-end wiring premises: resolution source, third builder argument per kind, sync-track data."""
from __future__ import annotations

from ..match import ANYP, H, match, strip
from ..terms import show
from .dispatch import BUILD, check_track_sections
from .lib import fail, live_exits

FROM_FILE = "chartparse.chart.Chart.from_file"


def check_all_sections(ctx, r, strict=True):
    """All three track kinds: own lines -> dispatcher -> per-kind builder; third builder argument = tempo map /
    resolution.  Returns {which: info}."""
    out = {}
    for which in ("instrument", "sync", "global"):
        info = check_track_sections(ctx, r, which, strict=strict)
        out[which] = info
        c = ctx.cls({"instrument": "chartparse.instrument.InstrumentTrack", "sync": "chartparse.sync.SyncTrack",
                     "global": "chartparse.globalevents.GlobalEventsTrack"}[which])
        f = c.find_method("from_chart_lines")
        if f is None:
            continue
        fps = f.params()
        bpm_param = None
        res_param = None
        for p in fps:
            t = ctx.ev.types.param_type(f, p)
            if t == ("inst", "chartparse.sync.BPMEvents"):
                bpm_param = ("param", p)
            if t == ("ext", "builtins.int"):
                res_param = ("param", p)
        bpm_built = None
        for field, (kind, third, val) in info.get("fields", {}).items():
            if kind.endswith(".BPMEvent"):
                bpm_built = val
        for field, (kind, third, val) in info.get("fields", {}).items():
            short = kind.rsplit(".", 1)[-1]
            if kind.endswith(".BPMEvent"):
                if res_param is None or strip(third) != res_param:
                    fail(r, ctx, f, f.node, f"the tempo builder must receive the resolution handed to {c.name}.from_chart_lines; "
                                            f"receives {show(third)[:100]}")
            elif kind.endswith(".AnchorEvent"):
                pass
            else:
                want = bpm_param if bpm_param is not None else bpm_built
                if want is None or strip(third) != strip(want):
                    fail(r, ctx, f, f.node, f"the {short} builder must receive the chart's one tempo map; receives {show(third)[:160]}")
    return out


def check_from_file_wiring(ctx, r):
    """P7 + C06 P5: resolution = Metadata(...).resolution; tempo map = SyncTrack(...).bpm_events everywhere."""
    f = ctx.func(FROM_FILE)
    s = ctx.summary(f)
    r.inst(f"{f.qual}: resolution and tempo-map sources")
    rets = s.rets()
    if len(rets) != 1:
        fail(r, ctx, f, f.node, f"Chart.from_file must have one successful result; found {len(rets)}")
        return None
    v = rets[0].value
    if not (v[0] == "call" and v[1][0] in ("clsparam", "class")):
        fail(r, ctx, f, rets[0].node, f"result is not a Chart construction: {show(v)[:120]}")
        return None
    kw = dict(v[3])
    md = kw.get("metadata")
    st = kw.get("sync_track")
    ge = kw.get("global_events_track")
    MD = ("call", ("func", "chartparse.metadata.Metadata.from_chart_lines"), (), ANYP)
    ST = ("call", ("func", "chartparse.sync.SyncTrack.from_chart_lines"), (), ANYP)
    GE = ("call", ("func", "chartparse.globalevents.GlobalEventsTrack.from_chart_lines"), (), ANYP)
    if match(MD, md) is None or match(ST, st) is None or match(GE, ge) is None:
        fail(r, ctx, f, rets[0].node, "metadata / sync_track / global_events_track must be the results of their own classes' "
                                      f"from_chart_lines; found {show(md)[:80]}, {show(st)[:80]}, {show(ge)[:80]}")
        return None
    sk = dict(st[3])
    res = [vv for k, vv in sk.items() if vv == ("attr", md, "resolution")]
    if len(res) != 1:
        fail(r, ctx, f, rets[0].node, "the sync track must be built with the resolution decoded from this chart's metadata "
                                      f"(metadata.resolution); found arguments {[show(x)[:80] for x in sk.values()]}")
    gk = dict(ge[3])
    if ("attr", st, "bpm_events") not in [strip(x) for x in gk.values()] and ("attr", st, "bpm_events") not in list(gk.values()):
        fail(r, ctx, f, rets[0].node, "global events must be timed with this chart's sync_track.bpm_events; found "
             + str([show(x)[:80] for x in gk.values()]))
    return {"md": md, "st": st, "ge": ge, "kw": kw, "ret": rets[0]}
