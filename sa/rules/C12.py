"""C12 -- time is a non-decreasing function of tick across the whole chart."""
from .timing import Timing
from .notes import Notes
from . import escape
from .wiring import check_all_sections, check_from_file_wiring

LEVEL = "other"


def run(ctx, rep):
    rep.explanation = (
        "Monotonicity lemma (DESIGN C12): inside a segment Q0(t) = g.timestamp + us(sec(t - g.tick, b, r)); every float step of sec is "
        "shown monotone non-decreasing in ticks under the sign facts established by its dominating guards (monotonicity abstract "
        "domain); the accumulation of the next tempo event is the *same term* as the query evaluated at the whole segment "
        "(sibling agreement, including where the float->timedelta conversion sits), so segment ends agree; the result depends on the "
        "tick only (C11), so equal ticks agree across tracks; strict tempo order is guarded; end >= start because longest >= 0.")
    rep.trusted += ["IEEE operations with correct rounding and timedelta(seconds=) are monotone"]
    T = Timing(ctx)
    r1 = rep.rule("monotone", "each step of the seconds formula is monotone in ticks under bpm, resolution > 0", floor=1)
    T.check_sec_monotone(r1)
    rg = rep.rule("sign-guards", "ticks >= 0, bpm > 0, resolution > 0 dominate the formula", floor=8)
    T.check_sec_guards(rg)
    r2 = rep.rule("siblings", "accumulate and query are the same term: base + timedelta(seconds=sec(|dtick|, tempo of the earlier "
                              "event, resolution))", floor=3)
    T.check_accumulate(r2)
    T.check_Q(r2)
    r3 = rep.rule("conversion", "one rounding mode on both siblings: float -> time only via timedelta(seconds=sec(...))", floor=3)
    escape.check_float_to_time(ctx, r3, T)
    ro = rep.rule("order", "data.tick <= prev.tick -> ValueError dominates the accumulation", floor=4)
    ra = rep.rule("order.ctor", "construction on accepted paths", floor=2)
    T.check_accumulate(ra, ro)
    ri = rep.rule("index", "the governing event is at or before the tick (offset >= 0) and the result depends on the tick only", floor=3)
    T.check_index(ri, ri)
    T.check_noopt(ri)
    r5 = rep.rule("stamps", "all events of all tracks take their time from the one query at their own tick; note end = Q0(tick + longest)", floor=5)
    T.check_stamp_sites(r5)
    N = Notes(ctx, T)
    N.check_time_wiring(r5, r5)
    r6 = rep.rule("one-map", "every track is built with the same tempo map object and the metadata's resolution", floor=4)
    check_from_file_wiring(ctx, r6)
    check_all_sections(ctx, r6, strict=False)
    T.check_folds(r6)
    r7 = rep.rule("note-cursor", "cursor threading cannot misplace a later note", floor=1)
    N.check_grouping(r7, r7)
    r8 = rep.rule("pure-query", "the public queries keep no state between calls (a memo keyed by tick alone would leak times "
                                "between charts)", floor=2)
    from .effects_lib import check_no_effects
    check_no_effects(ctx, r8, [T.qf, ctx.func("chartparse.sync.BPMEvents.timestamp_at_tick_no_optimize_return")] +
                     ([T.idxf] if T.idxf else []) + ([T.secf] if T.secf else []))
    rrf = rep.rule("resolution-field", "the resolution every tick-to-time conversion and tick distance uses is the integer written on "
                                       "the [Song] Resolution line (converter int, digits-only capture)", floor=3)
    from .C15 import check_resolution_field
    check_resolution_field(ctx, rrf)
    rch = rep.rule("chain", "file -> lines (read().splitlines(), utf-8-sig) -> framing -> section route -> dispatcher -> builders: every link "
                            "hands the lines on unchanged", floor=10)
    from .chain import check_chain
    check_chain(ctx, rch, "all", strict=False, recognisers=("chartparse.instrument.NoteEvent.ParsedData",), only=("groups", "upper"))
    # (a note's end is never before its start only if a written length cannot be negative: the N recogniser's length group is digits)
