"""escape -- reachability of validators from the parse entry points, exception escape (no swallowing handler),
and the float->timestamp conversion discipline.  Shared by C01, C12, C15, C18."""
from __future__ import annotations

from typing import Any, Optional

from ..callgraph import CallGraph
from ..context import Ctx
from ..match import match
from ..report import AnalysisError, Rule
from ..terms import Summary, show, subterms
from .lib import cond_str, exc_bases, exc_is, exc_name, fail
from .timing import BPMEVENT, BPMEVENTS, TIMEDELTA, Timing

ENTRY = ["chartparse.chart.Chart.from_file", "chartparse.chart.Chart.from_filepath"]
_CG: dict = {}


def graph(ctx: Ctx) -> CallGraph:
    if id(ctx) not in _CG:
        _CG[id(ctx)] = CallGraph(ctx)
    return _CG[id(ctx)]


def parse_reachable(ctx: Ctx) -> set:
    cg = graph(ctx)
    for e in ENTRY:
        ctx.func(e)
    return cg.reachable(ENTRY)


def catches(ctx: Ctx, handler_classes: Any, raised: str) -> bool:
    """Does an except clause with these class terms catch an exception of class `raised`?"""
    if handler_classes is None:
        return True
    bases = exc_bases(ctx, raised)
    for h in handler_classes:
        if exc_name(h) in bases:
            return True
    return False


def check_float_to_time(ctx: Ctx, r: Rule, T: Timing) -> None:
    """P2: a float reaches a timestamp only through one timedelta(seconds=sec(...)); other timedelta
    constructions take exact integers or literals."""
    cg = graph(ctx)
    secq = T.secf.qual if T.secf is not None else None
    n = 0
    seen = set()
    for q in sorted(cg.funcs):
        f = cg.funcs[q]
        callers_ = cg.callers_of(q)
        if f.name.startswith("_") and not f.name.startswith("__") and callers_ and \
                all(e.rec is not None and e.rec.inlined for e in callers_):
            continue  # a private helper inlined at every call site: its conversions are examined there, with their actual arguments
        s = cg.summary(f)
        for c in s.calls:
            if c.fn != TIMEDELTA:
                continue
            key = (q, id(c.node), show(c.result)[:200])
            if key in seen:
                continue
            seen.add(key)
            n += 1
            r.inst(f"{q}: {show(c.result)[:120]}")
            args = list(c.args)
            kw = dict(c.kwargs)
            for name, v in [(f"arg{i}", a) for i, a in enumerate(args)] + list(kw.items()):
                has_sec = any(t[0] == "call" and t[1] == ("func", secq) for t in subterms(v))
                if name == "seconds":
                    ok = (v == ("const", 0)) or (v[0] == "call" and v[1] == ("func", secq)) or \
                         (q == "chartparse.time.add" and v[0] == "param")
                    if not ok:
                        fail(r, ctx, f, c.node, "timedelta(seconds=...) must take the result of the guarded seconds formula "
                                                "directly (one microsecond rounding per segment); found seconds="
                             + show(v)[:200])
                elif has_sec:
                    fail(r, ctx, f, c.node, f"the seconds formula reaches a timestamp through {name}={show(v)[:160]} instead of "
                                            f"timedelta(seconds=...): truncation or a second rounding breaks the bound and the "
                                            f"agreement between accumulation and query")
                elif name in ("microseconds", "arg2"):
                    t = ctx.ev.types.type_of(v, None)
                    if not (v[0] == "const" and isinstance(v[1], int)) and t != ("ext", "builtins.int"):
                        # int-typed by annotation (AnchorEvent.ParsedData.microseconds: int)
                        bt = _static_type(ctx, f, v)
                        if bt != ("ext", "builtins.int"):
                            fail(r, ctx, f, c.node, f"timedelta({name}=...) takes a non-integer value {show(v)[:120]}")
                elif not (v[0] == "const"):
                    fail(r, ctx, f, c.node, f"timedelta({name}={show(v)[:120]}) is not one of the verified time constructions")
    if n == 0:
        fail(r, ctx, T.qf, T.qf.node, "no timedelta construction found on the parse path: the float->time conversion sites "
                                      "vanished")


def _static_type(ctx: Ctx, f, v):
    """Static type of v; for an attribute read whose receiver type is not known in this context, the common
    annotated type of every package field of that name."""
    from ..terms import _FuncEval

    fe = _FuncEval(ctx.ev, f, {}, None, 0)
    t = ctx.ev.types.type_of(v, fe)
    if t is None and v[0] == "attr":
        ts = set()
        for c in ctx.prog.classes.values():
            if v[2] in c.body_assigns and c.body_assigns[v[2]][1] is not None:
                ts.add(ctx.ev.types.field_type(c, v[2]))
        if len(ts) == 1:
            return ts.pop()
    return t


def must_call(ctx: Ctx, r: Rule, caller, s: Summary, pred, desc: str) -> Optional[Any]:
    """A call satisfying pred exists in s on every non-raising path (its path condition only contains literals
    whose complement leads to raise exits, plus loop membership)."""
    cands = [c for c in s.calls if pred(c)]
    if not cands:
        fail(r, ctx, caller, caller.node, f"{caller.qual} no longer calls {desc}: the validator is not reached from the parse")
        return None
    best = None
    for c in cands:
        bad = []
        for a, p in c.cond:
            if a[0] in ("inloop",):
                continue
            # complement literal must not lead to a normal return
            for e in s.exits:
                if e.kind == "ret" and (a, not p) in e.cond:
                    bad.append((a, p))
                    break
        if not bad:
            return c
        best = (c, bad)
    c, bad = best
    fail(r, ctx, caller, c.node, f"{caller.qual} calls {desc} only when {cond_str(tuple(bad))[:200]}; on the other path the "
                                 f"function returns normally without the validation")
    return c


def validators(ctx: Ctx, T: Timing) -> dict:
    out = {}
    for cq in (BPMEVENTS, "chartparse.sync.SyncTrack"):
        f = ctx.cls(cq).find_method("__post_init__")
        if f is not None:
            out[f.qual] = f
    out[f"{BPMEVENT}.from_parsed_data"] = ctx.func(f"{BPMEVENT}.from_parsed_data")
    if T.secf is not None:
        out[T.secf.qual] = T.secf
    if T.idxf is not None:
        out[T.idxf.qual] = T.idxf
    return out


def check_reach_and_escape(ctx: Ctx, r: Rule, T: Timing) -> None:
    cg = graph(ctx)
    reach = parse_reachable(ctx)
    vals = validators(ctx, T)
    for q, f in vals.items():
        r.inst(f"{q}: reachable from Chart.from_file")
        if q not in reach:
            fail(r, ctx, f, f.node, f"validator {q} is not reachable from Chart.from_file in the call graph: a corrupted chart "
                                    f"would no longer be rejected")
    # must-call chain
    ff = ctx.func(ENTRY[0])
    fs = ctx.summary(ff)
    sync_fcl = "chartparse.sync.SyncTrack.from_chart_lines"
    must_call(ctx, r, ff, fs, lambda c: c.fn == ("func", sync_fcl), "SyncTrack.from_chart_lines")
    r.inst("Chart.from_file -> SyncTrack.from_chart_lines on every path")
    sf = ctx.func(sync_fcl)
    ss = ctx.summary(sf)
    bq = "chartparse.track.build_events_from_data"
    must_call(ctx, r, sf, ss, lambda c: c.fn == ("func", bq) and ("class", BPMEVENT) in [v for _, v in c.kwargs],
              "build_events_from_data(BPMEvent, ...)")
    r.inst("SyncTrack.from_chart_lines -> build_events_from_data(BPMEvent) on every path")
    must_call(ctx, r, sf, ss, lambda c: c.fn[0] in ("clsparam", "class") and c.fn[1] == "chartparse.sync.SyncTrack",
              "the SyncTrack constructor (runs __post_init__)")
    r.inst("SyncTrack.from_chart_lines -> SyncTrack(...) on every path")
    # ctor sites of BPMEvents / SyncTrack on the parse path use the validated constructor
    for q in sorted(reach):
        f = cg.funcs.get(q)
        if f is None:
            continue
        s = cg.summary(f)
        for c in s.calls:
            if c.fn[0] in ("meth",) and c.fn[1] in ("__new__", "__setattr__") and c.args and c.args[0][0] in ("class", "builtin"):
                fail(r, ctx, f, c.node, f"object construction bypassing __init__/__post_init__ ({show(c.result)[:100]})")
    # escape: no handler for ValueError on any chain to a validator
    targets = set(vals)
    n_try = 0
    for q in sorted(reach):
        f = cg.funcs.get(q)
        if f is None:
            continue
        s = cg.summary(f)
        for c in s.calls:
            for tid, handlers in c.trys:
                n_try += 1
                for h in handlers:
                    if catches(ctx, h, "builtins.ValueError"):
                        # does the call reach a validator?
                        callee_quals = [e.callee for e in cg.edges.get(q, []) if e.rec is c]
                        if any(cg.reachable([cq]) & targets for cq in callee_quals):
                            fail(r, ctx, f, c.node,
                                 f"a handler for {('bare except' if h is None else '/'.join(exc_name(x) for x in h))} encloses "
                                 f"a call ({show(c.fn)[:80]}) that reaches a tempo validator: its ValueError would be swallowed "
                                 f"instead of escaping Chart.from_file")
        for e in s.exits:
            if e.kind == "raise" and e.handled is not None and q in targets:
                ti = s.trys.get(e.handled)
                if ti is not None:
                    for h in ti.handlers:
                        if catches(ctx, h, exc_name(e.value)):
                            fail(r, ctx, f, e.node, f"validator raise is caught by an enclosing handler in {q}")
    r.inst(f"{n_try} call site(s) inside try bodies on the parse path examined for swallowing handlers")
