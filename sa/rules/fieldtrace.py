"""fieldtrace -- what Metadata.from_chart_lines does for ONE field name, independent of how the work is cut into helpers.

The setter/scan helpers of the metadata parser take the field name (and, after refactorings, the kwargs dict, the line list, a
`required` flag, a callback, the spec object ...) as parameters.  Instead of matching one particular decomposition, every
top-level call is *specialised*: the callee is evaluated with its parameters bound to the caller's argument terms (the field
name is a string constant, so spec-table look-ups, flags and callbacks fold), and calls found in that summary to further
functions of the metadata module -- nested functions, module-level helpers, methods of the spec classes, lambdas handed down as
callbacks, `exceptions.raise_` -- are specialised in turn.  What is collected per field is a flat list of facts in the
caller's vocabulary:

    store   kwargs-term[key] = value   (with path condition and enclosing try/handlers)
    raise   exception term             (with path condition and enclosing trys)
    effect  anything else that writes
    opaque  a call of something that is not resolved (an unbound callable parameter, ...)

The per-field verdict (C10.scan / C10.agreement) is then stated on these facts.  Static: summaries are computed from the source
text by the provenance evaluator; nothing is executed."""
from __future__ import annotations

from dataclasses import dataclass, field as dfield
from typing import Any, Optional

from ..constfold import FoldedObject
from ..match import strip
from ..terms import show

META_MOD = "chartparse.metadata"
RAISE_HELPER = "chartparse.exceptions.raise_"


@dataclass
class Fact:
    kind: str  # 'store' | 'raise' | 'effect' | 'opaque' | 'loop'
    g: Any  # FuncInfo where it was found
    node: Any
    cond: tuple
    trys: tuple
    target: Any = None
    key: Any = None
    value: Any = None
    callrec: Any = None  # for stores: the CallRec producing the stored value, with its resolved callee
    detail: str = ""


@dataclass
class Trace:
    facts: list = dfield(default_factory=list)
    visited: list = dfield(default_factory=list)  # qualified names of the functions specialised
    problems: list = dfield(default_factory=list)  # (g, node, message)


def static_truth(atom: Any) -> Optional[bool]:
    """Truth of an atom made of constants / closures only (left unfolded by the evaluator), else None."""
    if not isinstance(atom, tuple) or not atom:
        return None
    if atom[0] == "const":
        return bool(atom[1])
    if atom[0] in ("closure", "func", "class", "builtin"):
        return True
    if atom[0] == "not":
        r = static_truth(atom[1])
        return None if r is None else (not r)
    if atom[0] == "cmp" and atom[1] in ("is", "is not", "==", "!="):
        a, b = atom[2], atom[3]
        ka = a[0] in ("closure", "func", "class", "builtin")
        kb = b[0] in ("closure", "func", "class", "builtin")
        if a[0] == "const" and b[0] == "const":
            if atom[1] in ("is", "is not") and not (a[1] is None or b[1] is None or isinstance(a[1], bool) or isinstance(b[1], bool)):
                return None
            eq = (a[1] is b[1]) if (a[1] is None or b[1] is None) else (a[1] == b[1] and type(a[1]) is type(b[1]))
            return eq if atom[1] in ("is", "==") else (not eq)
        if (ka and b == ("const", None)) or (kb and a == ("const", None)):
            return atom[1] in ("is not", "!=")
    return None


def prune(cond: tuple) -> Optional[tuple]:
    """Drop statically true literals; None when the conjunction is statically false (dead path)."""
    out = []
    for a, p in cond:
        t = static_truth(a)
        if t is None:
            out.append((a, p))
        elif t != p:
            return None
    return tuple(out)


class Tracer:
    def __init__(self, ctx, specs: dict, specs_term: Any, top_func, top_summary) -> None:
        self.ctx = ctx
        self.specs = specs
        self.SPECS = specs_term
        self.top = top_func
        self.tops = top_summary

    # ---- callee resolution -------------------------------------------------------------------------------------------------
    def resolve(self, fn: Any, args: tuple) -> Optional[tuple]:
        """-> (FuncInfo, closure env, leading bound args) for callees this analysis follows, else None."""
        ctx = self.ctx
        k = fn[0]
        if k == "func":
            g = ctx.prog.functions.get(fn[1])
            if g is None:
                return None
            if g.qual == RAISE_HELPER or g.module.name == META_MOD:
                env = None
                if g.parent is not None and g.parent.qual == self.top.qual:
                    env = self.tops.defs.get(g.name)
                return g, env, ()
            return None
        if k == "closure":
            g = ctx.prog.functions.get(fn[1]) or ctx.prog.lambdas.get(fn[1])
            if g is None or g.module.name != META_MOD:
                return None
            env = ctx.ev._closures.get(fn[2]) if len(fn) > 2 else None  # noqa: SLF001
            if env is None and getattr(g, "parent", None) is not None and g.parent.qual == self.top.qual:
                env = self.tops.defs.get(g.name)
            return g, env, ()
        if k == "meth" and args:
            recv = strip(args[0])
            if recv[0] == "sub" and recv[1] == self.SPECS and recv[2][0] == "const":
                sp = self.specs.get(recv[2][1])
                if isinstance(sp, FoldedObject):
                    c = ctx.prog.classes.get(sp.cls)
                    m = c.find_method(fn[1]) if c is not None else None
                    if m is not None and m.module.name == META_MOD:
                        return m, None, ()
        return None

    # ---- specialisation ----------------------------------------------------------------------------------------------------
    def walk(self, tr: Trace, g, args: dict, env, cond: tuple, trys: tuple, depth: int) -> None:
        if depth > 8:
            tr.problems.append((g, g.node, "helper chain deeper than 8 calls"))
            return
        try:
            gs = self.ctx.ev.evaluate(g, args, env, 0)
        except RecursionError:
            tr.problems.append((g, g.node, "recursive helper"))
            return
        if gs.unsupported:
            tr.problems.append((g, g.node, f"{g.qual} uses constructs outside the analysed subset: {gs.unsupported[:2]}"))
            return
        tr.visited.append(g.qual)
        store_values = {}
        for e in gs.effects:
            c = prune(cond + tuple(e.cond))
            if c is None:
                continue
            if e.kind == "store_sub":
                fct = Fact("store", g, e.node, c, trys + tuple(e.trys), target=e.target, key=e.key, value=e.value)
                tr.facts.append(fct)
                store_values[id(e.node)] = fct
            else:
                tr.facts.append(Fact("effect", g, e.node, c, trys + tuple(e.trys), target=e.target, key=e.key, value=e.value,
                                     detail=e.kind))
        for x in gs.exits:
            if x.kind != "raise":
                continue
            c = prune(cond + tuple(x.cond))
            if c is None:
                continue
            tr.facts.append(Fact("raise", g, x.node, c, trys, value=x.value, detail="in-loop" if x.loops else ""))
        for lid, l in gs.loops.items():
            tr.facts.append(Fact("loop", g, l.node, cond, trys, value=l.iter, detail=lid))
        stored_terms = [strip(f.value) for f in tr.facts if f.kind == "store" and f.g is g]
        for c_ in gs.calls:
            if c_.inlined:
                continue
            c = prune(cond + tuple(c_.cond))
            if c is None:
                continue
            r = self.resolve(c_.fn, c_.args)
            if r is None:
                if c_.fn[0] in ("param", "free", "local", "const", "attr", "sub", "ite", "call", "func", "closure", "boundcls"):
                    # (a package function outside the metadata module that this analysis does not follow counts as unresolved too)
                    tr.facts.append(Fact("opaque", g, c_.node, c, trys + tuple(c_.trys), value=c_.fn,
                                         detail=f"call of {show(c_.fn)[:80]}"))
                continue
            callee, cenv, _ = r
            if cenv is None and c_.fn[0] == "func":
                # a nested def handed down as a callback is recorded by its name once it is called: its defining environment is
                # the one carried by the closure value among this function's arguments
                for v_ in args.values():
                    if isinstance(v_, tuple) and len(v_) == 3 and v_[0] == "closure" and v_[1] == c_.fn[1]:
                        cenv = self.ctx.ev._closures.get(v_[2]) if hasattr(self.ctx.ev, "_closures") else None
                        if cenv is None:
                            from ..terms import _FuncEval
                            cenv = _FuncEval._closures.get(v_[2])
            # a call whose result is what a store stores is the *scan* of that store: examined by the rule, not followed here
            res = strip(c_.result) if getattr(c_, "result", None) is not None else None
            is_scan = res is not None and res in stored_terms
            bound = self.bind(callee, c_)
            if bound is None:
                tr.problems.append((g, c_.node, f"cannot bind the arguments of {callee.qual}"))
                continue
            if is_scan:
                for f in tr.facts:
                    if f.kind == "store" and f.g is g and strip(f.value) == res and f.callrec is None:
                        f.callrec = (callee, cenv, bound, c_)
                continue
            self.walk(tr, callee, bound, cenv, c, trys + tuple(c_.trys), depth + 1)

    def bind(self, callee, c_) -> Optional[dict]:
        params = callee.params()
        bound = {}
        pos = list(c_.args)
        if len(pos) > len(params):
            return None
        for p, a in zip(params, pos):
            bound[p] = a
        for k, v in c_.kwargs:
            if k in bound or k not in params:
                return None
            bound[k] = v
        return bound
