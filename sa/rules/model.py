"""model -- premises of the *resolved-program model* itself.

Every rule of every property reasons about "the function `f`", "the method `C.m`", "the constructor of dataclass `D`", "the
value of `x[k]` / `if x:` on a package object".  That is only the program Python runs if names mean what their definitions say.
Python lets a package change that behind the analysis's back: a second definition further down the file, an attribute of a class
rebound after the class statement, a decorator that substitutes the function, a `__getattr__`, a `__post_init__` that rewrites a
field, a new `__bool__` on an event class, a shadowed builtin.  These rules make the model's assumptions explicit and check them on
the current tree (whole package: a rebinding anywhere can change any name).  A violation means the rest of the argument is about a
different program: reported as unproven (finding), with the construct.

Included in every property's check by the driver (rule ids `model.*`)."""
from __future__ import annotations

import ast
import builtins as _builtins
from typing import Any, Optional

from ..context import Ctx
from ..report import Report

# decorators whose effect the evaluator models (resolved dotted names)
DECORATORS = {
    "dataclasses.dataclass", "typing.final", "typing.overload", "typing.runtime_checkable", "enum.unique", "staticmethod",
    "classmethod", "property", "functools.cached_property", "functools.lru_cache", "functools.cache", "abc.abstractmethod",
}
# special methods that change how names / attributes / instances resolve: none may be defined in the package
RESOLUTION_HOOKS = {
    "__getattr__", "__getattribute__", "__setattr__", "__delattr__", "__init_subclass__", "__class_getitem__", "__set_name__",
    "__get__", "__set__", "__delete__", "__new__", "__call__", "__instancecheck__", "__subclasscheck__", "__missing__", "_missing_",
    "_generate_next_value_", "__prepare__", "__mro_entries__", "__reduce__", "__reduce_ex__", "__copy__", "__deepcopy__",
    "__getstate__", "__setstate__", "__dir__", "__del__", "__enter__", "__exit__", "__index__", "__int__", "__float__",
    "__format__", "__bytes__", "__fspath__", "__match_args__",
}
# operator protocols the evaluator treats structurally; the classes that define them are an explicit table (confirmed by reading:
# each is modelled -- __getitem__/__len__ wrappers are inlined, __eq__ is the C19 value-equality mixin, the orderings of
# NoteTrackIndex are not used on the parse path, __str__/__repr__ are C18's rendering scope)
OPERATOR_DUNDERS = {
    "__bool__", "__len__", "__eq__", "__ne__", "__hash__", "__lt__", "__le__", "__gt__", "__ge__", "__contains__", "__iter__",
    "__next__", "__reversed__", "__getitem__", "__setitem__", "__delitem__", "__add__", "__radd__", "__iadd__", "__sub__", "__rsub__",
    "__isub__", "__mul__", "__rmul__", "__truediv__", "__rtruediv__", "__floordiv__", "__rfloordiv__", "__mod__", "__pow__",
    "__neg__", "__pos__", "__abs__", "__round__", "__and__", "__or__", "__xor__", "__invert__", "__divmod__", "__matmul__",
    "__lshift__", "__rshift__",
}
KNOWN_OPERATORS = {
    "chartparse.util.DictPropertiesEqMixin": {"__eq__"},
    "chartparse.instrument.NoteTrackIndex": {"__lt__", "__le__"},
    "chartparse.sync.BPMEvents": {"__getitem__", "__len__"},
    "chartparse.track.ParsedDataMap": {"__getitem__"},
    "chartparse.chart.Chart": {"__getitem__"},
    "chartparse.hints.Comparable": {"__lt__"},  # a typing Protocol (annotation only)
}
# classes whose construction runs code of the package after the fields are set: exactly the validators the C15 rules specify
# (they raise ValueError for an untrustworthy tempo map and store nothing).  A __post_init__ / __init__ anywhere else makes
# "C(field=value, ...)" something other than "an object with these fields" (it can reject or rewrite them).
KNOWN_POST_INIT = {"chartparse.sync.SyncTrack", "chartparse.sync.BPMEvent", "chartparse.sync.BPMEvents"}
# package names that coincide with a builtin, confirmed by reading: `chartparse.tick.sum(a, b)` adds two tick counts and is only
# ever called qualified; inside tick.py no bare `sum(` occurs (checked below)
SHADOWS_OK = {"chartparse.tick.sum"}
DYNAMIC_CALLS = {"exec", "eval", "compile", "__import__", "globals", "locals", "vars", "setattr", "delattr", "breakpoint"}
DYNAMIC_MODULES = {"importlib", "inspect", "ctypes", "gc", "builtins", "pickle", "copyreg", "unittest.mock"}
DYNAMIC_ATTRS = {"sys.modules", "sys._getframe", "sys.settrace", "sys.setprofile", "sys.meta_path", "sys.path_hooks"}
BUILTIN_NAMES = {n for n in dir(_builtins) if not n.startswith("_")}


def _dotted(n: ast.AST) -> Optional[str]:
    if isinstance(n, ast.Name):
        return n.id
    if isinstance(n, ast.Attribute):
        b = _dotted(n.value)
        return f"{b}.{n.attr}" if b else None
    return None


def _is_type_checking(t: ast.AST) -> bool:
    d = _dotted(t)
    return d is not None and d.split(".")[-1] == "TYPE_CHECKING"


def check_model(ctx: Ctx, rep: Report) -> None:
    prog = ctx.prog
    r_bind = rep.rule("model.bindings", "every module-level and class-level name is bound exactly once, by a plain definition; no "
                                        "statement other than imports, definitions and plain assignments runs at import time; no "
                                        "builtin is shadowed", floor=11)
    r_dec = rep.rule("model.decorators", "every decorator is one whose effect the evaluator models", floor=50)
    r_hook = rep.rule("model.hooks", "no special method or dynamic facility that changes how names, attributes, operators or "
                                     "constructors resolve; operator protocols are defined exactly where the table says", floor=20)
    r_ctor = rep.rule("model.constructors", "a dataclass instance holds exactly the constructor's arguments: generated __init__, "
                                            "__post_init__ without stores", floor=20)

    def where(m, node):
        return dict(file=m.path, line=getattr(node, "lineno", 0))

    # a decorator matters to this property only on a function its argument can reach (whole package when the property is about
    # the whole package: C17, C20)
    reach: Optional[set] = None
    try:
        touched = sorted(ctx._touched_funcs)
        if touched:
            from .escape import graph
            cg = graph(ctx)
            saved, cg.unsupported = cg.unsupported, {}
            try:
                reach = cg.reachable(touched)
            finally:
                cg.unsupported = saved
            cls_touched = {q.rsplit(".", 1)[0] for q in reach}
            reach |= cls_touched
    except Exception:
        reach = None

    def resolve(m, dotted: Optional[str]) -> Optional[str]:
        """Resolved dotted name of a decorator / callee expression, through the module's imports."""
        if dotted is None:
            return None
        head, _, rest = dotted.partition(".")
        imp = m.import_names.get(head)
        if imp is not None:
            base = imp[1] if imp[0] == "module" else f"{imp[1]}.{imp[2]}"
            if imp[0] == "module" and "." in base and head == base.split(".")[0]:
                base = head  # `import a.b` binds `a`
            base = {"typ": "typing"}.get(base, base)
            return f"{base}.{rest}" if rest else base
        return dotted

    # ---------------------------------------------------------------- bindings / import-time statements
    for m in sorted(prog.modules.values(), key=lambda x: x.name):
        r_bind.inst(f"{m.name}: module-level bindings and statements")
        bound: dict = {}

        def bind(name: str, node: ast.AST, kind: str, scope: str, table: dict, mod=m) -> None:
            if name in table and not (kind == "overload" or table[name][1] == "overload"):
                r_bind.fail(f"{scope}.{name}", f"`{name}` is bound twice in {scope} (line {table[name][0]} as {table[name][1]}, line "
                                               f"{getattr(node, 'lineno', 0)} as {kind}): the later binding silently replaces the one the "
                                               f"analysis resolved", stmt=f"rebind {name}", **where(mod, node))
            table[name] = (getattr(node, "lineno", 0), kind)
            if name in BUILTIN_NAMES and f"{scope}.{name}" in SHADOWS_OK:
                bare = [n for n in ast.walk(mod.tree) if isinstance(n, ast.Call) and isinstance(n.func, ast.Name) and n.func.id == name]
                for n in bare:
                    r_bind.fail(f"{scope}.{name}", f"bare `{name}(...)` inside {scope}, where `{name}` is the module's own function, not "
                                                   f"the builtin", stmt=f"bare {name}", **where(mod, n))
            elif name in BUILTIN_NAMES:
                r_bind.fail(f"{scope}.{name}", f"`{name}` in {scope} shadows the builtin of the same name, which the rules interpret as the "
                                               f"builtin", stmt=f"shadow {name}", **where(mod, node))

        def is_overload(fn: ast.AST) -> bool:
            return any((_dotted(d.func if isinstance(d, ast.Call) else d) or "").split(".")[-1] == "overload" for d in fn.decorator_list)

        def scan_body(stmts: list, scope: str, table: dict, in_class: bool, mod=m) -> None:
            for s in stmts:
                if isinstance(s, (ast.FunctionDef, ast.AsyncFunctionDef)):
                    bind(s.name, s, "overload" if is_overload(s) else "def", scope, table)
                elif isinstance(s, ast.ClassDef):
                    bind(s.name, s, "class", scope, table)
                    for kw in s.keywords:
                        if kw.arg == "metaclass":
                            r_hook.fail(f"{scope}.{s.name}", f"class {s.name} names a metaclass: class creation and attribute look-up are "
                                                             f"no longer the default ones", stmt="metaclass", **where(mod, s))
                    scan_body(s.body, f"{scope}.{s.name}", {}, True)
                elif isinstance(s, (ast.Import, ast.ImportFrom)):
                    if in_class:
                        r_bind.fail(scope, f"import inside the class body of {scope}", stmt="class import", **where(mod, s))
                    for a in s.names:
                        if a.name == "*":
                            r_bind.fail(scope, f"star import in {scope}: the names it binds are not resolved", stmt="star import", **where(mod, s))
                            continue
                        nm = a.asname or a.name.split(".")[0]
                        prev = table.get(nm)
                        if prev is not None and prev[1] == "import":
                            table[nm] = (s.lineno, "import")  # `import a.b` / `import a.c` both bind `a`; TYPE_CHECKING + lazy re-import
                            continue
                        bind(nm, s, "import", scope, table)
                elif isinstance(s, (ast.Assign, ast.AnnAssign)):
                    tgs = s.targets if isinstance(s, ast.Assign) else [s.target]
                    if isinstance(s, ast.AnnAssign) and s.value is None:
                        continue  # declaration only
                    for t in tgs:
                        names = [t] if isinstance(t, ast.Name) else list(t.elts) if isinstance(t, (ast.Tuple, ast.List)) else None
                        if names is None or not all(isinstance(x, ast.Name) for x in names):
                            r_bind.fail(scope, f"{scope} assigns to `{ast.unparse(t)}` at import time: an attribute or item of an existing "
                                               f"object is rebound after its definition (the analysis resolved the definition)",
                                        stmt=f"store {ast.unparse(t)}", **where(mod, s))
                            continue
                        for x in names:
                            bind(x.id, s, "assign", scope, table)
                elif isinstance(s, ast.Expr) and isinstance(s.value, ast.Constant):
                    continue
                elif isinstance(s, ast.Pass):
                    continue
                elif isinstance(s, ast.If) and _is_type_checking(s.test) and not in_class:
                    scan_body(s.body, scope, table, in_class)
                    if s.orelse:
                        r_bind.fail(scope, f"`if TYPE_CHECKING: ... else:` in {scope}: run-time bindings in the else arm are not resolved",
                                    stmt="type-checking else", **where(mod, s))
                elif isinstance(s, ast.Expr) and isinstance(s.value, ast.Call) and not in_class:
                    d = resolve(mod, _dotted(s.value.func))
                    if d is None or d.split(".")[0] in (prog.package,) or d.split(".")[0] not in ("logging", "warnings"):
                        r_bind.fail(scope, f"{scope} calls `{ast.unparse(s.value.func)}(...)` at import time: only logging/warnings "
                                           f"configuration is admitted as an import-time effect", stmt=f"call {ast.unparse(s.value.func)}",
                                    **where(mod, s))
                else:
                    r_bind.fail(scope, f"{scope} executes a `{type(s).__name__}` statement at import time: definitions made or changed "
                                       f"by it are not resolved", stmt=type(s).__name__, **where(mod, s))

        scan_body(m.tree.body, m.name, bound, False)

        # ------------------------------------------------------------ decorators, hooks, dynamic facilities (whole module)
        parents = {}
        for p_ in ast.walk(m.tree):
            for c_ in ast.iter_child_nodes(p_):
                parents[id(c_)] = p_
        for n in ast.walk(m.tree):
            if isinstance(n, (ast.FunctionDef, ast.AsyncFunctionDef, ast.ClassDef)):
                for d in n.decorator_list:
                    dn = resolve(m, _dotted(d.func if isinstance(d, ast.Call) else d))
                    r_dec.inst(f"{m.name}: @{dn} on {n.name}", nontrivial=False)
                    if dn not in DECORATORS and (reach is None or any(q == f"{m.name}.{n.name}" or q.endswith(f".{n.name}") and
                                                                      q.startswith(m.name + ".") for q in reach)):
                        r_dec.fail(f"{m.name}.{n.name}", f"`@{ast.unparse(d)}` on {n.name}: a decorator the evaluator does not model may "
                                                         f"replace or wrap the definition the rules reason about", stmt=f"@{dn}",
                                   **where(m, d))
            if isinstance(n, (ast.FunctionDef, ast.AsyncFunctionDef)) and n.name in RESOLUTION_HOOKS:
                r_hook.fail(f"{m.name}.{n.name}", f"`{n.name}` is defined in {m.name}: it changes how attributes, instances or conversions "
                                                  f"resolve, which the evaluator does not model", stmt=n.name, **where(m, n))
            if isinstance(n, ast.Call):
                d = _dotted(n.func)
                # `vars(obj)` with an argument is `obj.__dict__` (the package reads that already): only writing through it rebinds
                # anything -- `vars(obj)[k] = v`, `vars(obj).update(...)` etc. -- and that is what is reported
                vars_read = False
                if d == "vars" and len(n.args) == 1 and not n.keywords:
                    par = parents.get(id(n))
                    written = (isinstance(par, ast.Subscript) and isinstance(par.ctx, (ast.Store, ast.Del)) and par.value is n) or \
                        (isinstance(par, ast.Attribute) and par.value is n and par.attr in ("update", "pop", "popitem", "clear", "setdefault",
                                                                                          "__setitem__", "__delitem__"))
                    vars_read = not written
                if vars_read:
                    pass
                elif d in DYNAMIC_CALLS or (d is not None and d.endswith(".__setattr__")) or (d is not None and d.endswith(".__dict__.update")):
                    r_hook.fail(f"{m.name}:{getattr(n, 'lineno', 0)}", f"`{ast.unparse(n)[:80]}`: a dynamic facility that can create or rebind "
                                                                     f"attributes behind the analysis", stmt=f"dynamic {d}", **where(m, n))
            if isinstance(n, ast.Subscript) and isinstance(n.ctx, (ast.Store, ast.Del)) and isinstance(n.value, ast.Attribute) and \
                    n.value.attr == "__dict__":
                r_hook.fail(f"{m.name}:{getattr(n, 'lineno', 0)}", f"`{ast.unparse(n)[:80]}`: an instance dictionary is written directly",
                            stmt="__dict__ store", **where(m, n))
            if isinstance(n, ast.Attribute) and (_dotted(n) or "") in DYNAMIC_ATTRS:
                r_hook.fail(f"{m.name}:{getattr(n, 'lineno', 0)}", f"`{_dotted(n)}`: interpreter state that can rebind what the analysis "
                                                                 f"resolved", stmt=f"dynamic {_dotted(n)}", **where(m, n))
            if isinstance(n, (ast.Global,)):
                for nm in n.names:
                    if nm in m.functions or nm in m.classes:
                        r_hook.fail(f"{m.name}.{nm}", f"`global {nm}` in a function of {m.name}: a definition can be rebound at run time",
                                    stmt=f"global {nm}", **where(m, n))
        for name, imp in m.import_names.items():
            top = (imp[1] if imp[0] == "module" else imp[1])
            if top.split(".")[0] in DYNAMIC_MODULES or top in DYNAMIC_MODULES:
                r_hook.fail(f"{m.name}.{name}", f"{m.name} imports `{imp[1]}`: reflection / interpreter facilities can rebind what the "
                                                f"analysis resolved", stmt=f"import {imp[1]}", file=m.path, line=0)
        r_hook.inst(f"{m.name}: resolution hooks, dynamic facilities", nontrivial=False)

    # ---------------------------------------------------------------- operator protocols, constructors
    for cq, c in sorted(prog.classes.items()):
        defined = {n for n in c.methods if n in OPERATOR_DUNDERS} | \
                  {n for n, (val, ann, ln) in c.body_assigns.items() if n in OPERATOR_DUNDERS and val is not None}
        for n, (val, ann, ln) in c.body_assigns.items():
            if val is not None and n.startswith("__") and n.endswith("__") and n not in OPERATOR_DUNDERS and \
                    n not in ("__slots__", "__doc__", "__module__", "__qualname__", "__annotations__", "__all__", "__test__"):
                r_hook.fail(f"{cq}.{n}", f"{cq} binds the special name `{n}` by assignment in its class body: the special method in force "
                                         f"is not the one the class's definitions and decorators imply", stmt=n, file=c.module.path, line=ln)
        want = KNOWN_OPERATORS.get(cq, set())
        r_hook.inst(f"{cq}: operator protocols {sorted(defined) or '-'}", nontrivial=bool(defined))
        for n in sorted(defined - want):
            f = c.methods.get(n)
            r_hook.fail(f"{cq}.{n}", f"{cq} defines `{n}`: the rules treat this operator on its instances structurally (truthiness = "
                                     f"not None, value equality by fields, ...); a user-defined protocol is not modelled there",
                        stmt=n, file=c.module.path, line=getattr(f.node, "lineno", 0) if f is not None else c.body_assigns[n][2])
        for n in sorted(want - defined):
            r_hook.fail(f"{cq}.{n}", f"{cq} no longer defines `{n}`, which the rules rely on (wrapper inlined / value equality)", stmt=n,
                        file=c.module.path, line=getattr(c.node, "lineno", 0))
        dc = [kws for name, kws in c.decorators if name.endswith("dataclass")]
        if dc:
            r_ctor.inst(f"{cq}: dataclass constructor", nontrivial=False)
            if dc[0].get("init", True) is not True:
                r_ctor.fail(cq, f"{cq} is a dataclass with init={dc[0].get('init')!r}: instances are not built from the arguments",
                            stmt="init", file=c.module.path, line=getattr(c.node, "lineno", 0))
            if "__init__" in c.methods:
                r_ctor.fail(f"{cq}.__init__", f"{cq} is a dataclass with a hand-written __init__", stmt="__init__", file=c.module.path,
                            line=getattr(c.methods["__init__"].node, "lineno", 0))
            if "__post_init__" in c.methods and cq not in KNOWN_POST_INIT:
                r_ctor.fail(f"{cq}.__post_init__", f"{cq} runs a __post_init__ that the specification does not know: constructing it can now "
                                                   f"fail or differ from 'an object with exactly these fields' for some field values",
                            stmt="__post_init__", file=c.module.path, line=getattr(c.methods["__post_init__"].node, "lineno", 0))
            pi = c.find_method("__post_init__")
            if pi is not None:
                try:
                    s = ctx.ev.summary(pi)
                    for e in s.effects:
                        r_ctor.fail(pi.qual, f"{pi.qual} has a side effect ({e.kind} on {ast.unparse(e.node)[:60] if e.node is not None else '?'}): "
                                             f"after construction the fields would not be the constructor's arguments", stmt=e.kind,
                                    file=pi.module.path, line=getattr(e.node, "lineno", 0))
                except Exception:
                    pass
    for cq, c in sorted(prog.classes.items()):
        # a field(default_factory / init=False) changes what an omitted argument means: every dataclass field default is a constant
        for name, (val, ann, ln) in c.body_assigns.items():
            if val is not None and isinstance(val, ast.Call) and (_dotted(val.func) or "").split(".")[-1] == "field":
                kws = {k.arg for k in val.keywords}
                if kws & {"init", "default_factory"}:
                    r_ctor.fail(f"{cq}.{name}", f"{cq}.{name} = field({', '.join(sorted(kws))}): the field is not (only) the constructor "
                                                f"argument", stmt=f"field {name}", file=c.module.path, line=ln)
