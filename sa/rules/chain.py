"""chain -- the links between the file and a section's parser: reading (fp.read().splitlines(), utf-8-sig), framing (S5),
required-section routes / routing loop, section -> dispatcher -> per-kind builders.  A property observed through
Chart.from_file holds only if every link hands the lines on unchanged."""
from __future__ import annotations

from .chartrules import ChartRules
from .dispatch import check_dispatcher, check_track_sections


def check_chain(ctx, r, which, strict=True):
    """which: 'instrument' | 'sync' | 'global' | 'song' | 'all'"""
    C = ChartRules(ctx)
    C.check_reading(r)
    C.check_framing(r)
    C.check_required(r)
    kinds = {"instrument": ["instrument"], "sync": ["sync"], "global": ["global"], "song": [], "all": ["instrument", "sync", "global"]}[which]
    if "instrument" in kinds:
        parts = C.routing(r)
        if parts is not None:
            C.check_routing(r, parts)
    for k in kinds:
        check_track_sections(ctx, r, k, strict=strict)
    if kinds:
        check_dispatcher(ctx, r)
