"""chain -- the links between the file and a section's parser: reading (fp.read().splitlines(), utf-8-sig), framing (S5),
required-section routes / routing loop, section -> dispatcher -> per-kind builders.  A property observed through
Chart.from_file holds only if every link hands the lines on unchanged."""
from __future__ import annotations

from .chartrules import ChartRules
from .dispatch import check_dispatcher, check_track_sections


NQ = "chartparse.instrument.NoteEvent.ParsedData"
SQ = "chartparse.instrument.StarPowerEvent.ParsedData"
BQ = "chartparse.sync.BPMEvent.ParsedData"


def check_chain(ctx, r, which, strict=True, recognisers=(), safe_skip=True, only=("canon", "capture", "groups", "upper")):
    """which: 'instrument' | 'sync' | 'global' | 'song' | 'all'.
    recognisers: line kinds whose every canonical line the calling property observes (a canonical line dropped as unparsable, or
    decoded to other integers, changes what the property talks about): acceptance of the canonical language, capture
    exactness and group contents of that kind's recogniser.
    safe_skip: trying a kind on a line can only succeed or raise RegexNotMatchError (anything else aborts the section instead of
    offering the line to the next kind): every partial operation reachable from the dispatcher is discharged."""
    from .decode import check_from_chart_line
    from .lang import check_line_recogniser
    for cq in recognisers:
        info = check_from_chart_line(ctx, r, cq)
        if info is not None:
            check_line_recogniser(ctx, cq, info, r, r, r, only=set(only))
    if safe_skip and which != "song":
        from .partial import check_partial_scope
        from .dispatch import PARSE
        check_partial_scope(ctx, r, [PARSE])
    C = ChartRules(ctx)
    C.check_reading(r)
    C.check_framing(r)
    C.check_required(r)
    kinds = {"instrument": ["instrument"], "sync": ["sync"], "global": ["global"], "song": [], "all": ["instrument", "sync", "global"]}[which]
    if "instrument" in kinds:
        parts = C.routing(r)
        if parts is not None:
            C.check_routing(r, parts)
    for k in kinds:
        check_track_sections(ctx, r, k, strict=strict)
    if kinds:
        check_dispatcher(ctx, r)
