"""chartrules -- premises about chartparse.chart.Chart: framing (S5), routing, selection filter, rate queries.
Shared by C06, C13, C16 (and parts of C18/C19)."""
from __future__ import annotations

import ast
from typing import Any, Optional

from ..constfold import EnumMember, NotConstant
from ..context import Ctx
from ..match import ANYP, H, affine, decision_table, eval_bool, is_atom, match, resolve_ite, strip, UnknownAtom
from ..report import AnalysisError, Rule
from ..terms import Summary, Term, show, subterms
from .lib import (cond_str, exc_is, exc_name, fail, fcmp_atom, icmp, icmp_atom, is_none_atom, live_exits, opt_atom,
                  truthy_atom, unknown_atoms)
from .tables import FORMAT_DIFFICULTIES, FORMAT_INSTRUMENTS
from .timing import QNO, TD_ZERO_FORMS, TIMEDELTA

CHART = "chartparse.chart.Chart"
FROM_FILE = f"{CHART}.from_file"
TRACK = "chartparse.instrument.InstrumentTrack"
REQUIRED = {"chartparse.metadata.Metadata": "Song", "chartparse.sync.SyncTrack": "SyncTrack",
            "chartparse.globalevents.GlobalEventsTrack": "Events"}
RNM = "chartparse.exceptions.RegexNotMatchError"


class ChartRules:
    def __init__(self, ctx: Ctx) -> None:
        self.ctx = ctx
        self.f = ctx.func(FROM_FILE)
        self.s = ctx.summary(self.f)
        self.ps = self.f.params()
        self.sections: Optional[Term] = None
        self.partf = None
        self._find_sections()

    # ------------------------------------------------------------------ discovery
    def _find_sections(self) -> None:
        """SECTIONS = result of the framing function applied to the file's lines."""
        ctx = self.ctx
        for c in self.s.calls:
            if c.fn[0] == "func" and c.fn[1].startswith(CHART + ".") and not c.inlined:
                f = ctx.prog.functions.get(c.fn[1])
                if f is None:
                    continue
                rt = ctx.ev.types.return_type(f)
                if rt is not None and rt[0] == "dict":
                    self.sections = c.result
                    self.partf = f
                    self.part_call = c
                    return

    # ------------------------------------------------------------------ P4 newline / BOM
    def check_reading(self, r: Rule) -> None:
        ctx, f = self.ctx, self.f
        r.inst("Chart.from_file: lines = fp.read().splitlines()")
        r.inst("Chart.from_filepath: open(path, encoding='utf-8-sig')")
        fp = ("param", self.ps[1])
        LINES = ("call", ("meth", "splitlines"), (("call", ("meth", "read"), (fp,), ()),), ())
        if self.sections is None:
            fail(r, ctx, f, f.node, "cannot find the framing call (a Chart method returning the section map) in Chart.from_file")
            return
        kw = dict(self.sections[3])
        args = [v for k, v in kw.items() if k != self.partf.params()[0]]
        if len(args) != 1 or strip(args[0]) != LINES:
            fail(r, ctx, f, self.part_call.node, "the framing function must receive fp.read().splitlines() -- a list (re-iterable) whose "
                                                 "lines carry no line terminators for LF and CRLF alike; it receives "
                 + ", ".join(show(a)[:160] for a in args))
        g = ctx.func(f"{CHART}.from_filepath")
        gs = ctx.summary(g)
        gps = g.params()
        ok = False
        for c in gs.calls:
            if c.fn == ("builtin", "open"):
                kwo = dict(c.kwargs)
                enc = kwo.get("encoding") or (c.args[3] if len(c.args) > 3 else None)
                mode = kwo.get("mode") or (c.args[1] if len(c.args) > 1 else ("const", "r"))
                nl = kwo.get("newline")
                if c.args and c.args[0] == ("param", gps[1]) and enc == ("const", "utf-8-sig") and mode in (("const", "r"), ("const", "rt")) \
                        and nl in (None, ("const", None)):
                    ok = True
                else:
                    fail(r, ctx, g, c.node, "the by-path reader must open(path, 'r', encoding='utf-8-sig') with universal newlines (a "
                                            f"BOM must never reach the header recogniser); found {show(c.result)[:160]}")
                    return
        if not ok:
            fail(r, ctx, g, g.node, "Chart.from_filepath no longer opens the path with encoding='utf-8-sig'")
        rets = gs.rets()
        want = ("call", ("func", FROM_FILE), (), ANYP)
        if len(rets) != 1 or match(want, rets[0].value) is None:
            fail(r, ctx, g, g.node, "Chart.from_filepath must return Chart.from_file(f, want_tracks=want_tracks)")
        else:
            k2 = dict(rets[0].value[3])
            if k2.get(self.ps[2]) != ("param", gps[2]):
                fail(r, ctx, g, rets[0].node, f"the selection must be passed through unchanged; found {show(k2.get(self.ps[2]))[:80]}")
            fpv = k2.get(self.ps[1])
            if not (fpv is not None and fpv[0] == "with"):
                fail(r, ctx, g, rets[0].node, f"from_file must receive the opened file; receives {show(fpv)[:80]}")

    # ------------------------------------------------------------------ P2 framing S5
    def check_framing(self, r: Rule) -> Optional[dict]:
        ctx = self.ctx
        pf = self.partf
        if pf is None:
            fail(r, ctx, self.f, self.f.node, "framing function not found")
            return None
        s = ctx.summary(pf)
        r.inst(f"{pf.qual}: line framing schema S5")
        lines = ("param", pf.params()[1])
        if len(s.loops) != 1:
            fail(r, ctx, pf, pf.node, f"framing must be a single pass over the lines (schema S5); found {len(s.loops)} loops")
            return None
        loop = next(iter(s.loops.values()))
        it = loop.iter
        start = 0
        ok = it is not None and it[0] == "call" and it[1] == ("builtin", "enumerate") and it[2] and strip(it[2][0]) == lines
        if ok:
            kw = dict(it[3])
            st = kw.get("start") or (it[2][1] if len(it[2]) > 1 else ("const", 0))
            if st[0] == "const" and isinstance(st[1], int):
                start = st[1]
            else:
                ok = False
        if not ok or loop.kind != "for":
            fail(r, ctx, pf, loop.node, f"framing loop must be `for i, line in enumerate(lines)`; iterates {show(it)[:120] if it else None}")
            return None
        idx, line = ("proj", ("elem", loop.id), 0), ("proj", ("elem", loop.id), 1)
        ex = live_exits(s)
        rets = [e for e in ex if e.kind == "ret"]
        if len(rets) != 1 or rets[0].loops:
            fail(r, ctx, pf, pf.node, "framing must return its map once, after the loop")
            return None
        d = rets[0].value
        if not ((d[0] == "call" and d[1] == ("builtin", "dict") and not d[2]) or (d[0] == "dict" and not d[1])):
            fail(r, ctx, pf, rets[0].node, f"framing must return a fresh dict; returns {show(d)[:100]}")
            return None
        # carried state: exactly one 'current header' variable: the one tested `is None`
        stores = [e for e in s.effects if e.kind == "store_sub" and e.target == d]
        for e in s.effects:
            if e not in stores:
                fail(r, ctx, pf, e.node, f"framing has an extra effect ({e.kind} on {show(e.target)[:60]})")
        if len(stores) != 1:
            fail(r, ctx, pf, loop.node, f"exactly one place may store a section body; found {len(stores)}")
            return None
        st_ = stores[0]
        tagv = st_.key
        if not (tagv[0] == "lv" and tagv[1] == loop.id):
            fail(r, ctx, pf, st_.node, f"section bodies must be stored under the header captured when the section opened; key is {show(tagv)[:100]}")
            return None
        tagname = tagv[2]
        TAG = ("lv", loop.id, tagname)
        mterm: dict = {}

        def matcher(t):
            pat = ("call", ("meth", H("method")), (("attr", ("clsparam", CHART), H("prog")), line), ())
            b = match(pat, t)
            if b is not None and b["method"] in ("match", "fullmatch", "search"):
                mterm.update(b)
                mterm["M"] = t
                return True
            if t[0] == "not":
                x = matcher(t[1])
                return None if x is None else (not x)
            return None

        atoms = [("no-section", is_none_atom(TAG)), ("header-match", matcher),
                 ("open", is_atom(("?sym", "==", line, ("const", "{")))), ("close", is_atom(("?sym", "==", line, ("const", "}"))))]
        inl = [e for e in s.exits if e.loops and e.kind in ("ret", "raise", "break", "continue")]

        def implied(v):
            return not (v["open"] and v["close"])

        rows, unknown = decision_table(inl, atoms, implied)
        # conditions of the store and of the carried updates also count
        for a, p in st_.cond:
            if a[0] != "inloop":
                try:
                    eval_bool(a, atoms, {n: False for n, _ in atoms})
                except UnknownAtom as u:
                    if u.term not in unknown:
                        unknown.append(u.term)
        unknown_atoms(r, ctx, pf, s, unknown, "no section open; header recogniser matched; line == '{'; line == '}'")
        if unknown:
            return None
        tag_init, tag_upd = loop.carried.get(tagname, (None, None))
        if tag_init != ("const", None):
            fail(r, ctx, pf, loop.node, f"the current-header variable must start as None; starts as {show(tag_init) if tag_init else None}")
        # find the open-index variable: the carried variable appearing as the slice start in the store
        val = st_.value
        lo = hi = src = None
        if val is not None and val[0] == "call" and val[1] == ("ext", "itertools.islice") and len(val[2]) == 3:
            src, lo, hi = val[2]
        elif val is not None and val[0] == "sub" and val[2][0] == "slice":
            src, (lo, hi) = val[1], val[2][1:3]
        if src is None or strip(src) != lines:
            fail(r, ctx, pf, st_.node, f"the stored body must be a slice of the very lines being framed (islice(lines, first, last+1)); found {show(val)[:160]}")
            return None
        if not (lo[0] == "lv" and lo[1] == loop.id):
            fail(r, ctx, pf, st_.node, f"body start must be the index remembered at the section's '{{' line; found {show(lo)[:100]}")
            return None
        firstname = lo[2]
        bh, ch = affine(hi)
        if not (strip(bh) == idx and ch == -start):
            fail(r, ctx, pf, st_.node, f"body must end right before the closing brace line (exclusive end = index of '}}'); found end {show(hi)[:100]} "
                                       f"(enumerate start {start})")
        f_init, f_upd = loop.carried.get(firstname, (None, None))
        for val_, hit in rows:
            N, M, O, C = val_["no-section"], val_["header-match"], val_["open"], val_["close"]
            r.inst(f"{pf.name}: no-section={int(N)} header={int(M)} open={int(O)} close={int(C)}")
            # outcome kinds
            if N and not M:
                if len(hit) != 1 or hit[0].kind != "raise" or exc_name(hit[0].value) != RNM:
                    fail(r, ctx, pf, (hit[0].node if hit else loop.node), "outside a section a line that is not a [header] must raise "
                                                                         f"RegexNotMatchError; found {[h.kind for h in hit]}")
                continue
            if hit:
                fail(r, ctx, pf, hit[0].node, f"unexpected {hit[0].kind} for a line with no-section={N} header={M} open={O} close={C}")
                continue
            # state updates
            t_new = strip(resolve_ite(tag_upd, atoms, val_)) if tag_upd is not None else None
            f_new = strip(resolve_ite(f_upd, atoms, val_)) if f_upd is not None else None
            try:
                store_on = all(eval_bool(a, atoms, val_) == p for a, p in st_.cond if a[0] != "inloop")
            except UnknownAtom:
                store_on = None
            if N:  # and M
                Mt = mterm.get("M")
                want_tag = [("call", ("meth", "group"), (Mt, ("const", 1)), ()), ("sub", Mt, ("const", 1)),
                            ("proj", ("call", ("meth", "groups"), (Mt,), ()), 0)]
                if t_new not in [strip(w) for w in want_tag]:
                    fail(r, ctx, pf, loop.node, f"a header line opens a section named by capture group 1; the current header becomes {show(t_new)[:120]}")
                if store_on:
                    fail(r, ctx, pf, st_.node, "a header line must not store a body")
            elif O:
                if t_new != TAG:
                    fail(r, ctx, pf, loop.node, f"a '{{' line must not change the current header; it becomes {show(t_new)[:100]}")
                b_, c_ = affine(f_new) if f_new is not None else (None, None)
                if not (b_ is not None and strip(b_) == idx and c_ == 1 - start):
                    fail(r, ctx, pf, loop.node, f"the body starts on the line after '{{' (first = i + 1); found {show(f_new)[:100] if f_new else None}")
                if store_on:
                    fail(r, ctx, pf, st_.node, "a '{' line must not store a body")
            elif C:
                if not store_on:
                    fail(r, ctx, pf, st_.node, "a '}' line inside a section must store that section's body")
                if t_new != ("const", None):
                    fail(r, ctx, pf, loop.node, f"after '}}' no section is open (current header = None); it becomes {show(t_new)[:100]}")
            else:
                if t_new != TAG or store_on:
                    fail(r, ctx, pf, loop.node, "an ordinary body line must change nothing (header tests apply only while no section is open: "
                                                "a body line that looks like a [header] must not retarget the section)")
                if f_new is not None and f_new != ("lv", loop.id, firstname):
                    fail(r, ctx, pf, loop.node, "an ordinary body line must not move the body start")
        return {"method": mterm.get("method"), "prog": mterm.get("prog"), "func": pf}

    # ------------------------------------------------------------------ P5/P7 required sections
    def check_required(self, r: Rule) -> None:
        ctx, f, s = self.ctx, self.f, self.s
        S = self.sections
        if S is None:
            fail(r, ctx, f, f.node, "section map not found")
            return
        # fold each owner's tag
        tags = {}
        for cq, want in REQUIRED.items():
            c = ctx.cls(cq)
            r.inst(f"{c.name}.header_tag = {want!r}", nontrivial=False)
            try:
                v = ctx.fold.fold(ctx.ev.class_attr_value(c, "header_tag"))
            except Exception as e:
                v = None
            tags[cq] = v
            if v != want:
                fail(r, ctx, c, c.node, f"{c.name}.header_tag folds to {v!r}; the file format's section is [{want}]")
        # guard
        req_t = None
        guard_atom = None
        for e in s.exits:
            for a, p in e.cond:
                b = match(("call", ("builtin", "all"), (("comp", ("?or", "gen", "list"), ("cmp", "in", H("b"), S), ((H("b"), H("req"), ()),)),), ()), a)
                if b is not None:
                    req_t, guard_atom = b["req"], a
        r.inst("required-section guard")
        if guard_atom is None:
            fail(r, ctx, f, f.node, "no guard `all(tag in sections for tag in REQUIRED)` found: a chart lacking a required section is not "
                                    "rejected with ValueError (any() or a missing guard lets a KeyError escape)")
            return
        try:
            req = ctx.fold.fold(req_t)
        except NotConstant as e:
            fail(r, ctx, f, f.node, f"required-tag list does not fold: {e}")
            return
        if sorted(req) != sorted(REQUIRED.values()):
            fail(r, ctx, f, f.node, f"required tags fold to {req}; must be exactly {sorted(REQUIRED.values())}")
        for e in live_exits(s):
            lit = [p for a, p in e.cond if a == guard_atom]
            if e.kind == "raise" and lit == [False] and len([x for x in e.cond if x[0][0] != "inloop"]) == 1:
                if not exc_is(ctx, exc_name(e.value), "builtins.ValueError"):
                    fail(r, ctx, f, e.node, f"a missing required section must raise ValueError; raises {exc_name(e.value)}")
            if e.kind == "ret" and lit != [True]:
                fail(r, ctx, f, e.node, "the successful result is not dominated by the required-section guard")
        if not any(e.kind == "raise" and (guard_atom, False) in e.cond for e in s.exits):
            fail(r, ctx, f, f.node, "the required-section guard never raises")
        # three routes
        from .wiring import check_from_file_wiring
        w = check_from_file_wiring(ctx, r)
        if w is None:
            return
        for name, cq in (("md", "chartparse.metadata.Metadata"), ("st", "chartparse.sync.SyncTrack"), ("ge", "chartparse.globalevents.GlobalEventsTrack")):
            t = w[name]
            c = ctx.cls(cq)
            r.inst(f"[{REQUIRED[cq]}] body -> {c.name}.from_chart_lines")
            bodies = [v for k, v in dict(t[3]).items() if v[0] == "sub" and strip(v[1]) == strip(S)]
            if len(bodies) != 1:
                fail(r, ctx, f, w["ret"].node, f"{c.name}.from_chart_lines must receive exactly one section body; receives "
                     + str([show(v)[:60] for v in dict(t[3]).values()]))
                continue
            try:
                key = ctx.fold.fold(bodies[0][2])
            except NotConstant:
                key = None
            if key != REQUIRED[cq]:
                fail(r, ctx, f, w["ret"].node, f"{c.name} is fed the body of section [{key}] instead of its own [{REQUIRED[cq]}]")

    def check_chart_init(self, r: Rule) -> None:
        """Chart(...) stores each argument under the attribute of the same name, nothing else, no shared default."""
        ctx = self.ctx
        c = ctx.cls(CHART)
        init = c.find_method("__init__")
        r.inst("Chart.__init__: metadata / global_events_track / sync_track / instrument_tracks stored under their own names")
        if init is None:
            fail(r, ctx, c, c.node, "Chart.__init__ vanished")
            return
        s = ctx.summary(init)
        want = {"metadata", "global_events_track", "sync_track", "instrument_tracks"}
        got = {}
        for e in s.effects:
            if e.kind == "store_attr" and e.target == ("self", CHART):
                got[e.key] = e.value
            else:
                fail(r, ctx, init, e.node, f"Chart.__init__ has an unexpected effect ({e.kind} on {show(e.target)[:60]})")
        for name in want:
            if got.get(name) != ("param", name):
                fail(r, ctx, init, init.node, f"Chart.{name} must be the constructor argument `{name}`; found {show(got.get(name))[:80] if got.get(name) else None}")
        for d in list(init.node.args.defaults) + [x for x in init.node.args.kw_defaults if x is not None]:
            if not isinstance(d, ast.Constant):
                fail(r, ctx, init, d, f"Chart.__init__ has a non-constant default ({ast.unparse(d)[:60]}): one object shared by every chart built without "
                                      f"that argument")
        # from_file passes all four, positionally or by name, in the declared meaning
        rets = self.s.rets()
        if len(rets) == 1 and rets[0].value[0] == "call":
            kw = dict(rets[0].value[3])
            missing = want - set(kw)
            if missing:
                fail(r, ctx, self.f, rets[0].node, f"Chart.from_file builds the Chart without {sorted(missing)}")

    # ------------------------------------------------------------------ P6 routing table + loop
    def routing(self, r: Rule) -> Optional[dict]:
        """Analyse the routing loop; returns its parts."""
        ctx, f, s = self.ctx, self.f, self.s
        S = self.sections
        if S is None:
            return None
        loops = [l for l in s.loops.values()]
        if len(loops) != 1 or loops[0].kind != "for":
            fail(r, ctx, f, f.node, f"Chart.from_file must route sections in one `for tag, body in sections.items()` loop; found {len(loops)} loops")
            return None
        loop = loops[0]
        if strip(loop.iter) != strip(("call", ("meth", "items"), (S,), ())):
            fail(r, ctx, f, loop.node, f"the routing loop must visit every framed section once (sections.items(), file order); iterates {show(loop.iter)[:160]}")
            return None
        tag, body = ("proj", ("elem", loop.id), 0), ("proj", ("elem", loop.id), 1)
        # the table: the dict comprehension the tag is tested against
        table = None
        for e in list(s.exits) + list(s.effects):
            for a, p in e.cond:
                for t in subterms(a):
                    if t[0] == "cmp" and t[1] == "in" and strip(t[2]) == tag:
                        # (the tag may be tested against other collections as well -- the required tags, a set of titles
                        # already reported: the header table is the mapping among them)
                        if table is None or t[3][0] == "dict" or (t[3][0] == "comp" and t[3][1] == "dict"):
                            if not (table is not None and (table[0] == "dict" or (table[0] == "comp" and table[1] == "dict"))
                                    and not (t[3][0] == "dict" or (t[3][0] == "comp" and t[3][1] == "dict"))):
                                table = t[3]
        if table is None:
            fail(r, ctx, f, loop.node, "no membership test of the section tag against the header table found")
            return None
        return {"loop": loop, "tag": tag, "body": body, "table": table}

    def check_table(self, r: Rule, parts: dict) -> None:
        ctx, f = self.ctx, self.f
        table = parts["table"]
        try:
            tab = ctx.fold.fold(table)
        except NotConstant as e:
            fail(r, ctx, f, f.node, f"the header table does not fold to a constant: {e}")
            return
        want = {d + i for d in FORMAT_DIFFICULTIES for i in FORMAT_INSTRUMENTS}
        if not isinstance(tab, dict):
            fail(r, ctx, f, f.node, f"the collection the section tag is tested against is not a mapping from header names to (instrument, difficulty) "
                                    f"pairs: {type(tab).__name__}")
            return
        r.inst(f"header table: {len(tab)} keys")
        if set(tab) != want:
            fail(r, ctx, f, f.node, f"header table keys differ from the file format's 40 '<Difficulty><Instrument>' names: missing "
                                    f"{sorted(want - set(tab))[:5]}, extra {sorted(set(tab) - want)[:5]}")
        if set(tab) & set(REQUIRED.values()):
            fail(r, ctx, f, f.node, "an instrument header collides with a required section tag")
        for k, v in sorted(tab.items()):
            r.inst(f"{k} -> {v}", nontrivial=False)
            ok = isinstance(v, tuple) and len(v) == 2 and isinstance(v[0], EnumMember) and isinstance(v[1], EnumMember) \
                and v[0].cls.endswith(".Instrument") and v[1].cls.endswith(".Difficulty") and v[1].value + v[0].value == k
            if not ok:
                fail(r, ctx, f, f.node, f"header {k!r} maps to {v}; it must map to the (Instrument, Difficulty) pair whose values "
                                        f"concatenate (difficulty first) to the header")

    def check_routing(self, r: Rule, parts: dict, r_sel: Optional[Rule] = None) -> None:
        """Track built from (pair, own body, shared tempo map); stored under [instrument][difficulty]; filter."""
        ctx, f, s = self.ctx, self.f, self.s
        loop, tag, body, table = parts["loop"], parts["tag"], parts["body"], parts["table"]
        PAIR = ("sub", table, tag)
        want = ("param", self.ps[2])
        in_tab = ("cmp", "in", tag, table)
        r.inst("routing loop: builder arguments, store key, unknown sections")
        builds = [c for c in s.calls if c.fn == ("func", f"{TRACK}.from_chart_lines") and not c.inlined]
        if len(builds) != 1 or builds[0].loops != (loop.id,):
            fail(r, ctx, f, loop.node, f"exactly one track construction per routed section expected; found {len(builds)}")
            return
        bc = builds[0]
        if bc.trys:
            fail(r, ctx, f, bc.node, "the track construction is enclosed by a try: a section whose parse raises would be dropped -- and, with the "
                                     "handler outside the loop, every later section with it -- instead of the error reaching the caller "
                                     "(a selected track that exists in the file must be returned or the parse must fail)")
        tf = ctx.func(f"{TRACK}.from_chart_lines")
        tps = tf.params()
        kw = dict(bc.kwargs)
        from .wiring import check_from_file_wiring
        w = check_from_file_wiring(ctx, r)
        bpm = ("attr", w["st"], "bpm_events") if w else None
        types = {p: ctx.ev.types.param_type(tf, p) for p in tps}
        for p in tps[1:]:
            t = types[p]
            a = kw.get(p)
            if t == ("inst", "chartparse.instrument.Instrument"):
                if strip(a) != strip(("proj", PAIR, 0)):
                    fail(r, ctx, f, bc.node, f"the track's instrument must be component 0 of the table entry for this header; found {show(a)[:160]}")
            elif t == ("inst", "chartparse.instrument.Difficulty"):
                if strip(a) != strip(("proj", PAIR, 1)):
                    fail(r, ctx, f, bc.node, f"the track's difficulty must be component 1 of the table entry for this header; found {show(a)[:160]}")
            elif t == ("seq", ("ext", "builtins.str")):
                if strip(a) != body:
                    fail(r, ctx, f, bc.node, f"the track must be built from this section's own body lines; receives {show(a)[:160]}")
            elif t == ("inst", "chartparse.sync.BPMEvents"):
                if bpm is not None and strip(a) != strip(bpm):
                    fail(r, ctx, f, bc.node, f"the track must be timed with this chart's sync_track.bpm_events; receives {show(a)[:160]}")
        # store
        ret = [e for e in s.rets()]
        itm = dict(ret[0].value[3]).get("instrument_tracks") if ret else None
        I, Dd = ("proj", PAIR, 0), ("proj", PAIR, 1)
        forms = []
        if itm is not None and not (itm == ("call", ("builtin", "dict"), (), ()) or (itm[0] == "dict" and not itm[1])):
            fail(r, ctx, f, ret[0].node, f"the instrument map handed to the Chart must be a dict allocated empty by this very call of from_file; "
                                         f"found {show(itm)[:100]} -- a parameter default, a class attribute or any other object that outlives "
                                         f"the call makes one parse's tracks appear in another's")
        if itm is not None:
            forms = [("call", ("meth", "setdefault"), (itm, I, ANYP), ()), ("sub", itm, I)]
        stores = [e for e in s.effects if e.kind == "store_sub" and e.loops == (loop.id,)]
        muts = [e for e in s.effects if e.kind == "mutcall" and e.loops == (loop.id,)]
        okstore = len(stores) == 1 and any(match(p, stores[0].target) is not None for p in forms) and \
            strip(stores[0].key) == strip(Dd) and strip(stores[0].value) == strip(bc.result)
        if not okstore:
            fail(r, ctx, f, (stores[0].node if stores else loop.node),
                 "each built track must be stored exactly once under instrument_tracks[instrument][difficulty] of the map handed to the "
                 "Chart; found " + "; ".join(f"{show(e.target)[:80]}[{show(e.key)[:60]}] = {show(e.value)[:60]}" for e in stores)[:400])
        for e in s.effects:
            if e in stores:
                continue
            if e.kind == "mutcall" and e.key == "setdefault" and itm is not None and e.target == itm and \
                    strip(e.value[0]) == strip(I) and e.value[1][0] in ("call", "dict") and len(e.value) == 2:
                # the per-instrument dict must be allocated in place (one per instrument), not a hoisted / shared object
                inplace = False
                for n_ in ast.walk(e.node):
                    if isinstance(n_, ast.Call) and isinstance(n_.func, ast.Attribute) and n_.func.attr == "setdefault" and len(n_.args) == 2:
                        a2 = n_.args[1]
                        inplace = isinstance(a2, ast.Dict) or (isinstance(a2, ast.Call) and isinstance(a2.func, ast.Name) and a2.func.id == "dict")
                if not inplace:
                    fail(r, ctx, f, e.node, "the per-instrument difficulty dict passed to setdefault is not allocated in place: one dict object would be "
                                            "shared by every instrument (a track then appears under instruments that are not in the file)")
                continue
            fail(r, ctx, f, e.node, f"routing has an extra effect ({e.kind} {e.key if isinstance(e.key, str) else ''} on {show(e.target)[:80]}): "
                                    f"tracks must not share state across sections")
        carried_bad = [n for n, (a, u) in loop.carried.items() if u is not None and any(t[0] == "lv" and t[1] == loop.id for t in subterms(u)
                                                                                       if t != ("lv", loop.id, n))]
        for root in [e.value for e in s.effects if isinstance(e.value, tuple)] + [x for c in s.calls for x in list(c.args) + [v for _, v in c.kwargs]] \
                + [e.target for e in s.effects]:
            for t in subterms(root):
                if t[0] == "lv" and t[1] == loop.id:
                    fail(r, ctx, f, loop.node, f"`{t[2]}` is carried from one section to the next: a section's result would depend on the "
                                               f"sections before it")
                    return
        # label agreement: the track labels itself with the two values it was given
        tsum = ctx.summary(tf)
        for e in tsum.rets():
            v = e.value
            if v[0] == "call":
                k2 = dict(v[3])
                for p in tps[1:]:
                    if types[p] == ("inst", "chartparse.instrument.Instrument") and k2.get("instrument") != ("param", p):
                        fail(r, ctx, tf, e.node, f"the track's `instrument` label must be the instrument it was built for; found {show(k2.get('instrument'))[:80]}")
                    if types[p] == ("inst", "chartparse.instrument.Difficulty") and k2.get("difficulty") != ("param", p):
                        fail(r, ctx, tf, e.node, f"the track's `difficulty` label must be the difficulty it was built for; found {show(k2.get('difficulty'))[:80]}")
        ht = ctx.cls(TRACK).find_method("header_tag")
        if ht is not None:
            hv = ctx.summary(ht).ret_term()
            wantv = ("binop", "+", ("attr", ("attr", ("self", TRACK), "difficulty"), "value"), ("attr", ("attr", ("self", TRACK), "instrument"), "value"))
            if hv != wantv:
                fail(r, ctx, ht, ht.node, f"InstrumentTrack.header_tag must be difficulty.value + instrument.value; found {show(hv)[:120]}")
        # decision structure of the loop body
        rs = r_sel or r
        atoms = [("known", is_atom(in_tab)), ("no-selection", is_none_atom(want)), ("selected", is_atom(("cmp", "in", PAIR, want))),
                 ("required", lambda t: None)]
        # unknown-section arm: condition `tag not in required` is free-form; treat any other atom over `tag` alone as the
        # 'required' atom
        def req_atom(t):
            if t[0] == "cmp" and t[1] == "in" and strip(t[2]) == tag and t[3] != table:
                return True
            if t[0] == "not":
                x = req_atom(t[1])
                return None if x is None else (not x)
            return None
        atoms[3] = ("required", req_atom)
        guard_lits = [(a, p) for a, p in bc.cond if a[0] != "inloop"]
        # literals established before the loop (the required-section guard): they mention neither the loop element nor the selection
        pre = [(a, p) for a, p in guard_lits if not any(x == ("elem", loop.id) or strip(x) == want for x in subterms(a))]
        inl = [e for e in s.exits if e.loops]
        for e in inl:
            if e.kind in ("raise", "ret", "break"):
                fail(r, ctx, f, e.node, f"the routing loop leaves with {e.kind} (an unknown or unselected section must only be skipped/reported)")
        conts = [e for e in inl if e.kind == "continue"]
        import itertools
        unknown: list = []
        for bits in itertools.product([False, True], repeat=3):
            val = dict(zip(["known", "no-selection", "selected"], bits))
            val["required"] = False
            if not val["known"]:
                continue
            skip_want = (not val["no-selection"]) and (not val["selected"])

            def holds(cond):
                for a, p in cond:
                    if a[0] == "inloop" or (a, p) in pre:
                        continue
                    try:
                        if eval_bool(a, atoms, val) != p:
                            return False
                    except UnknownAtom as u:
                        if u.term not in unknown:
                            unknown.append(u.term)
                        return None
                return True

            built = holds(bc.cond)
            stored = holds(stores[0].cond) if stores else None
            rs.inst(f"filter: selection {'absent' if val['no-selection'] else 'given'}, pair {'in' if val['selected'] else 'not in'} selection -> "
                    f"{'skip' if skip_want else 'build'}")
            if built is None or stored is None:
                continue
            if built == skip_want or stored == skip_want:
                fail(rs, ctx, f, bc.node,
                     f"with the selection {'absent (None)' if val['no-selection'] else 'given'} and the pair {'in' if val['selected'] else 'not in'} it, "
                     f"the section must be {'skipped' if skip_want else 'built and stored'}; the code {'builds' if built else 'skips'} it "
                     f"(an empty selection is a selection: it selects nothing)")
        # unknown sections are reported (once) and ignored; required ones are not reported
        warns = [c for c in s.calls if c.fn == ("meth", "warning") and c.loops == (loop.id,)]
        r.inst("unknown section -> exactly one logger.warning, nothing else")
        if len(warns) != 1:
            fail(r, ctx, f, loop.node, f"an unrecognised section must be reported with exactly one logger.warning in the routing loop; found {len(warns)}")
        else:
            wc = warns[0]
            for kn, rq in ((False, False), (False, True), (True, False)):
                val = {"known": kn, "required": rq, "no-selection": True, "selected": True}
                try:
                    on = all(eval_bool(a, atoms, val) == p for a, p in wc.cond if a[0] != "inloop" and (a, p) not in pre)
                except UnknownAtom as u:
                    fail(r, ctx, f, wc.node, f"the unknown-section report depends on `{show(u.term)[:120]}`, not only on the tag being neither an "
                                             f"instrument header nor a required section")
                    break
                want_on = (not kn) and (not rq)
                if on != want_on:
                    fail(r, ctx, f, wc.node, f"a section that is {'an instrument header' if kn else ('a required section' if rq else 'unknown')} must "
                                             f"{'be reported' if want_on else 'not be reported as unhandled'}; the code does the opposite")
            # the 'required' test must be against the folded required tags
            for a, p in wc.cond:
                for t in subterms(a):
                    if t[0] == "cmp" and t[1] == "in" and strip(t[2]) == tag and t[3] != table:
                        try:
                            rq_tags = ctx.fold.fold(t[3])
                            if sorted(rq_tags) != sorted(REQUIRED.values()):
                                fail(r, ctx, f, wc.node, f"the unknown-section test compares with {rq_tags}, not with the three required tags")
                        except NotConstant:
                            fail(r, ctx, f, wc.node, "the unknown-section test compares with a non-constant tag list")
        for u in unknown:
            fail(rs, ctx, f, bc.node, f"building a track depends on the condition `{show(u)[:160]}`, which is not one of: header in table; "
                                      f"want_tracks is None; pair in want_tracks")
        # taint: the selection flows nowhere else
        if r_sel is not None:
            r_sel.inst("taint: want_tracks reaches only the filter test")
            for e in s.exits:
                if any(t == want for t in subterms(e.value)):
                    fail(r_sel, ctx, f, e.node, "the selection flows into the result")
            for c in s.calls:
                if c.inlined and c.fn[0] in ("func", "closure", "boundcls"):
                    continue  # the callee's body is part of this summary: its own uses of the selection are examined here
                for a in list(c.args) + [v for _, v in c.kwargs]:
                    if any(t == want for t in subterms(a)):
                        if c.fn[0] == "builtin" and c.fn[1] in ("frozenset", "set", "tuple", "list"):
                            fail(r_sel, ctx, f, c.node, f"the selection is re-shaped ({show(c.result)[:100]}) before the test: membership must be "
                                                        f"tested on the pairs as given")
                        else:
                            fail(r_sel, ctx, f, c.node, f"the selection flows into a call: {show(c.result)[:120]}")
            for e in s.effects:
                if any(t == want for t in subterms(e.value if isinstance(e.value, tuple) else ())):
                    fail(r_sel, ctx, f, e.node, "the selection flows into a store")
            # skipped bodies are never consumed: every use of `body` is under the build condition
            r_sel.inst("skipped section bodies are never consumed")
            for c in s.calls:
                if c is bc:
                    continue
                if c.inlined and c.fn[0] in ("func", "closure", "boundcls"):
                    continue  # handing the body to a helper whose own body is part of this summary is not a use by itself
                for a in list(c.args) + [v for _, v in c.kwargs]:
                    if any(strip(t) == body for t in subterms(a)) and c.loops == (loop.id,):
                        fail(r_sel, ctx, f, c.node, f"the section body is consumed outside the track construction ({show(c.result)[:100]}): an "
                                                    f"unselected, invalid section could then fail or influence the parse")

    def check_section_uses(self, r: Rule) -> None:
        """P3: sections are addressed by tag, never by position."""
        ctx, f, s = self.ctx, self.f, self.s
        S = self.sections
        if S is None:
            return
        r.inst("uses of the section map: by tag only")
        roots = [e.value for e in s.exits] + [a for e in s.exits for a, _ in e.cond] + \
                [x for c in s.calls for x in list(c.args) + [v for _, v in c.kwargs]]
        for root in roots:
            for t in subterms(root):
                if t[0] == "call" and t[1][0] in ("builtin", "ext") and any(strip(a) == strip(S) for a in t[2]) \
                        and t[1][1] in ("list", "tuple", "enumerate", "iter", "next", "sorted", "reversed", "len"):
                    if t[1][1] in ("list",) and any(x[0] == "fstr" for x in subterms(root)):
                        continue
                    fail(r, ctx, f, f.node, f"the section map is used positionally ({show(t)[:100]}): the parse would depend on section order")
                if t[0] == "call" and t[1][0] == "meth" and t[2] and strip(t[2][0]) == strip(S) and t[1][1] in ("values", "popitem"):
                    fail(r, ctx, f, f.node, f"the section map is used without its tags ({show(t)[:100]})")

    # ------------------------------------------------------------------ C16
    def check_rate(self, r_bounds: Rule, r_count: Rule, r_guards: Rule) -> None:
        ctx = self.ctx
        f = ctx.func(f"{CHART}.notes_per_second")
        s = ctx.summary(f)
        ps = f.params()
        SELF = ("self", CHART)
        inst, diff, start, end = (("param", p) for p in ps[1:5])
        TR = ("sub", ("sub", ("attr", SELF, "instrument_tracks"), inst), diff)
        NE = ("attr", TR, "note_events")
        LNE = ("attr", TR, "last_note_end_timestamp")
        BPM = ("attr", ("attr", SELF, "sync_track"), "bpm_events")
        raises: dict = {}

        def keyerr(t):
            if t[0] == "raises":
                raises["tid"] = t[1]
                return True
            if t[0] == "handler":
                return True
            return None

        def isinst(x, cls):
            return is_atom(("call", ("builtin", "isinstance"), (x, cls), ()))

        atoms = [("lookup-failed", keyerr), ("has-notes", truthy_atom(NE)), ("lne-none", is_none_atom(LNE)),
                 ("start-none", is_none_atom(start)), ("start-int", isinst(start, ("builtin", "int"))),
                 ("start-td", isinst(start, TIMEDELTA)), ("end-none", is_none_atom(end)),
                 ("end-int", isinst(end, ("builtin", "int"))), ("end-td", isinst(end, TIMEDELTA))]

        def implied(v):
            if sum([v["start-none"], v["start-int"], v["start-td"]]) != 1:
                return False
            if sum([v["end-none"], v["end-int"], v["end-td"]]) != 1:
                return False
            if v["lne-none"] and v["has-notes"]:
                return False  # C03: last-note end is None iff there are no notes
            return True

        rows, unknown = decision_table(live_exits(s), atoms, implied)
        unknown_atoms(r_bounds, ctx, f, s, unknown, "track look-up failed; track has notes; start/end is None / int / timedelta")
        if unknown:
            return
        # try scope
        tid = raises.get("tid")
        r_guards.inst("KeyError -> ValueError conversion encloses the track look-up only")
        if tid is None or tid not in s.trys:
            fail(r_guards, ctx, f, f.node, "the track look-up is not inside a try that converts KeyError to ValueError")
        else:
            ti = s.trys[tid]
            hn = [exc_name(h) for hs in ti.handlers if hs is not None for h in hs]
            if hn != ["builtins.KeyError"] or len(ti.node.body) != 1:
                fail(r_guards, ctx, f, ti.node, f"the handler must catch exactly KeyError around exactly the look-up; catches {hn}, body has "
                                                f"{len(ti.node.body)} statements")
        helper = None
        for val, hit in rows:
            mixed = (val["start-td"] and val["end-int"]) or ((val["start-int"] or val["start-none"]) and val["end-td"])
            if mixed:
                continue  # not covered by the overloads / the statement
            if val["lookup-failed"]:
                r_guards.inst(f"absent track -> ValueError") if not any("absent track" in i for i in r_guards.instances) else None
                if len(hit) != 1 or hit[0].kind != "raise" or not exc_is(ctx, exc_name(hit[0].value), "builtins.ValueError"):
                    fail(r_guards, ctx, f, (hit[0].node if hit else f.node), f"an absent track must raise ValueError; found {[h.kind for h in hit]}")
                continue
            if not val["has-notes"]:
                r_guards.inst("note-less track -> ValueError") if not any("note-less" in i for i in r_guards.instances) else None
                if len(hit) != 1 or hit[0].kind != "raise" or not exc_is(ctx, exc_name(hit[0].value), "builtins.ValueError"):
                    fail(r_guards, ctx, f, (hit[0].node if hit else f.node), f"a track without notes must raise ValueError; found {[h.kind for h in hit]}")
                continue
            sk = "none" if val["start-none"] else ("tick" if val["start-int"] else "time")
            ek = "none" if val["end-none"] else ("tick" if val["end-int"] else "time")
            r_bounds.inst(f"start={sk} end={ek}")
            if len(hit) != 1 or hit[0].kind != "ret":
                fail(r_bounds, ctx, f, (hit[0].node if hit else f.node), f"start={sk}, end={ek}: expected one result; found {[h.kind for h in hit]}")
                continue
            v = resolve_ite(hit[0].value, atoms, val)
            if not (v[0] == "call" and v[1][0] == "func"):
                fail(r_bounds, ctx, f, hit[0].node, f"result is not the rate helper applied to resolved bounds: {show(v)[:160]}")
                continue
            helper = ctx.prog.functions.get(v[1][1])
            hp = helper.params()
            kw = dict(v[3])
            qno = lambda x: ("call", ("func", QNO), (), (("self", BPM), ("tick", x)))  # noqa: E731
            want_s = {"none": TD_ZERO_FORMS, "tick": [qno(start)], "time": [start]}[sk]
            want_e = {"none": [LNE], "tick": [qno(end)], "time": [end]}[ek]
            if strip(kw.get(hp[0])) != strip(NE):
                fail(r_bounds, ctx, f, hit[0].node, f"the rate must be computed over the chosen track's note_events; found {show(kw.get(hp[0]))[:120]}")
            if not any(match(w_, kw.get(hp[1])) is not None for w_ in want_s):
                fail(r_bounds, ctx, f, hit[0].node, f"start={sk}: the start bound must be {show(want_s[0])[:100]} (omitted = time zero, tick = the "
                                                    f"un-hinted tempo-map time of that tick); found {show(kw.get(hp[1]))[:200]}")
            if not any(match(w_, kw.get(hp[2])) is not None for w_ in want_e):
                fail(r_bounds, ctx, f, hit[0].node, f"end={ek}: the end bound must be {show(want_e[0])[:100]} (omitted = the track's last note end; an "
                                                    f"explicit 0 is a bound, not an omission); found {show(kw.get(hp[2]))[:200]}")
        for e in s.effects:
            fail(r_bounds, ctx, f, e.node, f"notes_per_second has a side effect ({e.kind} on {show(e.target)[:60]})")
        if helper is not None:
            self.check_rate_helper(r_count, r_guards, helper)

    def check_rate_helper(self, r: Rule, r_guards: Rule, h) -> None:
        ctx = self.ctx
        s = ctx.summary(h)
        hp = h.params()
        ev, st, en = (("param", p) for p in hp[:3])
        DUR = ("call", ("meth", "total_seconds"), (("binop", "-", en, st),), ())
        atoms = [("dur<=0", fcmp_atom("<=", DUR, ("const", 0)))]
        rows, unknown = decision_table(live_exits(s), atoms)
        unknown_atoms(r_guards, ctx, h, s, unknown, "(end - start).total_seconds() <= 0")
        if unknown:
            return
        b = ("?", "b")
        INSIDE = ("and", (("cmp", "<=", st, ("attr", b, "timestamp")), ("cmp", "<=", ("attr", b, "timestamp"), en)))
        COUNTS = [
            ("call", ("builtin", "sum"), (("comp", ("?or", "gen", "list"), ("const", 1), ((b, ev, (INSIDE,)),)),), ()),
            ("call", ("builtin", "len"), (("comp", "list", ANYP, ((b, ev, (INSIDE,)),)),), ()),
            ("call", ("builtin", "sum"), (("comp", ("?or", "gen", "list"), INSIDE, ((b, ev, ()),)),), ()),
        ]
        for val, hit in rows:
            r_guards.inst(f"{h.name}: duration<=0 = {val['dur<=0']}")
            if len(hit) != 1:
                fail(r, ctx, h, h.node, f"rate helper: {len(hit)} outcomes for {val}")
                continue
            e = hit[0]
            if val["dur<=0"]:
                if e.kind != "raise" or not exc_is(ctx, exc_name(e.value), "builtins.ValueError"):
                    fail(r_guards, ctx, h, e.node, "an interval of non-positive length must raise ValueError (a zero-length interval would "
                                                   f"otherwise divide by zero); found {e.kind}")
                continue
            r.inst(f"{h.name}: count / duration")
            if e.kind != "ret":
                fail(r, ctx, h, e.node, f"a positive interval must yield a rate; found raise {exc_name(e.value)}")
                continue
            v = e.value
            ok = v[0] == "binop" and v[1] == "/" and match(DUR, v[3]) is not None and any(match(c, v[2]) is not None for c in COUNTS)
            if not ok:
                fail(r, ctx, h, e.node, "the rate must be (number of events with start <= e.timestamp <= end, both ends closed, on the "
                                        "start time) / (end - start).total_seconds(); found " + show(v)[:300])
        for e in s.effects:
            fail(r, ctx, h, e.node, f"the rate helper has a side effect ({e.kind} {e.key if isinstance(e.key, str) else ''} on {show(e.target)[:60]}): a "
                                    f"read-only query must not touch the chart's lists")
