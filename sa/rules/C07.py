"""C07 -- instrument-section lines are recognised and decoded exactly."""
from ..match import H
from .decode import check_event_fields, check_from_chart_line
from .dispatch import check_dispatcher, check_track_sections, kinds_of
from .lang import check_line_recogniser

LEVEL = "proof"
KINDS = ["chartparse.instrument.NoteEvent.ParsedData", "chartparse.instrument.StarPowerEvent.ParsedData",
         "chartparse.instrument.TrackEvent.ParsedData"]


def run(ctx, rep):
    rep.explanation = (
        "Each shipped recogniser (pattern constant folded from source, method read at its use site) is converted to an "
        "automaton over an exact finite atom alphabet; decided for ALL strings: Canon ⊆ L ⊆ Upper (inclusion by product "
        "with the complement), capture exactness under backtracking priority (determinised ordered-thread product with the "
        "unambiguous tagged specification), group content languages ⊆ domain of the conversion applied; the conversion "
        "chain group -> ParsedData field -> event field is term-matched closed-world (no other condition, no effect).")
    rep.trusted += ["re._parser (stdlib) as the regex front end", "ordered-thread simulation == sre backtracking for patterns without "
                    "back-references/look-around/empty loops (validated against re in selftest/rx_validate.py)",
                    "atom-partition lemma (sa/rx/alphabet.py)"]
    r0 = rep.rule("decode", "from_chart_line: not matched -> RegexNotMatchError; matched -> fields = conversions of the groups; nothing else", floor=3)
    rl = rep.rule("language", "Canon ⊆ L(shipped) ⊆ Upper for N / S / E", floor=6)
    rc = rep.rule("capture", "winning parse captures exactly the written tick / index / length / word", floor=3)
    rg = rep.rule("groups", "numeric groups ⊆ \\d+ (int total), index group ⊆ [0-7] = NoteTrackIndex values, unpack arity", floor=8)
    for cq in KINDS:
        info = check_from_chart_line(ctx, r0, cq)
        if info is not None:
            check_line_recogniser(ctx, cq, info, rl, rc, rg)
    # index group values are exactly the enum's values
    tab = ctx.fold.enum_table(ctx.cls("chartparse.instrument.NoteTrackIndex"))
    vals = sorted(v for n, v in tab.primaries() if isinstance(v, int))
    rg.inst(f"NoteTrackIndex values = {vals}")
    if vals != list(range(8)):
        from .lib import fail
        c = ctx.cls("chartparse.instrument.NoteTrackIndex")
        fail(rg, ctx, c, c.node, f"NoteTrackIndex values {vals} are not exactly 0..7: NoteTrackIndex(int(index)) is not total on [0-7]")
    rf = rep.rule("fields", "ParsedData -> event: sustain = data.sustain, value = data.value (tick: stamp-site rule)", floor=2)
    D = lambda d: d  # noqa: E731
    check_event_fields(ctx, rf, "chartparse.instrument.SpecialEvent", {"sustain": lambda d: ("attr", d, "sustain"), "tick": lambda d: ("attr", d, "tick")})
    check_event_fields(ctx, rf, "chartparse.instrument.TrackEvent", {"value": lambda d: ("attr", d, "value"), "tick": lambda d: ("attr", d, "tick")})
    rs = rep.rule("route", "instrument sections hand their own lines to exactly these three kinds; one datum per claimed line", floor=2)
    check_track_sections(ctx, rs, "instrument")
    check_dispatcher(ctx, rs)
    c, pf, order, idx, pcall = kinds_of(ctx, "instrument")
    if pf is None:
        pf = c.find_method("from_chart_lines") or c
    rs.inst(f"instrument kinds tried: {order}")
    if order is not None and sorted(order) != sorted(KINDS):
        from .lib import fail
        fail(rs, ctx, pf, pf.node, f"instrument sections try kinds {order}; expected exactly the note, star-power and track-event recognisers")
    rch = rep.rule("chain", "file -> lines (read().splitlines(), utf-8-sig) -> framing -> section route -> dispatcher -> builders: every link "
                            "hands the lines on unchanged", floor=10)
    from .chain import check_chain
    check_chain(ctx, rch, "instrument", strict=True)
    rfo = rep.rule("folds", "each kind's data are folded datum by datum, in order, by that kind's own builder with its predecessor and the tempo map", floor=6)
    from .timing import Timing as _T
    _T(ctx).check_folds(rfo)
