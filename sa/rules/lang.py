"""lang -- specification languages (DESIGN appendix A.2) and the automata obligations over the shipped
recognisers.  The specification regexes below come from the property statements and the .chart file format,
never from the source; they are parsed by the same front end and checked unambiguous before use."""
from __future__ import annotations

import ast
from typing import Any, Optional

from .. import rx
from ..context import Ctx
from ..report import AnalysisError, Rule
from .lib import fail

b = r"[ \t]"
D = r"[0-9]"

# kind -> (canonical tagged language (fullmatch), upper language (fullmatch), {spec group: impl group})
LINE_SPECS = {
    "chartparse.instrument.NoteEvent.ParsedData": (
        rf"{b}*(?P<tick>{D}+) = N (?P<idx>[0-7]) (?P<sus>{D}+){b}*",
        r"\s*\d+ = N [0-7] \d+\s*\n?",
        {"tick": 1, "idx": 2, "sus": 3}, {1: r"\d+", 2: r"[0-7]", 3: r"\d+"}),
    "chartparse.instrument.StarPowerEvent.ParsedData": (
        rf"{b}*(?P<tick>{D}+) = S 2 (?P<sus>{D}+){b}*",
        r"\s*\d+ = S 2 \d+\s*\n?",
        {"tick": 1, "sus": 2}, {1: r"\d+", 2: r"\d+"}),
    "chartparse.instrument.TrackEvent.ParsedData": (
        rf"{b}*(?P<tick>{D}+) = E (?P<value>[^\s]+){b}*",
        r"\s*\d+ = E [^ ]*\s*\n?",
        {"tick": 1, "value": 2}, {1: r"\d+", 2: r"[^ ]*"}),
    "chartparse.sync.BPMEvent.ParsedData": (
        rf"{b}*(?P<tick>{D}+) = B (?P<raw>{D}+){b}*",
        r"\s*\d+ = B \d+\s*\n?",
        {"tick": 1, "raw": 2}, {1: r"\d+", 2: r"\d+"}),
    "chartparse.sync.TimeSignatureEvent.ParsedData": (
        rf"{b}*(?P<tick>{D}+) = TS (?P<upper>{D}+)(?: (?P<lower>{D}+))?{b}*",
        r"\s*\d+ = TS \d+(?: \d+)?\s*\n?",
        {"tick": 1, "upper": 2, "lower": 3}, {1: r"\d+", 2: r"\d+", 3: r"\d+"}),
    "chartparse.sync.AnchorEvent.ParsedData": (
        rf"{b}*(?P<tick>{D}+) = A (?P<us>{D}+)",
        r"\s*\d+ = A \d+\n?",
        {"tick": 1, "us": 2}, {1: r"\d+", 2: r"\d+"}),
    "chartparse.globalevents.TextEvent.ParsedData": (
        rf'{b}*(?P<tick>{D}+) = E "(?P<value>[^"\n]*)"{b}*',
        r'\s*\d+ = E "[^"]*"\s*\n?',
        {"tick": 1, "value": 2}, {1: r"\d+"}),
    "chartparse.globalevents.SectionEvent.ParsedData": (
        rf'{b}*(?P<tick>{D}+) = E "section (?P<value>[^\n]*)"{b}*',
        r'\s*\d+ = E "section [^\n]*"\s*\n?',
        {"tick": 1, "value": 2}, {1: r"\d+"}),
    "chartparse.globalevents.LyricEvent.ParsedData": (
        rf'{b}*(?P<tick>{D}+) = E "lyric (?P<value>[^\n]*)"{b}*',
        r'\s*\d+ = E "lyric [^\n]*"\s*\n?',
        {"tick": 1, "value": 2}, {1: r"\d+"}),
}

U_EVENT = rf'{b}*{D}+ = E "[^\n]*"{b}*'

_CACHE: dict = {}
IMPLS: list = []  # (pattern, method) of every shipped recogniser examined in this run (for model validation)


def P(pattern: str, method: str = "fullmatch") -> rx.Pattern:
    k = (pattern, method)
    if k not in _CACHE:
        _CACHE[k] = rx.Pattern(pattern, method)
    return _CACHE[k]


def impl_pattern(ctx: Ctx, r: Rule, where: Any, pattern: str, method: str) -> Optional[rx.Pattern]:
    try:
        p_ = P(pattern, method)
        if (pattern, method) not in IMPLS:
            IMPLS.append((pattern, method))
        return p_
    except rx.RxUnsupported as e:
        fail(r, ctx, where, getattr(where, "node", None), f"recogniser {pattern!r} uses a construct outside the analysed regular "
                                                         f"subset ({e}); its language cannot be decided")
    except Exception as e:  # re.error etc.
        fail(r, ctx, where, getattr(where, "node", None), f"recogniser {pattern!r} does not parse: {e}")
    return None


def check_line_recogniser(ctx: Ctx, cq: str, info: dict, r_lang: Rule, r_cap: Rule, r_grp: Rule,
                          only: Optional[set] = None) -> Optional[rx.Pattern]:
    """Canon ⊆ L ⊆ Upper, capture exactness, group contents, unpack arity -- for one line recogniser."""
    canon_s, upper_s, gmap, contents = LINE_SPECS[cq]
    short = cq.replace("chartparse.", "").replace(".ParsedData", "")
    f = info["func"]
    impl = impl_pattern(ctx, r_lang, f, info["pattern"], info["method"])
    if impl is None:
        return None
    canon, upper = P(canon_s), P(upper_s)
    amb = rx.ambiguity(canon, list(gmap))
    if amb is not None:
        raise AnalysisError(f"specification language for {short} is ambiguous on {amb!r}")
    if only is None or "canon" in only:
        r_lang.inst(f"{short}: Canon ⊆ L({info['pattern']!r}.{info['method']})")
        w = rx.included(canon, impl)
        if w is not None:
            fail(r_lang, ctx, f, f.node, f"the {short} recogniser {info['pattern']!r} (.{info['method']}) rejects the canonical line "
                                         f"{w!r}: such a line is silently dropped (reported as unparsable)", witness=w)
    if only is None or "upper" in only:
        r_lang.inst(f"{short}: L ⊆ Upper")
        w = rx.included(impl, upper)
        if w is not None:
            fail(r_lang, ctx, f, f.node, f"the {short} recogniser {info['pattern']!r} (.{info['method']}) accepts {w!r}, which is not a "
                                         f"line of this kind", witness=w)
    if only is None or "capture" in only:
        r_cap.inst(f"{short}: winning parse captures exactly the specified substrings on every canonical line")
        if impl.ngroups < max(gmap.values()):
            fail(r_cap, ctx, f, f.node, f"the {short} recogniser has {impl.ngroups} groups; {max(gmap.values())} are decoded")
        else:
            try:
                cw = rx.capture_exact(impl, canon, gmap)
            except rx.RxUnsupported as e:
                cw = None
                fail(r_cap, ctx, f, f.node, f"capture analysis unsupported for {info['pattern']!r}: {e}")
            if cw is not None:
                fail(r_cap, ctx, f, f.node, f"on the canonical line {cw.string!r} the {short} recogniser {info['pattern']!r} captures "
                                            f"{cw.got} where {cw.want} is written", witness=cw.string)
    if only is None or "groups" in only:
        for g, lang in sorted(contents.items()):
            r_grp.inst(f"{short}: group {g} ⊆ {lang}")
            if g > impl.ngroups:
                continue
            gw = rx.group_contents_included(impl, g, P(lang))
            if gw is not None:
                fail(r_grp, ctx, f, f.node, f"group {g} of the {short} recogniser can capture {gw[1]!r} (line {gw[0]!r}), outside {lang}: "
                                            f"the conversion applied to it is not total / not value-preserving", witness=gw[0])
        # unpack arity
        r_grp.inst(f"{short}: groups() unpack arity = {impl.ngroups}")
        for n in ast.walk(f.node):
            if isinstance(n, ast.Assign) and isinstance(n.value, ast.Call) and isinstance(n.value.func, ast.Attribute) \
                    and n.value.func.attr == "groups" and isinstance(n.targets[0], ast.Tuple):
                k = len(n.targets[0].elts)
                if k != impl.ngroups and not any(isinstance(e, ast.Starred) for e in n.targets[0].elts):
                    fail(r_grp, ctx, f, n, f"m.groups() is unpacked into {k} names but the recogniser has {impl.ngroups} groups "
                                           f"(ValueError on every matching line)")
    return impl


def check_pairwise_disjoint(ctx: Ctx, r: Rule, impls: list, where: Any, what: str) -> None:
    """impls: [(name, rx.Pattern)]"""
    for i in range(len(impls)):
        for j in range(i + 1, len(impls)):
            (n1, p1), (n2, p2) = impls[i], impls[j]
            r.inst(f"{what}: L({n1}) ∩ L({n2}) = ∅")
            if p1 is None or p2 is None:
                continue
            w = rx.disjoint(p1, p2)
            if w is not None:
                fail(r, ctx, where, getattr(where, "node", None),
                     f"the string {w!r} is claimed by both {n1} and {n2}: the outcome depends on the order in which kinds are "
                     f"tried / one field's line feeds another field", witness=w)
