"""C04 -- strum / HOPO / tap state follows the natural-HOPO rule and flags."""
from .notes import Notes
from .tables import check_note_duration

LEVEL = "other"


def run(ctx, rep):
    rep.explanation = (
        "The HOPO function is turned into a complete decision table over six uninterpreted atoms (tap, forced, first note, "
        "within threshold, differs, chord) by path enumeration over its guarded exits; the 2^6 valuations (48 constrained "
        "rows) are compared with the specification table.  Each atom's *definition* is checked on the term: inclusive <=, "
        "round(resolution / 3) with the divisor folded from NoteDuration, != on notes, chord = popcount > 1 folded over all 32 "
        "notes; flag collection is any(...) over the whole tick group; arguments at the single call site are the group's "
        "own tick / note / predecessor and the tempo map's resolution.")
    rep.trusted += ["round(r/3) is the nearest integer for every integer r (r/3 is never a half-integer)"]
    N = Notes(ctx)
    rt = rep.rule("table", "decision table of the HOPO function equals the specification for every valuation", floor=40)
    ra = rep.rule("atoms", "each condition the outcome depends on is one of the six specified atoms, exactly", floor=6)
    rw = rep.rule("wiring", "call site passes resolution, own tick, own note, any(TAP), any(FORCED), predecessor", floor=1)
    N.check_hopo(rt, ra, rw)
    rg = rep.rule("predecessor", "predecessor handed to each group is the last appended note event (S1 contract)", floor=1)
    N.check_grouping(rg)
    rd = rep.rule("duration", "NoteDuration.EIGHTH_TRIPLET folds to 3 and the threshold helper is round(resolution / value)", floor=1)
    check_note_duration(ctx, rd)
    ri = rep.rule("index-table", "TAP and FORCED are the file format's indices 6 and 5", floor=7)
    N.check_index_table(ri)
    rls = rep.rule("lanes", "the note compared with its predecessor ('differs', 'chord') is the note the tick's lines write: lane store per "
                            "datum, Note table = {0,1}^5, note computed from the whole group", floor=34)
    N.check_lane_store(rls)
    N.check_note_table(rls)
    N.check_note_wiring(rls)
    rsrc = rep.rule("sources", "the threshold's resolution is this chart's: resolution = metadata.resolution; every builder receives this "
                               "chart's tempo map (no default, no memo across charts)", floor=8)
    from .wiring import check_all_sections, check_from_file_wiring
    from .timing import Timing
    check_from_file_wiring(ctx, rsrc)
    check_all_sections(ctx, rsrc, strict=False)
    Timing(ctx).check_folds(rsrc)
    rrf = rep.rule("resolution-field", "the resolution every tick-to-time conversion and tick distance uses is the integer written on "
                                       "the [Song] Resolution line (converter int, digits-only capture)", floor=3)
    from .C15 import check_resolution_field
    check_resolution_field(ctx, rrf)
    rch = rep.rule("chain", "file -> lines (read().splitlines(), utf-8-sig) -> framing -> section route -> dispatcher -> builders: every link "
                            "hands the lines on unchanged", floor=10)
    from .chain import check_chain
    check_chain(ctx, rch, "instrument", strict=True, recognisers=("chartparse.instrument.NoteEvent.ParsedData",))
    rh = rep.rule("states", "HOPOState has three distinct members STRUM / HOPO / TAP (no aliasing)", floor=3)
    hc = ctx.cls("chartparse.instrument.HOPOState")
    tab = ctx.fold.enum_table(hc)
    from .lib import fail
    prim = {n for n, v in tab.primaries()}
    for n in ("STRUM", "HOPO", "TAP"):
        rh.inst(f"HOPOState.{n}", nontrivial=False)
        if n not in prim:
            fail(rh, ctx, hc, hc.node, f"HOPOState.{n} is missing or an alias of another state ({[(a, p) for a, v, p in tab.aliases()]}): two states would be "
                                       f"indistinguishable")
