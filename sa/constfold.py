"""constfold -- module/class initialisers as constants (DESIGN 3.B).

A partial evaluator over *terms* (see terms.py) for the pure subset used at import time.  It is
constant folding: every operand is a source literal or something folded from source literals; no
repository code runs.  Anything outside the subset raises NotConstant and the caller fails closed.
"""
from __future__ import annotations

import ast
import itertools
from dataclasses import dataclass, field
from typing import Any, Optional

from .report import AnalysisError
from .srcmodel import ClassInfo, Program
from .terms import Evaluator, Env, State, _FuncEval, bind_args, show


class NotConstant(Exception):
    pass


@dataclass(frozen=True)
class EnumMember:
    cls: str
    name: str  # canonical (primary) name
    value: Any

    def __repr__(self) -> str:
        return f"{self.cls.rsplit('.', 1)[-1]}.{self.name}"


@dataclass(frozen=True)
class Regex:
    pattern: str
    flags: int = 0

    def __repr__(self) -> str:
        return f"re.compile({self.pattern!r})"


@dataclass(frozen=True)
class Opaque:
    what: str

    def __repr__(self) -> str:
        return f"<opaque {self.what}>"


class FoldedObject:
    """An instance whose __init__ only assigns self.x = <foldable>."""

    def __init__(self, cls: str, attrs: dict) -> None:
        self.cls = cls
        self.attrs = attrs

    def __repr__(self) -> str:
        return f"<{self.cls.rsplit('.', 1)[-1]} {self.attrs}>"


@dataclass
class Callable_:
    term: tuple  # ('builtin', 'int') | ('closure', qual, envid) | ('func', qual) | ('class', qual)

    def __repr__(self) -> str:
        return f"<callable {show(self.term)}>"

    def __hash__(self) -> int:
        return hash(self.term[:2])

    def __eq__(self, o) -> bool:
        return isinstance(o, Callable_) and o.term[:2] == self.term[:2]


@dataclass
class EnumTable:
    cls: str
    rows: list  # [(name, value, is_alias, primary_name)]
    non_constant: list  # member names whose value did not fold

    def primaries(self) -> list:
        return [(n, v) for n, v, a, p in self.rows if not a]

    def aliases(self) -> list:
        return [(n, v, p) for n, v, a, p in self.rows if a]

    def by_name(self, name: str) -> EnumMember:
        for n, v, a, p in self.rows:
            if n == name:
                return EnumMember(self.cls, p, v)
        raise NotConstant(f"{self.cls} has no member {name}")

    def by_value(self, value: Any) -> Optional[EnumMember]:
        for n, v, a, p in self.rows:
            if not a and v == value and type(v) is type(value):
                return EnumMember(self.cls, n, v)
        for n, v, a, p in self.rows:
            if not a and v == value:
                return EnumMember(self.cls, n, v)
        return None

    def members(self) -> list:
        return [EnumMember(self.cls, n, v) for n, v in self.primaries()]


class Folder:
    def __init__(self, ev: Evaluator) -> None:
        self.ev = ev
        self.prog: Program = ev.prog
        self._enum: dict = {}
        self.steps = 0

    # ------------------------------------------------------------------ enums
    def enum_table(self, c: ClassInfo) -> EnumTable:
        if c.qual in self._enum:
            return self._enum[c.qual]
        if not c.is_enum():
            raise NotConstant(f"{c.qual} is not an Enum")
        rows = []
        noncst = []
        seen: list = []
        for k in reversed(c.pkg_mro()):
            for name in k.body_order:
                v, a, ln = k.body_assigns[name]
                if v is None:
                    continue  # annotation only
                if name.startswith("_") or name in k.methods:
                    continue
                fe = _FuncEval(self.ev, None, {}, None, 0, module=k.module, cls_body=k)
                t = fe.expr(v, State(Env(), ()))
                try:
                    val = self.fold(t)
                except NotConstant as e:
                    val = Opaque(f"{name}: {e}")
                if isinstance(val, Opaque):
                    noncst.append(name)
                primary = None
                for pn, pv in seen:
                    if pv == val and type(pv) is type(val) and not isinstance(val, Opaque):
                        primary = pn
                        break
                if primary is None:
                    seen.append((name, val))
                    rows.append((name, val, False, name))
                else:
                    rows.append((name, val, True, primary))
        tab = EnumTable(c.qual, rows, noncst)
        self._enum[c.qual] = tab
        return tab

    # ------------------------------------------------------------------ terms
    def fold(self, t: Any, depth: int = 0, bindings: Optional[dict] = None) -> Any:
        self.steps += 1
        if self.steps > 200000 or depth > 40:
            raise NotConstant("fold budget exceeded")
        if not isinstance(t, tuple) or not t or not isinstance(t[0], str):
            raise NotConstant(f"not a term: {t!r}")
        k = t[0]
        f = lambda x: self.fold(x, depth + 1, bindings)  # noqa: E731
        if k == "const":
            return t[1]
        if k == "val":
            return t[1]
        if k == "bv":
            if bindings is not None and t[1] in bindings:
                return bindings[t[1]]
            raise NotConstant(f"unbound comprehension variable {t[1]}")
        if k == "enum":
            c = self.prog.classes.get(t[1])
            if c is None:
                raise NotConstant(f"unknown enum {t[1]}")
            return self.enum_table(c).by_name(t[2])
        if k == "class":
            return Callable_(t)
        if k == "clsparam":
            return Callable_(("class", t[1]))
        if k in ("builtin", "func", "closure", "ext", "newtype", "boundcls"):
            return Callable_(t)
        if k == "cattr":
            c = self.prog.classes.get(t[1])
            if c is None:
                raise NotConstant(f"unknown class {t[1]}")
            v = self.ev.class_attr_value(c, t[2])
            if v is None or v == t:
                raise NotConstant(f"class attribute {t[1]}.{t[2]} has no foldable value")
            return f(v)
        if k == "gvar":
            mod, _, name = t[1].rpartition(".")
            m = self.prog.modules.get(mod)
            if m is None or name not in m.assigns:
                raise NotConstant(f"unknown global {t[1]}")
            v = self.ev.global_value(m, name)
            if v == t:
                raise NotConstant(f"global {t[1]} has no foldable value")
            return f(v)
        if k == "attr":
            base = f(t[1])
            return self.getattr(base, t[2])
        if k == "binop":
            a, b = f(t[2]), f(t[3])
            return self.binop(t[1], a, b)
        if k == "unop":
            a = f(t[2])
            return -a if t[1] == "-" else ~a
        if k == "not":
            return not f(t[1])
        if k == "and":
            r: Any = True
            for x in t[1]:
                r = f(x)
                if not r:
                    return r
            return r
        if k == "or":
            r = False
            for x in t[1]:
                r = f(x)
                if r:
                    return r
            return r
        if k == "cmp":
            a, b = f(t[2]), f(t[3])
            return self.cmp(t[1], a, b)
        if k == "ite":
            return f(t[2]) if f(t[1]) else f(t[3])
        if k == "tuple":
            return tuple(f(x) for x in t[1])
        if k == "list":
            return [f(x) for x in t[1]]
        if k == "set":
            return set(f(x) for x in t[1])
        if k == "dict":
            return {self._hashable(f(a)): f(b) for a, b in t[1]}
        if k == "sub":
            base = f(t[1])
            if t[2][0] == "slice":
                lo, hi, st = (f(x) for x in t[2][1:])
                return base[slice(lo, hi, st)]
            idx = f(t[2])
            try:
                return base[idx]
            except Exception as e:
                raise NotConstant(f"subscript failed: {e}")
        if k == "proj":
            base = f(t[1])
            try:
                return base[t[2]]
            except Exception as e:
                raise NotConstant(f"projection failed: {e}")
        if k == "fstr":
            out = []
            for p in t[1]:
                if p[0] == "const":
                    out.append(p[1])
                else:
                    v = f(p[1])
                    spec = f(p[3]) if p[3][0] != "const" else p[3][1]
                    if p[2] == ord("r"):
                        v = repr(v)
                    elif p[2] == ord("s"):
                        v = str(v)
                    if not isinstance(v, (str, int, float, bool, type(None))):
                        raise NotConstant("f-string over non-primitive")
                    out.append(format(v, spec or ""))
            return "".join(out)
        if k == "comp":
            return self.comp(t, depth, bindings)
        if k == "call":
            return self.call(t, depth, bindings)
        if k == "typeobj":
            return Opaque(t[1])
        raise NotConstant(f"not foldable: {show(t)[:120]}")

    def _hashable(self, v: Any) -> Any:
        if isinstance(v, list):
            return tuple(v)
        return v

    def lift(self, v: Any) -> tuple:
        if isinstance(v, (int, float, str, bool, type(None))):
            return ("const", v)
        return ("val", v)

    def getattr(self, base: Any, name: str) -> Any:
        if isinstance(base, EnumMember):
            if name == "value":
                return base.value
            if name == "name":
                return base.name
            c = self.prog.classes.get(base.cls)
            if c is not None:
                m = c.find_method(name)
                if m is not None:
                    return Callable_(("boundval", m.qual, base))
        if isinstance(base, FoldedObject):
            if name in base.attrs:
                return base.attrs[name]
            c = self.prog.classes.get(base.cls)
            if c is not None:
                v = self.ev.class_attr_value(c, name)
                if v is not None:
                    return self.fold(v)
        if isinstance(base, Callable_) and base.term[0] == "class":
            c = self.prog.classes.get(base.term[1])
            if c is not None:
                if name == "__name__":
                    return c.name
                if c.is_enum():
                    try:
                        return self.enum_table(c).by_name(name)
                    except NotConstant:
                        pass
                v = self.ev.class_attr_value(c, name)
                if v is not None:
                    return self.fold(v)
                if name in c.nested:
                    return Callable_(("class", c.nested[name].qual))
        if isinstance(base, Regex) and name == "pattern":
            return base.pattern
        raise NotConstant(f"attribute {name} of {base!r}")

    def binop(self, op: str, a: Any, b: Any) -> Any:
        ok = (int, float, str, bool, tuple, list)
        if not isinstance(a, ok) or not isinstance(b, ok):
            raise NotConstant(f"binop {op} over {type(a).__name__}/{type(b).__name__}")
        try:
            if op == "+":
                return a + b
            if op == "-":
                return a - b
            if op == "*":
                return a * b
            if op == "/":
                return a / b
            if op == "//":
                return a // b
            if op == "%":
                return a % b
            if op == "**":
                if isinstance(b, (int, float)) and abs(b) > 4096:
                    raise NotConstant("exponent too large")
                return a ** b
            if op == "|":
                return a | b
            if op == "&":
                return a & b
        except NotConstant:
            raise
        except Exception as e:
            raise NotConstant(f"binop failed: {e}")
        raise NotConstant(f"binop {op}")

    def cmp(self, op: str, a: Any, b: Any) -> Any:
        try:
            if op == "==":
                return a == b
            if op == "<":
                return a < b
            if op == "<=":
                return a <= b
            if op == "is":
                if a is None or b is None:
                    return a is b
                return a == b and type(a) is type(b)
            if op == "in":
                return a in b
        except Exception as e:
            raise NotConstant(f"cmp failed: {e}")
        raise NotConstant(f"cmp {op}")

    def comp(self, t: tuple, depth: int, bindings: Optional[dict]) -> Any:
        kind, elt, gens = t[1], t[2], t[3]
        results: list = []

        def rec(i: int, b: dict) -> None:
            if i == len(gens):
                results.append(self.fold(elt, depth + 1, b))
                return
            bv, it, conds = gens[i]
            seq = self.iterate(self.fold(it, depth + 1, b))
            for v in seq:
                b2 = dict(b)
                b2[bv[1]] = v
                if all(self.fold(c, depth + 1, b2) for c in conds):
                    rec(i + 1, b2)

        rec(0, dict(bindings or {}))
        if kind == "dict":
            return {self._hashable(k): v for k, v in results}
        if kind == "set":
            return set(results)
        return results

    def iterate(self, v: Any) -> list:
        if isinstance(v, Callable_) and v.term[0] == "class":
            c = self.prog.classes.get(v.term[1])
            if c is not None and c.is_enum():
                return self.enum_table(c).members()
        if isinstance(v, (list, tuple, set, dict, str, range)):
            return list(v)
        raise NotConstant(f"not iterable: {v!r}")

    def call(self, t: tuple, depth: int, bindings: Optional[dict]) -> Any:
        fn = t[1]
        f = lambda x: self.fold(x, depth + 1, bindings)  # noqa: E731
        if fn[0] == "meth":
            recv = f(t[2][0])
            args = [f(x) for x in t[2][1:]]
            kwargs = {k: f(v) for k, v in t[3]}
            m = fn[1]
            if isinstance(recv, str) and m in ("format", "join", "lower", "upper", "strip", "title", "replace",
                                               "capitalize", "startswith", "endswith", "split", "rstrip", "lstrip"):
                try:
                    return getattr(recv, m)(*args, **kwargs)
                except Exception as e:
                    raise NotConstant(f"str.{m} failed: {e}")
            if isinstance(recv, dict) and m in ("keys", "values", "items", "get"):
                r = getattr(recv, m)(*args)
                return list(r) if m != "get" else r
            if isinstance(recv, (list, tuple)) and m in ("index", "count"):
                return getattr(recv, m)(*args)
            if isinstance(recv, FoldedObject) or (isinstance(recv, Callable_) and recv.term[0] == "class"):
                cq = recv.cls if isinstance(recv, FoldedObject) else recv.term[1]
                c = self.prog.classes.get(cq)
                mf = c.find_method(m) if c is not None else None
                if mf is not None:
                    la = [self.lift(a) for a in args]
                    lk = {k: self.lift(v) for k, v in kwargs.items()}
                    if mf.kind == "staticmethod":
                        return self.call_function(mf.qual, la, lk, depth)
                    if mf.kind == "classmethod":
                        return self.call_function(mf.qual, [("class", cq)] + la, lk, depth)
                    if isinstance(recv, FoldedObject):
                        return self.call_function(mf.qual, [self.lift(recv)] + la, lk, depth)
            cal = None
            try:
                cal = self.getattr(recv, m)
            except NotConstant:
                pass
            if isinstance(cal, Callable_) and cal.term[0] == "boundval":
                return self.call_function(cal.term[1], [self.lift(cal.term[2])] + [self.lift(a) for a in args], {}, depth)
            raise NotConstant(f"method {m} on {type(recv).__name__}")
        if fn[0] == "builtin":
            args = [f(x) for x in t[2]]
            name = fn[1]
            if name in ("int", "float", "str", "abs", "round", "len", "bool", "tuple", "sum", "min", "max", "list",
                        "sorted", "repr", "dict", "set", "frozenset", "divmod", "range", "enumerate", "zip", "any",
                        "all", "reversed"):
                import builtins

                if t[3]:
                    raise NotConstant("keyword arguments to builtin")
                try:
                    args = [self.iterate(a) if isinstance(a, Callable_) else a for a in args]
                    r = getattr(builtins, name)(*args)
                    if name in ("range", "enumerate", "zip", "reversed"):
                        r = list(r)
                    return r
                except NotConstant:
                    raise
                except Exception as e:
                    raise NotConstant(f"{name} failed: {e}")
            raise NotConstant(f"builtin {name}")
        if fn[0] == "ext":
            if fn[1] == "re.compile":
                pat = f(t[2][0])
                flags = 0
                if len(t[2]) > 1 or t[3]:
                    raise NotConstant("re.compile with flags")
                if not isinstance(pat, str):
                    raise NotConstant("re.compile of non-string")
                return Regex(pat, flags)
            if fn[1] == "itertools.product":
                seqs = [self.iterate(f(x)) for x in t[2]]
                return [tuple(x) for x in itertools.product(*seqs)]
            if fn[1] in ("typing.TypeVar", "typing.NewType"):
                return Opaque(fn[1])
            if fn[1] == "typing.get_args" and len(t[2]) == 1:
                a0 = t[2][0]
                if a0[0] == "gvar":
                    mod, _, name = a0[1].rpartition(".")
                    m_ = self.prog.modules.get(mod)
                    if m_ is not None and name in m_.assigns:
                        a0 = self.ev.global_value(m_, name)
                if a0[0] == "sub" and a0[1] == ("ext", "typing.Literal"):
                    v_ = f(a0[2])
                    return tuple(v_) if isinstance(v_, (tuple, list)) else (v_,)
                raise NotConstant("typing.get_args of a non-Literal")
            raise NotConstant(f"external call {fn[1]}")
        if fn[0] == "class":
            return self.construct(fn[1], t[2], dict(t[3]), depth, bindings)
        if fn[0] in ("func", "closure", "boundcls"):
            args = list(t[2])
            if fn[0] == "boundcls":
                args = [fn[2]] + args
            return self.call_function(fn[1], [self._relift(a, depth, bindings) for a in args],
                                      {k: self._relift(v, depth, bindings) for k, v in t[3]}, depth)
        raise NotConstant(f"call of {show(fn)}")

    def _relift(self, t: tuple, depth: int, bindings: Optional[dict]) -> tuple:
        try:
            return self.lift(self.fold(t, depth + 1, bindings))
        except NotConstant:
            return t

    def call_function(self, qual: str, args: list, kwargs: dict, depth: int) -> Any:
        fi = self.prog.functions.get(qual) or self.prog.lambdas.get(qual)
        if fi is None:
            raise NotConstant(f"unknown function {qual}")
        bound = bind_args(fi, args, kwargs)
        if bound is None:
            raise NotConstant(f"cannot bind arguments of {qual}")
        # 'val' terms are opaque to the evaluator but fold back
        sm = self.ev.evaluate(fi, bound, None, 1)
        if sm.loops or sm.unsupported:
            raise NotConstant(f"{qual} is not loop-free")
        # choose the exit whose path condition folds to true
        for e in sm.exits:
            ok = True
            for atom, pol in e.cond:
                try:
                    v = bool(self.fold(atom, depth + 1))
                except NotConstant:
                    ok = None
                    break
                if v != pol:
                    ok = False
                    break
            if ok is None:
                raise NotConstant(f"path condition of {qual} does not fold")
            if ok:
                if e.kind == "ret":
                    return self.fold(e.value, depth + 1)
                raise NotConstant(f"{qual} raises on these arguments")
        raise NotConstant(f"no exit of {qual} selected")

    def construct(self, qual: str, args: tuple, kwargs: dict, depth: int, bindings: Optional[dict]) -> Any:
        c = self.prog.classes.get(qual)
        if c is None:
            raise NotConstant(f"unknown class {qual}")
        if c.is_enum():
            if len(args) != 1:
                raise NotConstant("enum call arity")
            v = self.fold(args[0], depth + 1, bindings)
            m = self.enum_table(c).by_value(v)
            if m is None:
                raise NotConstant(f"{v!r} is not a value of {qual}")
            return m
        init = c.find_method("__init__")
        attrs: dict = {}
        if init is None:
            if c.is_dataclass():
                fields = c.dc_fields()
                for fld, a in zip(fields, args):
                    attrs[fld.name] = self.fold(a, depth + 1, bindings)
                for k, v in kwargs.items():
                    attrs[k] = self.fold(v, depth + 1, bindings)
                return FoldedObject(qual, attrs)
            raise NotConstant(f"{qual} has no __init__")
        largs = [("val", FoldedObject(qual, attrs))] + [self._relift(a, depth, bindings) for a in args]
        lkw = {k: self._relift(v, depth, bindings) for k, v in kwargs.items()}
        self._run_init(init, largs, lkw, attrs, depth)
        return FoldedObject(qual, attrs)

    def _run_init(self, init, largs: list, lkw: dict, attrs: dict, depth: int) -> None:
        if not largs:
            # canonical keyword form: the receiver is bound under the first parameter's name
            p0 = init.params()[0]
            lkw = dict(lkw)
            largs = [lkw.pop(p0)]
        bound = bind_args(init, largs, lkw)
        if bound is None:
            raise NotConstant(f"cannot bind arguments of {init.qual}")
        sm = self.ev.evaluate(init, bound, None, 1)
        if sm.loops or sm.unsupported:
            raise NotConstant(f"{init.qual} is not straight-line")
        selfterm = largs[0]
        # chained super().__init__ calls first (in call order), then own stores, approximating program order by
        # source position
        events = []
        for cr in sm.calls:
            if cr.fn[0] == "func" and cr.fn[1].endswith(".__init__") and not cr.inlined:
                f2 = self.prog.functions.get(cr.fn[1])
                recv = cr.args[0] if cr.args else (dict(cr.kwargs).get(f2.params()[0]) if f2 is not None else None)
                if recv == selfterm:
                    events.append((cr.node.lineno, cr.node.col_offset, "call", cr))
        for e in sm.effects:
            if e.kind == "store_attr" and e.target == selfterm:
                events.append((e.node.lineno, e.node.col_offset, "store", e))
            elif e.kind in ("store_attr", "store_sub", "mutcall", "aug_attr", "aug_sub", "global_store", "del"):
                raise NotConstant(f"{init.qual} has an effect outside self")
        for _, _, kind, x in sorted(events, key=lambda z: (z[0], z[1])):
            if kind == "call":
                f2 = self.prog.functions.get(x.fn[1])
                self._run_init(f2, list(x.args), dict(x.kwargs), attrs, depth + 1)
            else:
                v = self._subst_self(x.value, selfterm, attrs)
                attrs[x.key] = self.fold(v, depth + 1)

    def _subst_self(self, t: Any, selfterm: tuple, attrs: dict) -> Any:
        """Replace reads of self.<attr> by already-folded attribute values."""
        if not isinstance(t, tuple):
            return t
        if t and t[0] == "attr" and t[1] == selfterm and t[2] in attrs:
            return self.lift(attrs[t[2]])
        return tuple(self._subst_self(x, selfterm, attrs) for x in t)
