"""match -- term patterns, decision tables over uninterpreted atoms, small arithmetic normal forms.

Patterns are terms with holes:
  ('?', name)            binds a sub-term (same name = same term)
  ('?any',)              wildcard
  ('?or', p1, p2, ...)   alternatives
  ('?pred', fn)          fn(term) -> bool
  ('?sym', op, p1, p2)   ('binop'|'cmp', op, a, b) with operands in either order
Container terms carry an allocation-site id as last element; it is ignored when matching.
"""
from __future__ import annotations

from fractions import Fraction
from itertools import product
from typing import Any, Callable, Optional

from .terms import Term, literal, mk_not, show, subterms

SITE_KINDS = {"list": 2, "set": 2, "dict": 2}


def strip(t: Any) -> Any:
    """Remove allocation-site ids and closure env ids so that terms from different evaluations compare."""
    if not isinstance(t, tuple) or not t:
        return t
    if isinstance(t[0], str):
        if t[0] in SITE_KINDS and len(t) == 3:
            return (t[0], strip(t[1]))
        if t[0] == "closure" and len(t) == 3:
            return ("closure", t[1])
    return tuple(strip(x) for x in t)


def match(p: Any, t: Any, b: Optional[dict] = None) -> Optional[dict]:
    """Unify pattern p with term t; returns bindings or None."""
    if b is None:
        b = {}
    if isinstance(p, tuple) and p and isinstance(p[0], str):
        k = p[0]
        if k == "?":
            name = p[1]
            if name in b:
                return b if strip(b[name]) == strip(t) else None
            if len(p) > 2:
                r = match(p[2], t, b)
                if r is None:
                    return None
                b = r
            b = dict(b)
            b[name] = t
            return b
        if k == "?any":
            return b
        if k == "?or":
            for alt in p[1:]:
                r = match(alt, t, dict(b))
                if r is not None:
                    return r
            return None
        if k == "?pred":
            return b if p[1](t) else None
        if k == "?sym":
            if not (isinstance(t, tuple) and len(t) == 4 and t[0] in ("binop", "cmp") and t[1] == p[1]):
                return None
            r = match(p[2], t[2], dict(b))
            if r is not None:
                r = match(p[3], t[3], r)
                if r is not None:
                    return r
            r = match(p[2], t[3], dict(b))
            if r is not None:
                r = match(p[3], t[2], r)
            return r
    if isinstance(p, tuple):
        if not isinstance(t, tuple):
            return None
        pp, tt = p, t
        if pp and isinstance(pp[0], str) and pp[0] in SITE_KINDS:
            pp = pp[:2]
        if tt and isinstance(tt[0], str) and tt[0] in SITE_KINDS:
            tt = tt[:2]
        if pp and pp[0] == "closure":
            pp = pp[:2]
        if tt and tt[0] == "closure":
            tt = tt[:2]
        if len(pp) != len(tt):
            return None
        for x, y in zip(pp, tt):
            b = match(x, y, b)
            if b is None:
                return None
        return b
    return b if p == t else None


def H(name: str, sub: Any = None) -> tuple:
    return ("?", name) if sub is None else ("?", name, sub)


ANYP = ("?any",)


def find_all(p: Any, t: Any) -> list:
    """All (subterm, bindings) of t matching p."""
    out = []
    for s in subterms(t):
        r = match(p, s)
        if r is not None:
            out.append((s, r))
    return out


# --------------------------------------------------------------------------------------------------
# decision tables


class UnknownAtom(Exception):
    def __init__(self, term: Term) -> None:
        super().__init__(show(term))
        self.term = term


def eval_bool(t: Term, atoms: list, val: dict) -> bool:
    """Evaluate boolean structure t under a valuation of spec atoms.

    atoms: [(name, matcher)], matcher(term) -> True (term is the atom) | False (term is its negation) | None."""
    for name, m in atoms:
        r = m(t)
        if r is True:
            return val[name]
        if r is False:
            return not val[name]
    k = t[0]
    if k == "const":
        return bool(t[1])
    if k == "inloop":
        return True  # membership of the enclosing loop body: not a data condition
    if k == "not":
        return not eval_bool(t[1], atoms, val)
    if k == "and":
        return all(eval_bool(x, atoms, val) for x in t[1])
    if k == "or":
        return any(eval_bool(x, atoms, val) for x in t[1])
    if k == "cmp" and t[1] in ("==", "is"):
        try:
            return eval_bool(t[2], atoms, val) == eval_bool(t[3], atoms, val)
        except UnknownAtom:
            pass
    if k == "ite":
        return eval_bool(t[2], atoms, val) if eval_bool(t[1], atoms, val) else eval_bool(t[3], atoms, val)
    raise UnknownAtom(t)


def decision_table(exits: list, atoms: list, implied: Optional[Callable[[dict], bool]] = None):
    """For every valuation of the spec atoms: the list of exits whose path condition holds.

    Returns (rows, unknown) with rows = [(valuation dict, [exits])], unknown = list of atom terms that unify
    with no spec atom.  `implied(val)` may exclude inconsistent valuations."""
    names = [n for n, _ in atoms]
    rows = []
    unknown: list = []
    for bits in product([False, True], repeat=len(names)):
        val = dict(zip(names, bits))
        if implied is not None and not implied(val):
            continue
        hit = []
        for e in exits:
            ok = True
            for atom, pol in e.cond:
                try:
                    v = eval_bool(atom, atoms, val)
                except UnknownAtom as u:
                    if u.term not in unknown:
                        unknown.append(u.term)
                    ok = False
                    break
                if v != pol:
                    ok = False
                    break
            if ok:
                hit.append(e)
        rows.append((val, hit))
    return rows, unknown


def resolve_ite(t: Term, atoms: list, val: dict) -> Term:
    """Resolve ITE nodes of a value term under a valuation (conditions that are not spec atoms stay)."""
    if not isinstance(t, tuple) or not t:
        return t
    if t[0] == "ite":
        try:
            c = eval_bool(t[1], atoms, val)
            return resolve_ite(t[2] if c else t[3], atoms, val)
        except UnknownAtom:
            return ("ite", t[1], resolve_ite(t[2], atoms, val), resolve_ite(t[3], atoms, val))
    return tuple(resolve_ite(x, atoms, val) if isinstance(x, tuple) else x for x in t)


def is_atom(pattern: Any) -> Callable[[Term], Optional[bool]]:
    """Matcher for a positive atom pattern (its negation is recognised through ('not', ...))."""

    def m(t: Term) -> Optional[bool]:
        if match(pattern, t) is not None:
            return True
        if t[0] == "not" and match(pattern, t[1]) is not None:
            return False
        return None

    return m


# --------------------------------------------------------------------------------------------------
# arithmetic


class NotMonomial(Exception):
    pass


def monomial(t: Term, leaf: Callable[[Term], Optional[str]]):
    """(coefficient Fraction, {symbol: exponent}, n_float_ops) for a term built from * / and constants.

    leaf(term) -> symbol name for atomic operands (None = not a leaf)."""
    s = leaf(t)
    if s is not None:
        return Fraction(1), {s: 1}, 0
    if t[0] == "const" and isinstance(t[1], (int, float)) and not isinstance(t[1], bool):
        if isinstance(t[1], float) and not float(t[1]).is_integer() and Fraction(t[1]).denominator > 10**6:
            raise NotMonomial(f"inexact literal {t[1]}")
        return Fraction(t[1]), {}, 0
    if t[0] == "binop" and t[1] in ("*", "/"):
        c1, e1, n1 = monomial(t[2], leaf)
        c2, e2, n2 = monomial(t[3], leaf)
        e = dict(e1)
        if t[1] == "*":
            c = c1 * c2
            for k, v in e2.items():
                e[k] = e.get(k, 0) + v
        else:
            if c2 == 0:
                raise NotMonomial("division by zero literal")
            c = c1 / c2
            for k, v in e2.items():
                e[k] = e.get(k, 0) - v
        e = {k: v for k, v in e.items() if v != 0}
        return c, e, n1 + n2 + 1
    if t[0] == "call" and t[1] == ("builtin", "float") and len(t[2]) == 1:
        return monomial(t[2][0], leaf)
    raise NotMonomial(show(t))


def monotone(t: Term, var: Callable[[Term], bool], positive: Callable[[Term], bool]) -> Optional[str]:
    """'+' non-decreasing, '-' non-increasing, '0' independent, None unknown -- of t as a function of var,
    step by step through the float operations (each IEEE operation and round() is monotone)."""
    if var(t):
        return "+"
    if not any(var(s) for s in subterms(t)):
        return "0"
    k = t[0]
    flip = {"+": "-", "-": "+", "0": "0"}
    if k == "binop":
        a = monotone(t[2], var, positive)
        b = monotone(t[3], var, positive)
        if a is None or b is None:
            return None
        op = t[1]
        if op == "+":
            if a == "0":
                return b
            if b == "0" or a == b:
                return a
            return None
        if op == "-":
            fb = flip[b]
            if a == "0":
                return fb
            if fb == "0" or a == fb:
                return a
            return None
        if op == "*":
            if a == "0" and positive(t[2]):
                return b
            if b == "0" and positive(t[3]):
                return a
            if a == b == "+" and positive(t[2]) and positive(t[3]):
                return "+"
            return None
        if op == "/":
            if b == "0" and positive(t[3]):
                return a
            if a == "0" and positive(t[2]) and positive(t[3]):
                return flip[b]
            return None
        return None
    if k == "call" and t[1][0] == "builtin" and t[1][1] in ("round", "int", "float", "abs") and t[2]:
        if t[1][1] == "abs":
            return monotone(t[2][0], var, positive) if positive(t[2][0]) else None
        if any(any(var(s) for s in subterms(x)) for x in t[2][1:]):
            return None
        return monotone(t[2][0], var, positive)
    if k == "call" and t[1] == ("ext", "datetime.timedelta") and not t[2] and len(t[3]) == 1:
        return monotone(t[3][0][1], var, positive)
    return None


def affine(t: Term):
    """(base term | None, integer offset) for  x, x + c, c + x, x - c, c."""
    if t[0] == "const" and isinstance(t[1], int) and not isinstance(t[1], bool):
        return None, t[1]
    if t[0] == "binop" and t[1] in ("+", "-"):
        b1, c1 = affine(t[2])
        b2, c2 = affine(t[3])
        if t[1] == "+":
            if b1 is None:
                return b2, c1 + c2
            if b2 is None:
                return b1, c1 + c2
        else:
            if b2 is None:
                return b1, c1 - c2
        return t, 0
    return t, 0
