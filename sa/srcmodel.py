"""srcmodel -- the resolved program model (DESIGN 3.A).

Parses every module of the package from *source text* (never imports it) and resolves:
modules, imports by scope, top-level bindings, classes (nested ones included) with bases, C3 MRO,
decorators (dataclass keyword arguments folded), fields, methods with their kind, effective special
methods (dataclass semantics), and a type language derived from the repository's annotations.
"""
from __future__ import annotations

import ast
import os
from dataclasses import dataclass, field
from typing import Any, Iterator, Optional

from .report import AnalysisError


# --------------------------------------------------------------------------------------------------
# model objects


@dataclass
class ImportRec:
    form: str  # 'import' | 'from'
    module: str  # target module (dotted)
    names: list  # [(name, asname)]
    scope: str  # 'module' | 'type_checking' | 'function:<qual>'
    lineno: int


@dataclass
class FuncInfo:
    qual: str  # e.g. chartparse.sync.BPMEvents.timestamp_at_tick or ...build_events_from_data.<locals>.data_to_events
    name: str
    node: ast.AST  # FunctionDef | Lambda
    module: "ModuleInfo"
    cls: Optional["ClassInfo"]  # owning class if a method
    parent: Optional["FuncInfo"]  # enclosing function if nested
    kind: str  # 'function' | 'method' | 'classmethod' | 'staticmethod' | 'property' | 'cached_property'
    decorators: list  # dotted names of decorators
    is_overload: bool = False
    is_abstract: bool = False
    lru_cached: bool = False
    nested: dict = field(default_factory=dict)  # name -> FuncInfo (nested defs)
    nested_classes: dict = field(default_factory=dict)

    @property
    def lineno(self) -> int:
        return getattr(self.node, "lineno", 0)

    @property
    def file(self) -> str:
        return self.module.path

    def params(self) -> list:
        a = self.node.args
        return [x.arg for x in a.posonlyargs + a.args] + ([a.vararg.arg] if a.vararg else []) + [
            x.arg for x in a.kwonlyargs
        ] + ([a.kwarg.arg] if a.kwarg else [])

    def __hash__(self) -> int:
        return hash(self.qual)

    def __eq__(self, o: object) -> bool:
        return isinstance(o, FuncInfo) and o.qual == self.qual

    def __repr__(self) -> str:
        return f"<Func {self.qual}>"


@dataclass
class FieldInfo:
    name: str
    annotation: Optional[ast.AST]
    default: Optional[ast.AST]
    lineno: int
    is_classvar: bool
    owner: "ClassInfo"


@dataclass
class ClassInfo:
    qual: str
    name: str
    node: ast.ClassDef
    module: "ModuleInfo"
    outer: Optional["ClassInfo"]
    outer_func: Optional[FuncInfo]
    base_exprs: list
    bases: list = field(default_factory=list)  # resolved: ClassInfo | str (external dotted name)
    mro: list = field(default_factory=list)  # ClassInfo | str
    decorators: list = field(default_factory=list)  # [(dotted, {kw: const})]
    dataclass_args: Optional[dict] = None  # None if not decorated with dataclass
    body_assigns: dict = field(default_factory=dict)  # name -> (value ast | None, annotation ast | None, lineno) in order
    body_order: list = field(default_factory=list)  # names in order of (first) binding
    methods: dict = field(default_factory=dict)  # name -> FuncInfo (last non-overload definition)
    nested: dict = field(default_factory=dict)  # name -> ClassInfo

    def __hash__(self) -> int:
        return hash(self.qual)

    def __eq__(self, o: object) -> bool:
        return isinstance(o, ClassInfo) and o.qual == self.qual

    def __repr__(self) -> str:
        return f"<Class {self.qual}>"

    @property
    def file(self) -> str:
        return self.module.path

    @property
    def lineno(self) -> int:
        return self.node.lineno

    # ---- hierarchy helpers
    def pkg_mro(self) -> list:
        return [c for c in self.mro if isinstance(c, ClassInfo)]

    def ext_bases(self) -> list:
        return [c for c in self.mro if isinstance(c, str)]

    def is_subclass_of(self, other: "ClassInfo | str") -> bool:
        return other in self.mro

    def is_enum(self) -> bool:
        return any(isinstance(b, str) and b in ("enum.Enum", "enum.IntEnum", "enum.Flag") for b in self.mro)

    def is_exception(self) -> bool:
        return any(isinstance(b, str) and b.startswith("builtins.") and b.endswith(("Error", "Exception"))
                   for b in self.mro)

    def find_method(self, name: str) -> Optional[FuncInfo]:
        for c in self.pkg_mro():
            if name in c.methods:
                return c.methods[name]
        return None

    def find_attr(self, name: str):
        """(owner class, value ast, annotation ast) of a class-level attribute through the MRO."""
        for c in self.pkg_mro():
            if name in c.body_assigns:
                v, a, ln = c.body_assigns[name]
                if v is not None:
                    return c, v, a
        return None

    def find_annotation(self, name: str):
        for c in self.pkg_mro():
            if name in c.body_assigns:
                v, a, ln = c.body_assigns[name]
                if a is not None:
                    return c, a
        return None

    # ---- dataclass semantics
    def is_dataclass(self) -> bool:
        return any(c.dataclass_args is not None for c in self.pkg_mro())

    def dc_fields(self) -> list:
        """Dataclass fields in definition order through the MRO (base first), later overrides win."""
        out: dict = {}
        for c in reversed(self.pkg_mro()):
            if c.dataclass_args is None:
                continue
            for n in c.body_order:
                v, a, ln = c.body_assigns[n]
                if a is None:
                    continue
                if _ann_is_classvar(a):
                    continue
                out[n] = FieldInfo(n, a, v, ln, False, c)
        return list(out.values())

    def frozen(self) -> bool:
        """Effective frozen-ness: some class in the MRO was created by dataclass(frozen=True).

        dataclasses forbid mixing frozen and non-frozen in one hierarchy of *dataclass-decorated*
        classes; a plain (undecorated) subclass inherits the raising __setattr__."""
        for c in self.pkg_mro():
            if "__setattr__" in c.methods:
                return False  # user-defined setattr shadows
            if c.dataclass_args is not None:
                return bool(c.dataclass_args.get("frozen", False))
        return False

    def effective_special(self, name: str) -> tuple:
        """Who provides __eq__/__repr__/__hash__: ('dataclass', cls) | ('method', FuncInfo) | ('object', None)."""
        for c in self.pkg_mro():
            if name in c.methods:
                return ("method", c.methods[name])
            if c.dataclass_args is not None:
                a = c.dataclass_args
                if name == "__eq__" and a.get("eq", True):
                    return ("dataclass", c)
                if name == "__repr__" and a.get("repr", True):
                    return ("dataclass", c)
                if name == "__hash__":
                    if a.get("eq", True) and a.get("frozen", False):
                        return ("dataclass", c)
                    if a.get("eq", True) and not a.get("unsafe_hash", False):
                        return ("none", c)
        return ("object", None)


def _ann_is_classvar(a: ast.AST) -> bool:
    s = ast.unparse(a) if not isinstance(a, ast.Constant) else str(a.value)
    s = s.replace(" ", "")
    return s.startswith(("typ.ClassVar", "typing.ClassVar", "ClassVar", "t.ClassVar"))


def _ann_is_final(a: ast.AST) -> bool:
    s = ast.unparse(a).replace(" ", "")
    return s.startswith(("typ.Final", "typing.Final", "Final"))


@dataclass
class ModuleInfo:
    name: str  # chartparse.sync
    path: str
    tree: ast.Module
    source: str
    future_annotations: bool
    imports: list = field(default_factory=list)  # ImportRec
    # name -> ('module', dotted) | ('from', module, name) for module-level imports (TYPE_CHECKING ones too)
    import_names: dict = field(default_factory=dict)
    type_checking_names: set = field(default_factory=set)
    assigns: dict = field(default_factory=dict)  # module-level name -> (value ast, annotation ast|None, lineno)
    assign_order: list = field(default_factory=list)
    functions: dict = field(default_factory=dict)  # name -> FuncInfo (top level; last non-overload)
    classes: dict = field(default_factory=dict)  # name -> ClassInfo (top level)
    lines: list = field(default_factory=list)

    def text(self, node: ast.AST) -> str:
        return ast.get_source_segment(self.source, node) or ast.unparse(node)


# --------------------------------------------------------------------------------------------------


EXTERNAL_ALIASES = {
    "typ": "typing",
}


class Program:
    """All modules of one package, resolved."""

    def __init__(self, root: str, package: str = "chartparse") -> None:
        self.root = root
        self.package = package
        self.pkg_dir = os.path.join(root, package)
        self.modules: dict[str, ModuleInfo] = {}
        self.classes: dict[str, ClassInfo] = {}
        self.functions: dict[str, FuncInfo] = {}
        self.lambdas: dict = {}
        if not os.path.isdir(self.pkg_dir):
            raise AnalysisError(f"package directory {self.pkg_dir} not found")
        files = sorted(f for f in os.listdir(self.pkg_dir) if f.endswith(".py"))
        if not files:
            raise AnalysisError(f"no python sources under {self.pkg_dir}")
        for f in files:
            self._load(os.path.join(self.pkg_dir, f))
        for sub in sorted(os.listdir(self.pkg_dir)):
            p = os.path.join(self.pkg_dir, sub)
            if os.path.isdir(p) and os.path.exists(os.path.join(p, "__init__.py")):
                raise AnalysisError(f"sub-package {sub} is outside the analysed subset (flat package expected)")
        for m in self.modules.values():
            self._collect(m)
        for c in list(self.classes.values()):
            self._resolve_class(c)
        for c in list(self.classes.values()):
            self._mro(c)

    # ---------------------------------------------------------------- loading
    def _load(self, path: str) -> None:
        src = open(path, encoding="utf-8").read()
        try:
            tree = ast.parse(src, filename=path)
        except SyntaxError as e:  # the variant must still compile; otherwise analysis-broken
            raise AnalysisError(f"{path}: syntax error {e}")
        base = os.path.basename(path)[:-3]
        name = self.package if base == "__init__" else f"{self.package}.{base}"
        fut = any(
            isinstance(s, ast.ImportFrom) and s.module == "__future__" and any(a.name == "annotations" for a in s.names)
            for s in tree.body
        )
        self.modules[name] = ModuleInfo(name, path, tree, src, fut, lines=src.splitlines())

    def _collect(self, m: ModuleInfo) -> None:
        def walk_imports(stmts, scope):
            for s in stmts:
                if isinstance(s, ast.Import):
                    for a in s.names:
                        m.imports.append(ImportRec("import", a.name, [(a.name, a.asname)], scope, s.lineno))
                        if scope in ("module", "type_checking"):
                            if a.asname:
                                m.import_names[a.asname] = ("module", a.name)
                            else:
                                top = a.name.split(".")[0]
                                m.import_names.setdefault(top, ("module", top))
                            if scope == "type_checking":
                                m.type_checking_names.add(a.asname or a.name.split(".")[0])
                elif isinstance(s, ast.ImportFrom):
                    mod = s.module or ""
                    if s.level:
                        parts = m.name.split(".")
                        basep = parts[: len(parts) - s.level] if m.name != self.package else parts
                        mod = ".".join(basep + ([mod] if mod else []))
                    m.imports.append(ImportRec("from", mod, [(a.name, a.asname) for a in s.names], scope, s.lineno))
                    if scope in ("module", "type_checking"):
                        for a in s.names:
                            m.import_names[a.asname or a.name] = ("from", mod, a.name)
                            if scope == "type_checking":
                                m.type_checking_names.add(a.asname or a.name)
                elif isinstance(s, ast.If) and _is_type_checking_test(s.test):
                    walk_imports(s.body, "type_checking")
                    walk_imports(s.orelse, scope)
                elif isinstance(s, (ast.If, ast.Try, ast.With, ast.For, ast.While)) and scope == "module":
                    for blk in _sub_blocks(s):
                        walk_imports(blk, scope)

        walk_imports(m.tree.body, "module")
        self._collect_body(m, m.tree.body, None, None)

    def _collect_body(self, m: ModuleInfo, body, cls: Optional[ClassInfo], func: Optional[FuncInfo]) -> None:
        for s in body:
            if isinstance(s, (ast.FunctionDef, ast.AsyncFunctionDef)):
                self._add_func(m, s, cls, func)
            elif isinstance(s, ast.ClassDef):
                self._add_class(m, s, cls, func)
            elif isinstance(s, (ast.Assign, ast.AnnAssign, ast.AugAssign)) and func is None:
                targets = s.targets if isinstance(s, ast.Assign) else [s.target]
                for t in targets:
                    for nm in _target_names(t):
                        value = s.value if not isinstance(s, ast.AugAssign) else None
                        ann = s.annotation if isinstance(s, ast.AnnAssign) else None
                        if isinstance(t, ast.Tuple) and isinstance(s, ast.Assign):
                            value = None
                        store = cls.body_assigns if cls is not None else m.assigns
                        order = cls.body_order if cls is not None else m.assign_order
                        if nm in store and value is None and ann is not None:
                            pv, pa, pl = store[nm]
                            store[nm] = (pv, ann, pl)
                        else:
                            if nm in store and store[nm][0] is not None and value is not None:
                                # rebinding at module/class level: keep last, record multi
                                pass
                            prev_ann = store[nm][1] if nm in store else None
                            store[nm] = (value, ann if ann is not None else prev_ann, s.lineno)
                        if nm not in order:
                            order.append(nm)
            elif isinstance(s, ast.If) and func is None:
                if _is_type_checking_test(s.test):
                    self._collect_body(m, s.orelse, cls, func)
                else:
                    self._collect_body(m, s.body, cls, func)
                    self._collect_body(m, s.orelse, cls, func)
            elif isinstance(s, (ast.Try, ast.With)) and func is None:
                for blk in _sub_blocks(s):
                    self._collect_body(m, blk, cls, func)

    def _add_func(self, m: ModuleInfo, node, cls: Optional[ClassInfo], parent: Optional[FuncInfo]) -> FuncInfo:
        decs = [_dotted(d.func if isinstance(d, ast.Call) else d) for d in node.decorator_list]
        decs = [self._canon_ext(m, d) for d in decs]
        if parent is not None:
            qual = f"{parent.qual}.<locals>.{node.name}"
        elif cls is not None:
            qual = f"{cls.qual}.{node.name}"
        else:
            qual = f"{m.name}.{node.name}"
        kind = "function"
        if cls is not None and parent is None:
            kind = "method"
        if "builtins.classmethod" in decs or "classmethod" in decs:
            kind = "classmethod"
        elif "builtins.staticmethod" in decs or "staticmethod" in decs:
            kind = "staticmethod"
        elif "functools.cached_property" in decs:
            kind = "cached_property"
        elif "builtins.property" in decs or "property" in decs:
            kind = "property"
        f = FuncInfo(
            qual=qual, name=node.name, node=node, module=m, cls=cls if parent is None else None, parent=parent,
            kind=kind, decorators=decs,
            is_overload="typing.overload" in decs,
            is_abstract="abc.abstractmethod" in decs,
            lru_cached=any(d in ("functools.lru_cache", "functools.cache") for d in decs),
        )
        if f.is_overload:
            self.functions.setdefault(qual + "#overload", f)
        else:
            self.functions[qual] = f
            if parent is not None:
                parent.nested[node.name] = f
            elif cls is not None:
                cls.methods[node.name] = f
            else:
                m.functions[node.name] = f
        # nested defs/classes inside the function body (any depth of statements)
        for sub in _walk_stmts(node.body):
            if isinstance(sub, (ast.FunctionDef, ast.AsyncFunctionDef)):
                self._add_func(m, sub, None, f)
            elif isinstance(sub, ast.ClassDef):
                self._add_class(m, sub, None, f)
        return f

    def _add_class(self, m: ModuleInfo, node: ast.ClassDef, outer: Optional[ClassInfo], func: Optional[FuncInfo]):
        if func is not None:
            qual = f"{func.qual}.<locals>.{node.name}"
        elif outer is not None:
            qual = f"{outer.qual}.{node.name}"
        else:
            qual = f"{m.name}.{node.name}"
        c = ClassInfo(qual=qual, name=node.name, node=node, module=m, outer=outer, outer_func=func,
                      base_exprs=list(node.bases))
        self.classes[qual] = c
        if func is not None:
            func.nested_classes[node.name] = c
        elif outer is not None:
            outer.nested[node.name] = c
        else:
            m.classes[node.name] = c
        for d in node.decorator_list:
            name = self._canon_ext(m, _dotted(d.func if isinstance(d, ast.Call) else d))
            kws = {}
            if isinstance(d, ast.Call):
                for k in d.keywords:
                    if isinstance(k.value, ast.Constant):
                        kws[k.arg] = k.value.value
                    else:
                        kws[k.arg] = ("expr", ast.unparse(k.value))
            c.decorators.append((name, kws))
            if name in ("dataclasses.dataclass", "dataclass"):
                c.dataclass_args = kws
        self._collect_body(m, node.body, c, None)
        return c

    # ---------------------------------------------------------------- resolution
    def _canon_ext(self, m: ModuleInfo, dotted: Optional[str]) -> str:
        """Canonical dotted name of a (possibly external) reference as written in module m."""
        if not dotted:
            return "?"
        head, _, rest = dotted.partition(".")
        imp = m.import_names.get(head)
        if imp is None:
            return dotted
        if imp[0] == "module":
            base = imp[1]
        else:
            base = f"{imp[1]}.{imp[2]}"
        full = f"{base}.{rest}" if rest else base
        return full

    def resolve_name(self, m: ModuleInfo, name: str, cls: Optional[ClassInfo] = None):
        """Resolve a bare name used in module m (optionally inside class body `cls`).

        Returns ('class', ClassInfo) | ('func', FuncInfo) | ('modvar', ModuleInfo, name) |
        ('classvar', ClassInfo, name) | ('module', dotted) | ('ext', dotted) | ('builtin', name) | None
        """
        c = cls
        if c is not None:
            if name in c.nested:
                return ("class", c.nested[name])
            if name in c.methods:
                return ("func", c.methods[name])
            if name in c.body_assigns:
                return ("classvar", c, name)
        if name in m.classes:
            return ("class", m.classes[name])
        if name in m.functions:
            return ("func", m.functions[name])
        if name in m.assigns:
            return ("modvar", m, name)
        if name in m.import_names:
            imp = m.import_names[name]
            if imp[0] == "module":
                return self.resolve_dotted(imp[1])
            return self.resolve_dotted(f"{imp[1]}.{imp[2]}")
        import builtins

        if hasattr(builtins, name):
            return ("builtin", name)
        return None

    def resolve_dotted(self, dotted: str):
        """Resolve an absolute dotted path (package or external)."""
        if dotted == self.package or dotted.startswith(self.package + "."):
            if dotted in self.modules:
                return ("module", dotted)
            # walk: module . attr . attr
            parts = dotted.split(".")
            for i in range(len(parts) - 1, 0, -1):
                mod = ".".join(parts[:i])
                if mod in self.modules:
                    cur = ("module", mod)
                    for p in parts[i:]:
                        cur = self.getattr_static(cur, p)
                        if cur is None:
                            return None
                    return cur
            return None
        return ("ext", dotted)

    def getattr_static(self, ref, attr: str):
        kind = ref[0]
        if kind == "module":
            mod = self.modules.get(ref[1])
            if mod is None:
                return ("ext", f"{ref[1]}.{attr}")
            sub = f"{ref[1]}.{attr}"
            if attr in mod.classes:
                return ("class", mod.classes[attr])
            if attr in mod.functions:
                return ("func", mod.functions[attr])
            if attr in mod.assigns:
                return ("modvar", mod, attr)
            if attr in mod.import_names:
                imp = mod.import_names[attr]
                return self.resolve_dotted(imp[1] if imp[0] == "module" else f"{imp[1]}.{imp[2]}")
            if sub in self.modules:
                return ("module", sub)
            return None
        if kind == "class":
            c: ClassInfo = ref[1]
            for k in c.pkg_mro() or [c]:
                if attr in k.nested:
                    return ("class", k.nested[attr])
                if attr in k.methods:
                    return ("func", k.methods[attr])
                if attr in k.body_assigns:
                    return ("classvar", k, attr)
            return None
        if kind == "ext":
            return ("ext", f"{ref[1]}.{attr}")
        return None

    def _resolve_class(self, c: ClassInfo) -> None:
        for b in c.base_exprs:
            target = b
            if isinstance(b, ast.Subscript):  # Sequence[BPMEvent], Generic[T]
                target = b.value
            d = _dotted(target)
            r = None
            if d:
                head, _, rest = d.partition(".")
                r = self._resolve_in_scope(c, head)
                if r is not None:
                    for p in rest.split(".") if rest else []:
                        r = self.getattr_static(r, p)
                        if r is None:
                            break
            if r is None:
                c.bases.append(self._canon_ext(c.module, d or ast.unparse(b)))
            elif r[0] == "class":
                c.bases.append(r[1])
            elif r[0] in ("ext", "builtin"):
                nm = r[1] if r[0] == "ext" else f"builtins.{r[1]}"
                c.bases.append(nm)
            else:
                c.bases.append(ast.unparse(b))

    def _resolve_in_scope(self, c: ClassInfo, name: str):
        # enclosing classes first (class body scope does not nest in python, but bases are evaluated in
        # the *enclosing* scope), then function locals, then module
        if c.outer is not None:
            r = self.resolve_name(c.module, name, c.outer)
            if r is not None:
                return r
        if c.outer_func is not None:
            f = c.outer_func
            if name in f.nested_classes:
                return ("class", f.nested_classes[name])
        return self.resolve_name(c.module, name)

    def _mro(self, c: ClassInfo, _stack=()) -> list:
        if c.mro:
            return c.mro
        if c in _stack:
            raise AnalysisError(f"cyclic class hierarchy at {c.qual}")
        seqs = []
        for b in c.bases:
            if isinstance(b, ClassInfo):
                seqs.append(list(self._mro(b, _stack + (c,))))
            else:
                seqs.append([b] + _ext_mro_tail(b))
        seqs.append(list(c.bases))
        res = [c]
        seqs = [s for s in seqs if s]
        while seqs:
            for s in seqs:
                h = s[0]
                if not any(h in t[1:] for t in seqs):
                    break
            else:
                raise AnalysisError(f"inconsistent MRO for {c.qual}")
            res.append(h)
            seqs = [[x for x in s if x != h] if s[0] == h else s for s in seqs]
            seqs = [s[1:] if s and s[0] == h else s for s in seqs]
            seqs = [s for s in seqs if s]
        c.mro = res
        return res

    # ---------------------------------------------------------------- queries
    def cls(self, qual: str) -> ClassInfo:
        c = self.classes.get(qual)
        if c is None:
            raise AnalysisError(f"anchor class {qual} not found in the current tree")
        return c

    def func(self, qual: str) -> FuncInfo:
        f = self.functions.get(qual)
        if f is None:
            # method inherited?
            head, _, name = qual.rpartition(".")
            c = self.classes.get(head)
            if c is not None:
                f = c.find_method(name)
        if f is None:
            raise AnalysisError(f"anchor function {qual} not found in the current tree")
        return f

    def subclasses(self, c: ClassInfo) -> list:
        return [k for k in self.classes.values() if c in k.mro]

    def all_functions(self) -> Iterator[FuncInfo]:
        for q, f in sorted(self.functions.items()):
            if not q.endswith("#overload"):
                yield f

    def loc(self, obj, node: Optional[ast.AST] = None) -> str:
        path = obj.module.path if hasattr(obj, "module") else obj.path
        ln = getattr(node, "lineno", None) or getattr(obj, "lineno", 0)
        return f"{path}:{ln}"


# --------------------------------------------------------------------------------------------------
# helpers


def _ext_mro_tail(b: str) -> list:
    table = {
        "enum.Enum": [],
        "builtins.ValueError": ["builtins.Exception", "builtins.BaseException"],
        "builtins.KeyError": ["builtins.LookupError", "builtins.Exception", "builtins.BaseException"],
        "builtins.IndexError": ["builtins.LookupError", "builtins.Exception", "builtins.BaseException"],
        "builtins.TypeError": ["builtins.Exception", "builtins.BaseException"],
        "builtins.RuntimeError": ["builtins.Exception", "builtins.BaseException"],
        "builtins.Exception": ["builtins.BaseException"],
    }
    return table.get(b, [])


def _is_type_checking_test(t: ast.AST) -> bool:
    d = _dotted(t)
    return d is not None and d.split(".")[-1] == "TYPE_CHECKING"


def _dotted(n: Optional[ast.AST]) -> Optional[str]:
    if isinstance(n, ast.Name):
        return n.id
    if isinstance(n, ast.Attribute):
        b = _dotted(n.value)
        return f"{b}.{n.attr}" if b else None
    return None


def _target_names(t: ast.AST) -> list:
    if isinstance(t, ast.Name):
        return [t.id]
    if isinstance(t, (ast.Tuple, ast.List)):
        out = []
        for e in t.elts:
            out += _target_names(e)
        return out
    if isinstance(t, ast.Starred):
        return _target_names(t.value)
    return []


def _sub_blocks(s: ast.AST) -> list:
    out = []
    for f in ("body", "orelse", "finalbody"):
        b = getattr(s, f, None)
        if b:
            out.append(b)
    for h in getattr(s, "handlers", []) or []:
        out.append(h.body)
    return out


def _walk_stmts(body) -> Iterator[ast.AST]:
    """Statements of a function body at any nesting depth, not descending into nested defs/classes."""
    for s in body:
        yield s
        if isinstance(s, (ast.FunctionDef, ast.AsyncFunctionDef, ast.ClassDef)):
            continue
        for blk in _sub_blocks(s):
            yield from _walk_stmts(blk)


dotted = _dotted
target_names = _target_names
sub_blocks = _sub_blocks
walk_stmts = _walk_stmts
ann_is_classvar = _ann_is_classvar
ann_is_final = _ann_is_final
is_type_checking_test = _is_type_checking_test
