"""sa.importsim -- an abstract import machine for one pure-Python package.

The machine is a static model of CPython's (>= 3.7) import system restricted to what can make an
import of a *pure-Python package* fail because of the order in which its modules are imported:

* ``from a.b import n`` meeting ``a.b`` half-executed with ``n`` not yet bound
  (ImportError "cannot import name ... from partially initialized module");
* an import-time read ``pkg.mod.attr`` while ``pkg.mod`` is still executing -- the submodule
  attribute on the parent package is only set once the submodule has finished loading
  (AttributeError "partially initialized module ... has no attribute");
* an import-time read of a global name that is not bound yet (NameError).

Nothing is imported or executed.  Sources are parsed with :mod:`ast`; module bodies are walked
statement by statement in program order, maintaining for every module the state
``ABSENT | EXEC(pc, bound names) | DONE``.  All client import orders are explored (node = set of
DONE modules), plus every function-local ("deferred") import replayed from every node in which
its module is DONE.

Public API: :func:`analyse`, :class:`ImportReport`, :class:`ImportFailure`; for replaying one
concrete client sequence: :class:`ImportMachine` / :class:`SequenceResult`.  Standard library only.

Where the machine deviates from CPython (see selftest/importsim_validate.py for the comparison):

* over-approximation (may report a failure CPython does not hit): all branches of module-level
  ``if``/``try``/``for``/``while``/``match`` and of walked callee bodies are treated as executed, in
  order; an import that fails inside ``try/except ImportError`` is still reported (plus a
  side-condition); a walked callee is walked whatever its arguments are; generator expressions are
  treated as consumed immediately.
* under-approximation (may miss a failure): callees are followed only when they resolve
  syntactically to a package def/class (module-level name, ``Cls.meth``, ``self./cls.meth``,
  ``super().meth``, ``pkg.mod.func``, simple aliases) up to depth 6 -- calls made *by* stdlib code
  back into the package (``dataclass`` calling ``__set_name__``-like hooks, ``functools`` wrappers,
  metaclass ``__call__``/``__prepare__``, descriptors, ``__getattr__``, callbacks passed as
  arguments, the function returned by a decorator factory) are not followed; objects reached
  through containers or function results are opaque; unbound *local* variables are not checked;
  after a failed import the partially cleaned ``sys.modules`` is not modelled (the sequence stops).
* exact by construction only if the syntactic side conditions hold (no conditional / guarded
  imports, no ``sys.modules``/``importlib``/``__import__``, no rebinding of imported names, no
  ``import *``, no module ``__getattr__``); each violation is reported as a ``side-condition``.
"""

from __future__ import annotations

import ast
import builtins
import os
import sys
from collections import ChainMap, deque
from dataclasses import dataclass, field

__all__ = ["ImportFailure", "ImportReport", "ImportMachine", "SequenceResult", "analyse"]

ABSENT, EXEC, DONE = "ABSENT", "EXEC", "DONE"

K_FROM = "from-import of unbound name from partially initialised module"
K_ATTR = "import-time attribute read through partially initialised module"
K_ATTR_ABSENT = "import-time attribute read of unimported submodule"
K_NAME = "NameError at import time"
K_UNDEF = "from-import of undefined name"
K_MISSING = "import of missing package module"
K_ORDER = "order-dependent bindings"
K_SIDE = "side-condition"

MAX_CALL_DEPTH = 6

_BUILTINS = frozenset(dir(builtins))
_MODULE_DUNDERS = frozenset(
    {
        "__name__", "__file__", "__doc__", "__package__", "__spec__", "__loader__",
        "__builtins__", "__path__", "__cached__", "__annotations__", "__debug__",
    }
)
_CLASS_DUNDERS = ("__module__", "__qualname__")
_TYPING_MODULES = frozenset({"typing", "typing_extensions"})
_CATCHES_IMPORT_ERROR = frozenset({"ImportError", "ModuleNotFoundError", "Exception", "BaseException"})
_CTOR_HOOKS = ("__new__", "__init__", "__post_init__")


# --------------------------------------------------------------------------------------------------
# report types
# --------------------------------------------------------------------------------------------------


def _norm_stmt(text: str) -> str:
    return " ".join(text.split())


@dataclass
class ImportFailure:
    kind: str
    first: tuple[str, ...]
    chain: list[tuple[str, int, str]]
    detail: str

    def key(self) -> str:
        """Stable identity without line numbers."""
        mod, _line, text = self.chain[-1] if self.chain else ("", 0, "")
        first = self.first[0] if self.first else ""
        return "|".join((self.kind, mod, _norm_stmt(text), first))

    def render(self) -> str:
        hops = " -> ".join(f"{m}:{ln} `{t}`" for m, ln, t in self.chain)
        return f"[{self.kind}] first={list(self.first)} :: {hops} :: {self.detail}"


@dataclass
class ImportReport:
    package: str
    modules: list[str]
    tier: str
    failures: list[ImportFailure]
    side_conditions: list[ImportFailure]
    states: int
    transitions: int
    deferred: list[tuple[str, str, int, str]]
    sequences_sampled: list[list[str]]
    import_time_reads: int
    statements: int
    # extras (not required by callers)
    deferred_replayed: int = 0
    callee_walks: int = 0
    depth_cutoffs: int = 0
    first_import_verdicts: dict[str, str] = field(default_factory=dict)

    @property
    def ok(self) -> bool:
        return not self.failures and not self.side_conditions

    def failing_first_imports(self) -> list[str]:
        """Modules whose import as the very first package module fails."""
        return sorted({f.first[0] for f in self.failures if len(f.first) == 1})


# --------------------------------------------------------------------------------------------------
# abstract values (only what callee / attribute-chain resolution needs)
# --------------------------------------------------------------------------------------------------


class ModVal:
    """A module of the analysed package."""

    __slots__ = ("name",)

    def __init__(self, name: str) -> None:
        self.name = name

    def origin(self) -> str:
        return "module:" + self.name


class ExtVal:
    """Something outside the package (stdlib module, builtin, or an attribute of one)."""

    __slots__ = ("name",)

    def __init__(self, name: str) -> None:
        self.name = name

    def origin(self) -> str:
        return "ext:" + self.name


class ClassInfo:
    """A class defined in the package (created when its ``class`` statement executes)."""

    __slots__ = ("name", "node", "mod", "members", "bases", "base_texts")

    def __init__(self, name: str, node: ast.ClassDef, mod: str) -> None:
        self.name = name
        self.node = node
        self.mod = mod
        self.members: dict[str, object] = {}
        self.bases: list[object] = []
        self.base_texts: list[str] = []

    def origin(self) -> str:
        return f"class:{self.mod}:{self.name}:{self.node.lineno}"

    def lookup(self, attr: str, _seen: set[int] | None = None) -> object:
        """Depth-first member lookup through the bases that are package classes."""
        seen = _seen if _seen is not None else set()
        if id(self) in seen:
            return None
        seen.add(id(self))
        if attr in self.members:
            return self.members[attr]
        for b in self.bases:
            if isinstance(b, ClassInfo):
                v = b.lookup(attr, seen)
                if v is not None:
                    return v
        return None

    def lookup_above(self, attr: str) -> object:
        for b in self.bases:
            if isinstance(b, ClassInfo):
                v = b.lookup(attr)
                if v is not None:
                    return v
        return None

    def enum_like(self, _seen: set[int] | None = None) -> bool:
        seen = _seen if _seen is not None else set()
        if id(self) in seen:
            return False
        seen.add(id(self))
        for b, t in zip(self.bases, self.base_texts):
            if isinstance(b, ClassInfo):
                if b.enum_like(seen):
                    return True
            elif "Enum" in t or "Flag" in t:
                return True
        return False


class FuncVal:
    """A def / lambda of the package, possibly accessed through a class or an instance."""

    __slots__ = ("node", "mod", "owner", "recv", "closure")

    def __init__(self, node, mod: str, owner: ClassInfo | None = None, recv: ClassInfo | None = None,
                 closure: "Ctx | None" = None) -> None:
        self.node = node
        self.mod = mod
        self.owner = owner
        self.recv = recv
        self.closure = closure

    def origin(self) -> str:
        return f"func:{self.mod}:{getattr(self.node, 'name', '<lambda>')}:{self.node.lineno}"

    def via(self, recv: ClassInfo | None) -> "FuncVal":
        return FuncVal(self.node, self.mod, self.owner, recv, self.closure)


class InstVal:
    __slots__ = ("cls",)

    def __init__(self, cls: ClassInfo) -> None:
        self.cls = cls

    def origin(self) -> str:
        return "instance:" + self.cls.origin()


class SuperVal:
    __slots__ = ("cls", "recv")

    def __init__(self, cls: ClassInfo, recv: ClassInfo | None) -> None:
        self.cls = cls
        self.recv = recv

    def origin(self) -> str:
        return "super:" + self.cls.origin()


def _origin(v: object) -> str:
    return v.origin() if v is not None and hasattr(v, "origin") else "?"


# --------------------------------------------------------------------------------------------------
# static per-module facts
# --------------------------------------------------------------------------------------------------


def _is_tc_test_syntactic(test: ast.expr, typing_aliases: set[str]) -> bool:
    if isinstance(test, ast.Name) and test.id == "TYPE_CHECKING":
        return True
    if (
        isinstance(test, ast.Attribute)
        and test.attr == "TYPE_CHECKING"
        and isinstance(test.value, ast.Name)
        and test.value.id in typing_aliases
    ):
        return True
    return False


def _target_names(t: ast.AST, out: list[str]) -> None:
    if isinstance(t, ast.Name):
        out.append(t.id)
    elif isinstance(t, (ast.Tuple, ast.List)):
        for e in t.elts:
            _target_names(e, out)
    elif isinstance(t, ast.Starred):
        _target_names(t.value, out)


def _pattern_names(p: ast.AST, out: list[str]) -> None:
    for n in ast.walk(p):
        if isinstance(n, (ast.MatchAs, ast.MatchStar)) and n.name:
            out.append(n.name)
        elif isinstance(n, ast.MatchMapping) and n.rest:
            out.append(n.rest)


_SCOPE_NODES = (ast.FunctionDef, ast.AsyncFunctionDef, ast.ClassDef, ast.Lambda)
_COMP_NODES = (ast.ListComp, ast.SetComp, ast.DictComp, ast.GeneratorExp)


def _scope_bindings(body: list[ast.stmt]) -> tuple[set[str], set[str]]:
    """Names bound in one function scope (nested scopes excluded) and names declared global."""
    bound: list[str] = []
    glob: set[str] = set()

    def expr(e: ast.AST) -> None:
        # walrus targets bind in the enclosing function even inside comprehensions
        stack = [e]
        while stack:
            n = stack.pop()
            if isinstance(n, ast.NamedExpr):
                _target_names(n.target, bound)
            if isinstance(n, ast.Lambda):
                continue
            stack.extend(ast.iter_child_nodes(n))

    def stmts(ss: list[ast.stmt]) -> None:
        for s in ss:
            if isinstance(s, (ast.FunctionDef, ast.AsyncFunctionDef, ast.ClassDef)):
                bound.append(s.name)
                for d in s.decorator_list:
                    expr(d)
                continue
            if isinstance(s, (ast.Global, ast.Nonlocal)):
                glob.update(s.names)
                continue
            if isinstance(s, ast.Import):
                for a in s.names:
                    bound.append(a.asname or a.name.split(".")[0])
                continue
            if isinstance(s, ast.ImportFrom):
                for a in s.names:
                    if a.name != "*":
                        bound.append(a.asname or a.name)
                continue
            if isinstance(s, ast.Assign):
                for t in s.targets:
                    _target_names(t, bound)
            elif isinstance(s, (ast.AnnAssign, ast.AugAssign)):
                _target_names(s.target, bound)
            elif isinstance(s, (ast.For, ast.AsyncFor)):
                _target_names(s.target, bound)
            elif isinstance(s, (ast.With, ast.AsyncWith)):
                for it in s.items:
                    if it.optional_vars is not None:
                        _target_names(it.optional_vars, bound)
            elif isinstance(s, ast.Delete):
                for t in s.targets:
                    _target_names(t, bound)
            elif isinstance(s, ast.Match):
                for c in s.cases:
                    _pattern_names(c.pattern, bound)
            elif hasattr(ast, "TypeAlias") and isinstance(s, ast.TypeAlias):
                _target_names(s.name, bound)
            for fname, val in ast.iter_fields(s):
                if isinstance(val, list) and val and isinstance(val[0], ast.stmt):
                    stmts(val)
                elif isinstance(val, list):
                    for x in val:
                        if isinstance(x, ast.ExceptHandler):
                            if x.name:
                                bound.append(x.name)
                            stmts(x.body)
                        elif isinstance(x, ast.match_case):
                            if x.guard is not None:
                                expr(x.guard)
                            stmts(x.body)
                        elif isinstance(x, ast.AST):
                            expr(x)
                elif isinstance(val, ast.AST):
                    expr(val)

    stmts(body)
    return set(bound), glob


@dataclass
class DeferredImport:
    module: str
    qualname: str
    lineno: int
    text: str
    node: ast.stmt
    touches_package: bool


class ModInfo:
    """Parsed source of one module plus the purely syntactic facts the machine needs."""

    def __init__(self, name: str, path: str, is_pkg: bool, package: str) -> None:
        self.name = name
        self.path = path
        self.is_pkg = is_pkg
        with open(path, "r", encoding="utf-8") as fh:
            self.src = fh.read()
        self.lines = self.src.splitlines()
        self.tree = ast.parse(self.src, filename=path)
        self.future_annotations = any(
            isinstance(s, ast.ImportFrom)
            and s.module == "__future__"
            and any(a.name == "annotations" for a in s.names)
            for s in self.tree.body
        )
        self.typing_aliases: set[str] = set()
        for n in ast.walk(self.tree):
            if isinstance(n, ast.Import):
                for a in n.names:
                    if a.name in _TYPING_MODULES:
                        self.typing_aliases.add(a.asname or a.name)
        self.all_bound, _ = _scope_bindings(self.tree.body)
        # names some function declares ``global`` -- treated as always bound (never a NameError)
        self.global_decl: set[str] = set()
        for n in ast.walk(self.tree):
            if isinstance(n, ast.Global):
                self.global_decl.update(n.names)
        self.package = package
        self.deferred: list[DeferredImport] = []

    # -- helpers ---------------------------------------------------------------------------------

    def text(self, stmt: ast.AST) -> str:
        if isinstance(stmt, (ast.Import, ast.ImportFrom)):
            return ast.unparse(stmt)
        ln = getattr(stmt, "lineno", 0)
        if 1 <= ln <= len(self.lines):
            t = self.lines[ln - 1].strip()
            if getattr(stmt, "end_lineno", ln) != ln and not isinstance(stmt, _SCOPE_NODES):
                t += " ..."
            return t[:160]
        return type(stmt).__name__

    def resolve_from(self, stmt: ast.ImportFrom) -> str:
        """Absolute module name a ``from ... import`` refers to."""
        if not stmt.level:
            return stmt.module or ""
        base = self.name if self.is_pkg else self.name.rpartition(".")[0]
        for _ in range(stmt.level - 1):
            base = base.rpartition(".")[0]
        if stmt.module:
            return f"{base}.{stmt.module}" if base else stmt.module
        return base


# --------------------------------------------------------------------------------------------------
# static scans: deferred imports and syntactic side conditions
# --------------------------------------------------------------------------------------------------


def _in_scope(name: str, package: str) -> bool:
    return name == package or name.startswith(package + ".")


def _collect_deferred(mi: ModInfo) -> None:
    """Every import statement inside a function/method body (TYPE_CHECKING blocks excluded)."""

    def touches(stmt: ast.stmt) -> bool:
        if isinstance(stmt, ast.Import):
            return any(_in_scope(a.name, mi.package) for a in stmt.names)
        assert isinstance(stmt, ast.ImportFrom)
        return _in_scope(mi.resolve_from(stmt), mi.package)

    def walk(ss: list[ast.stmt], qual: str, in_func: bool) -> None:
        for s in ss:
            if isinstance(s, (ast.FunctionDef, ast.AsyncFunctionDef)):
                q = f"{qual}.{s.name}" if qual else s.name
                walk(s.body, q, True)
                continue
            if isinstance(s, ast.ClassDef):
                q = f"{qual}.{s.name}" if qual else s.name
                walk(s.body, q, in_func)
                continue
            if isinstance(s, (ast.Import, ast.ImportFrom)):
                if in_func and not (isinstance(s, ast.ImportFrom) and s.module == "__future__"):
                    mi.deferred.append(
                        DeferredImport(mi.name, qual, s.lineno, mi.text(s), s, touches(s))
                    )
                continue
            if isinstance(s, ast.If) and _is_tc_test_syntactic(s.test, mi.typing_aliases):
                walk(s.orelse, qual, in_func)
                continue
            for _f, val in ast.iter_fields(s):
                if isinstance(val, list) and val:
                    if isinstance(val[0], ast.stmt):
                        walk(val, qual, in_func)
                    else:
                        for x in val:
                            if isinstance(x, (ast.ExceptHandler, ast.match_case)):
                                walk(x.body, qual, in_func)

    walk(mi.tree.body, "", False)
    mi.deferred.sort(key=lambda d: (d.lineno, d.qualname))


def _handler_catches_import_error(h: ast.ExceptHandler) -> bool:
    if h.type is None:
        return True
    types = h.type.elts if isinstance(h.type, ast.Tuple) else [h.type]
    for t in types:
        n = t.id if isinstance(t, ast.Name) else t.attr if isinstance(t, ast.Attribute) else None
        if n in _CATCHES_IMPORT_ERROR:
            return True
    return False


def _import_origins(mi: ModInfo, s: ast.stmt) -> list[tuple[str, str]]:
    """(bound name, origin) for every name an import statement binds."""
    out: list[tuple[str, str]] = []
    if isinstance(s, ast.Import):
        for a in s.names:
            if a.asname:
                out.append((a.asname, "module:" + a.name))
            else:
                top = a.name.split(".")[0]
                out.append((top, "module:" + top))
    elif isinstance(s, ast.ImportFrom):
        src = mi.resolve_from(s)
        for a in s.names:
            if a.name != "*":
                out.append((a.asname or a.name, f"from:{src}:{a.name}"))
    return out


def _side_conditions(mi: ModInfo) -> list[ImportFailure]:
    out: list[ImportFailure] = []

    def add(node: ast.AST, what: str) -> None:
        out.append(ImportFailure(K_SIDE, (), [(mi.name, getattr(node, "lineno", 0), mi.text(node))], what))

    # (c) sys.modules / importlib / __import__ anywhere in the module
    for n in ast.walk(mi.tree):
        if isinstance(n, ast.Attribute) and n.attr == "modules" and isinstance(n.value, ast.Name) and n.value.id == "sys":
            add(n, "reference to sys.modules")
        elif isinstance(n, ast.Name) and n.id in ("importlib", "__import__"):
            add(n, f"reference to {n.id}")
        elif isinstance(n, ast.Import) and any(a.name.split(".")[0] == "importlib" for a in n.names):
            add(n, "import of importlib")
        elif isinstance(n, ast.ImportFrom) and not n.level and (n.module or "").split(".")[0] == "importlib":
            add(n, "import from importlib")
        elif isinstance(n, ast.ImportFrom) and n.module == "sys" and any(a.name == "modules" for a in n.names):
            add(n, "reference to sys.modules")
        elif isinstance(n, ast.ImportFrom) and any(a.name == "*" for a in n.names):
            add(n, "import *")

    # (a) (b) (d) (g): walk the statements that run at import time outside any function
    import_bound: dict[str, str] = {}

    def rebind(name: str, node: ast.AST, how: str) -> None:
        if name in import_bound:
            add(node, f"module-level {how} rebinds '{name}', which was bound by an import ({import_bound[name]})")

    def walk(ss: list[ast.stmt], in_try: bool, under_if: bool, module_level: bool) -> None:
        for s in ss:
            if isinstance(s, (ast.Import, ast.ImportFrom)):
                if isinstance(s, ast.ImportFrom) and s.module == "__future__":
                    continue
                if in_try:
                    add(s, "module-level import inside try/except that catches ImportError")
                if under_if:
                    add(s, "module-level import under an `if` that is not a TYPE_CHECKING test")
                if module_level:
                    for name, org in _import_origins(mi, s):
                        if name in import_bound and import_bound[name] != org:
                            add(s, f"import rebinds '{name}' ({import_bound[name]} -> {org})")
                        import_bound[name] = org
                continue
            if isinstance(s, (ast.FunctionDef, ast.AsyncFunctionDef)):
                if module_level:
                    rebind(s.name, s, "def")
                    if s.name == "__getattr__":
                        add(s, "module-level __getattr__")
                continue
            if isinstance(s, ast.ClassDef):
                if module_level:
                    rebind(s.name, s, "class")
                walk(s.body, in_try, under_if, False)
                continue
            if module_level:
                names: list[str] = []
                how = type(s).__name__
                if isinstance(s, ast.Assign):
                    for t in s.targets:
                        _target_names(t, names)
                elif isinstance(s, ast.AnnAssign):
                    if s.value is not None:
                        _target_names(s.target, names)
                elif isinstance(s, ast.AugAssign):
                    _target_names(s.target, names)
                elif isinstance(s, (ast.For, ast.AsyncFor)):
                    _target_names(s.target, names)
                elif isinstance(s, (ast.With, ast.AsyncWith)):
                    for it in s.items:
                        if it.optional_vars is not None:
                            _target_names(it.optional_vars, names)
                elif isinstance(s, ast.Delete):
                    for t in s.targets:
                        _target_names(t, names)
                for n in ast.walk(s) if not isinstance(s, (ast.If, ast.Try, ast.For, ast.While, ast.With)) else ():
                    if isinstance(n, ast.NamedExpr):
                        _target_names(n.target, names)
                for nm in names:
                    rebind(nm, s, how.lower())
                    if nm == "__getattr__":
                        add(s, "module-level __getattr__")
            if isinstance(s, ast.If):
                if _is_tc_test_syntactic(s.test, mi.typing_aliases):
                    walk(s.orelse, in_try, under_if, module_level)
                else:
                    walk(s.body, in_try, True, module_level)
                    walk(s.orelse, in_try, True, module_level)
                continue
            if isinstance(s, ast.Try) or (hasattr(ast, "TryStar") and isinstance(s, ast.TryStar)):
                catches = any(_handler_catches_import_error(h) for h in s.handlers)
                walk(s.body, in_try or catches, under_if, module_level)
                for h in s.handlers:
                    if module_level and h.name:
                        rebind(h.name, h, "except-as")
                    walk(h.body, in_try, under_if, module_level)
                walk(s.orelse, in_try, under_if, module_level)
                walk(s.finalbody, in_try, under_if, module_level)
                continue
            for _f, val in ast.iter_fields(s):
                if isinstance(val, list) and val:
                    if isinstance(val[0], ast.stmt):
                        walk(val, in_try, under_if, module_level)
                    else:
                        for x in val:
                            if isinstance(x, ast.match_case):
                                walk(x.body, in_try, under_if, module_level)

    walk(mi.tree.body, False, False, True)

    # (f) ``global`` writes to an imported name inside functions
    for fn in ast.walk(mi.tree):
        if isinstance(fn, (ast.FunctionDef, ast.AsyncFunctionDef)):
            bound, glob = _scope_bindings(fn.body)
            for nm in sorted(glob & bound & set(import_bound)):
                add(fn, f"function '{fn.name}' writes through `global {nm}` to a name bound by an import")
    out.sort(key=lambda f: (f.chain[0][1], f.detail))
    return out


# --------------------------------------------------------------------------------------------------
# the machine
# --------------------------------------------------------------------------------------------------


class _Fail(Exception):
    def __init__(self, failure: ImportFailure) -> None:
        super().__init__(failure.detail)
        self.failure = failure


class Ctx:
    """Name-resolution environment of the code being walked."""

    __slots__ = ("mod", "cls", "class_locals", "func_locals", "local_values", "globals_decl",
                 "def_cls", "depth", "parent", "is_comp")

    def __init__(self, mod: str) -> None:
        self.mod = mod
        self.cls: ClassInfo | None = None  # class whose body is executing
        self.class_locals: set[str] | None = None
        self.func_locals: set[str] | None = None
        self.local_values: ChainMap | None = None
        self.globals_decl: set[str] = set()
        self.def_cls: ClassInfo | None = None  # class owning the function being walked
        self.depth = 0
        self.parent: Ctx | None = None
        self.is_comp = False

    def child(self) -> "Ctx":
        c = Ctx(self.mod)
        c.cls, c.class_locals = self.cls, self.class_locals
        c.func_locals, c.local_values = self.func_locals, self.local_values
        c.globals_decl, c.def_cls, c.depth, c.parent = self.globals_decl, self.def_cls, self.depth, self
        return c


class World:
    """sys.modules and module namespaces, abstractly."""

    __slots__ = ("state", "bound", "values", "subattrs", "pc", "executed")

    def __init__(self) -> None:
        self.state: dict[str, str] = {}
        self.bound: dict[str, set[str]] = {}
        self.values: dict[str, dict[str, object]] = {}
        self.subattrs: dict[str, set[str]] = {}
        self.pc: dict[str, int] = {}
        self.executed: list[str] = []

    def copy(self) -> "World":
        w = World()
        w.state = dict(self.state)
        w.bound = {k: set(v) for k, v in self.bound.items()}
        w.values = {k: dict(v) for k, v in self.values.items()}
        w.subattrs = {k: set(v) for k, v in self.subattrs.items()}
        w.pc = dict(self.pc)
        return w

    def done(self) -> frozenset[str]:
        return frozenset(m for m, s in self.state.items() if s == DONE)


class Machine:
    def __init__(self, mods: dict[str, ModInfo], package: str) -> None:
        self.mods = mods
        self.package = package
        self.w = World()
        self.frames: list[tuple[str, int, str]] = []
        self.path: tuple[str, ...] = ()
        self.reads = 0
        self.statements = 0
        self.callee_walks = 0
        self.depth_cutoffs = 0
        self.active: set[tuple[int, int]] = set()
        self.visited: set[tuple[int, int]] = set()
        self._scope_cache: dict[int, tuple[set[str], set[str]]] = {}

    # -- failure ---------------------------------------------------------------------------------

    def fail(self, kind: str, detail: str) -> None:
        raise _Fail(ImportFailure(kind, tuple(self.path), list(self.frames), detail))

    def executing_at(self, mod: str) -> str:
        return f"{mod} is executing (at line {self.w.pc.get(mod, 0)})"

    # -- import system ---------------------------------------------------------------------------

    def in_scope(self, name: str) -> bool:
        return _in_scope(name, self.package)

    def import_module(self, name: str) -> None:
        w = self.w
        if w.state.get(name, ABSENT) != ABSENT:
            return  # sys.modules hit, even if half-executed
        parent = name.rpartition(".")[0]
        if parent and self.in_scope(parent):
            self.import_module(parent)
            if w.state.get(name, ABSENT) != ABSENT:  # the parent's __init__ imported it meanwhile
                return
        mi = self.mods.get(name)
        if mi is None:
            self.fail(K_MISSING, f"no module named '{name}' in the package directory")
        w.state[name] = EXEC
        w.bound[name] = set()
        w.values[name] = {}
        w.subattrs.setdefault(name, set())
        w.pc[name] = 0
        w.executed.append(name)
        ctx = Ctx(name)
        for s in mi.tree.body:
            self.statements += 1
            self.exec_stmt(s, ctx)
        w.state[name] = DONE
        if parent and self.in_scope(parent):
            w.subattrs.setdefault(parent, set()).add(name.rpartition(".")[2])

    def import_dotted(self, full: str) -> None:
        parts = full.split(".")
        for i in range(1, len(parts) + 1):
            prefix = ".".join(parts[:i])
            if self.in_scope(prefix):
                self.import_module(prefix)

    def do_import(self, s: ast.Import, ctx: Ctx) -> None:
        for a in s.names:
            full = a.name
            top = full.split(".")[0]
            if self.in_scope(full):
                self.import_dotted(full)
                if a.asname:
                    # 3.7+: `import a.b as x` falls back to sys.modules['a.b'] -> fine half-executed
                    self.bind(a.asname, ModVal(full), ctx)
                else:
                    self.bind(top, ModVal(top) if self.in_scope(top) else ExtVal(top), ctx)
            else:
                self.bind(a.asname or top, ExtVal(full if a.asname else top), ctx)

    def do_import_from(self, s: ast.ImportFrom, ctx: Ctx) -> None:
        mi = self.mods[ctx.mod]
        src = mi.resolve_from(s)
        if src == "__future__":
            for a in s.names:  # the _Feature objects really are bound in the module namespace
                self.bind(a.asname or a.name, ExtVal(f"__future__.{a.name}"), ctx)
            return
        if not self.in_scope(src):
            for a in s.names:
                if a.name != "*":
                    self.bind(a.asname or a.name, ExtVal(f"{src}.{a.name}"), ctx)
            return
        self.import_dotted(src)
        w = self.w
        for a in s.names:
            n = a.name
            if n == "*":
                for nm in sorted(w.bound[src]):
                    if not nm.startswith("_"):
                        self.bind(nm, w.values[src].get(nm), ctx)
                continue
            self.reads += 1
            sub = f"{src}.{n}"
            if n in w.bound[src]:
                v = w.values[src].get(n)
            elif sub in self.mods:
                # _handle_fromlist imports the submodule; IMPORT_FROM falls back to sys.modules
                self.import_module(sub)
                v = ModVal(sub)
            elif w.state[src] == DONE:
                self.fail(K_UNDEF, f"{src} is fully initialised and never binds '{n}'")
            else:
                self.fail(K_FROM, f"{self.executing_at(src)}; name '{n}' not yet bound")
            self.bind(a.asname or n, v, ctx)

    # -- names -----------------------------------------------------------------------------------

    def bind(self, name: str, value: object, ctx: Ctx) -> None:
        while ctx.is_comp and ctx.parent is not None:
            ctx = ctx.parent
        if ctx.class_locals is not None:
            ctx.class_locals.add(name)
            assert ctx.cls is not None
            ctx.cls.members[name] = value
        elif ctx.func_locals is not None and name not in ctx.globals_decl:
            ctx.func_locals.add(name)
            assert ctx.local_values is not None
            ctx.local_values[name] = value
        else:
            self.w.bound[ctx.mod].add(name)
            self.w.values[ctx.mod][name] = value

    def unbind(self, name: str, ctx: Ctx) -> None:
        if ctx.class_locals is not None:
            ctx.class_locals.discard(name)
        elif ctx.func_locals is not None and name not in ctx.globals_decl:
            pass
        else:
            self.w.bound[ctx.mod].discard(name)
            self.w.values[ctx.mod].pop(name, None)

    def read_name(self, name: str, ctx: Ctx) -> object:
        self.reads += 1
        if ctx.class_locals is not None and name in ctx.class_locals:
            assert ctx.cls is not None
            return ctx.cls.members.get(name)
        if ctx.func_locals is not None and name in ctx.func_locals and name not in ctx.globals_decl:
            assert ctx.local_values is not None
            return ctx.local_values.get(name)
        w = self.w
        mod = ctx.mod
        if name in w.bound[mod]:
            return w.values[mod].get(name)
        if name in _BUILTINS or name in _MODULE_DUNDERS:
            return ExtVal("builtins." + name)
        mi = self.mods[mod]
        if name in mi.global_decl:
            return None  # bound by some function through `global`: not decidable here
        if w.state[mod] == EXEC:
            later = "not yet bound" if name in mi.all_bound else "not bound anywhere in the module"
            self.fail(K_NAME, f"{self.executing_at(mod)}; name '{name}' {later}")
        self.fail(K_NAME, f"{mod} is fully initialised and never binds '{name}'")
        return None

    def getattr_value(self, v: object, attr: str, ctx: Ctx) -> object:
        if isinstance(v, ModVal):
            m = v.name
            w = self.w
            if m not in self.mods:
                return None
            self.reads += 1
            st = w.state.get(m, ABSENT)
            if st != ABSENT and attr in w.bound[m]:
                return w.values[m].get(attr)
            sub = f"{m}.{attr}"
            if sub in self.mods:
                sst = w.state.get(sub, ABSENT)
                if sst == DONE:
                    return ModVal(sub)
                if sst == EXEC:
                    self.fail(
                        K_ATTR,
                        f"{self.executing_at(sub)}; attribute '{attr}' is set on package {m} only "
                        f"when {sub} has finished loading",
                    )
                self.fail(K_ATTR_ABSENT, f"{sub} has not been imported; package {m} has no attribute '{attr}' yet")
            if st == EXEC:
                self.fail(K_ATTR, f"{self.executing_at(m)}; name '{attr}' not yet bound")
            return None
        if isinstance(v, ExtVal):
            return ExtVal(f"{v.name}.{attr}")
        if isinstance(v, ClassInfo):
            r = v.lookup(attr)
            return r.via(v) if isinstance(r, FuncVal) else r
        if isinstance(v, InstVal):
            r = v.cls.lookup(attr)
            return r.via(v.cls) if isinstance(r, FuncVal) else r
        if isinstance(v, SuperVal):
            r = v.cls.lookup_above(attr)
            return r.via(v.recv or v.cls) if isinstance(r, FuncVal) else r
        return None

    # -- expressions -----------------------------------------------------------------------------

    def ev(self, node: ast.AST | None, ctx: Ctx) -> object:
        if node is None or isinstance(node, ast.Constant):
            return None
        if isinstance(node, ast.Name):
            return self.read_name(node.id, ctx) if isinstance(node.ctx, ast.Load) else None
        if isinstance(node, ast.Attribute):
            base = self.ev(node.value, ctx)
            return self.getattr_value(base, node.attr, ctx)
        if isinstance(node, ast.Call):
            return self.ev_call(node, ctx)
        if isinstance(node, ast.Lambda):
            self.ev_arguments(node.args, None, ctx, annotations=False)
            return FuncVal(node, ctx.mod, None, None, ctx)
        if isinstance(node, _COMP_NODES):
            return self.ev_comp(node, ctx)
        if isinstance(node, ast.NamedExpr):
            v = self.ev(node.value, ctx)
            if isinstance(node.target, ast.Name):
                self.bind(node.target.id, v, ctx)
            return v
        if isinstance(node, ast.IfExp):
            self.ev(node.test, ctx)
            a = self.ev(node.body, ctx)
            b = self.ev(node.orelse, ctx)
            return a if a is not None else b
        for ch in ast.iter_child_nodes(node):
            if isinstance(ch, ast.expr):
                self.ev(ch, ctx)
            elif isinstance(ch, ast.keyword):
                self.ev(ch.value, ctx)
        return None

    def ev_comp(self, node: ast.AST, ctx: Ctx) -> object:
        gens = node.generators  # type: ignore[attr-defined]
        self.ev(gens[0].iter, ctx)  # the first iterable is evaluated in the enclosing scope
        c = ctx.child()
        c.is_comp = True
        c.cls, c.class_locals = None, None  # class-body names are invisible inside
        names: list[str] = []
        for g in gens:
            _target_names(g.target, names)
        c.func_locals = set(ctx.func_locals or ()) | set(names)
        c.local_values = (ctx.local_values or ChainMap()).new_child()
        for i, g in enumerate(gens):
            if i:
                self.ev(g.iter, c)
            self.ev_target_loads(g.target, c)
            for cond in g.ifs:
                self.ev(cond, c)
        if isinstance(node, ast.DictComp):
            self.ev(node.key, c)
            self.ev(node.value, c)
        else:
            self.ev(node.elt, c)  # type: ignore[attr-defined]
        return None

    def ev_target_loads(self, t: ast.AST, ctx: Ctx) -> None:
        """Sub-expressions of an assignment target that are evaluated (not the bound names)."""
        if isinstance(t, (ast.Tuple, ast.List)):
            for e in t.elts:
                self.ev_target_loads(e, ctx)
        elif isinstance(t, ast.Starred):
            self.ev_target_loads(t.value, ctx)
        elif isinstance(t, ast.Attribute):
            self.ev(t.value, ctx)
        elif isinstance(t, ast.Subscript):
            self.ev(t.value, ctx)
            self.ev(t.slice, ctx)

    def ev_arguments(self, args: ast.arguments, returns: ast.AST | None, ctx: Ctx, annotations: bool) -> None:
        for d in args.defaults:
            self.ev(d, ctx)
        for d in args.kw_defaults:
            if d is not None:
                self.ev(d, ctx)
        if annotations:
            allargs = list(args.posonlyargs) + list(args.args) + list(args.kwonlyargs)
            if args.vararg:
                allargs.append(args.vararg)
            if args.kwarg:
                allargs.append(args.kwarg)
            for a in allargs:
                if a.annotation is not None:
                    self.ev(a.annotation, ctx)
            if returns is not None:
                self.ev(returns, ctx)

    def ev_call(self, node: ast.Call, ctx: Ctx) -> object:
        f = node.func
        # super() / super(C, self)
        if isinstance(f, ast.Name) and f.id == "super" and "super" not in self.w.bound[ctx.mod]:
            self.reads += 1
            for a in node.args:
                self.ev(a, ctx)
            if ctx.def_cls is not None:
                recv = None
                if ctx.local_values is not None:
                    for nm in ("self", "cls"):
                        rv = ctx.local_values.get(nm)
                        if isinstance(rv, InstVal):
                            recv = rv.cls
                        elif isinstance(rv, ClassInfo):
                            recv = rv
                        if recv:
                            break
                return SuperVal(ctx.def_cls, recv)
            return None
        fv = self.ev(f, ctx)
        for a in node.args:
            self.ev(a, ctx)
        for k in node.keywords:
            self.ev(k.value, ctx)
        return self.invoke(fv, ctx)

    # -- callees ---------------------------------------------------------------------------------

    def invoke(self, fv: object, ctx: Ctx) -> object:
        if isinstance(fv, FuncVal):
            self.walk_function(fv, ctx)
            return None
        if isinstance(fv, ClassInfo):
            for hook in _CTOR_HOOKS:
                h = fv.lookup(hook)
                if isinstance(h, FuncVal):
                    self.walk_function(h.via(fv), ctx)
            return InstVal(fv)
        return None

    def scope_of(self, fn: ast.AST) -> tuple[set[str], set[str]]:
        r = self._scope_cache.get(id(fn))
        if r is None:
            if isinstance(fn, ast.Lambda):
                bound: set[str] = set()
                glob: set[str] = set()
            else:
                bound, glob = _scope_bindings(fn.body)  # type: ignore[attr-defined]
            a = fn.args  # type: ignore[attr-defined]
            for x in list(a.posonlyargs) + list(a.args) + list(a.kwonlyargs):
                bound.add(x.arg)
            if a.vararg:
                bound.add(a.vararg.arg)
            if a.kwarg:
                bound.add(a.kwarg.arg)
            bound -= glob
            r = (bound, glob)
            self._scope_cache[id(fn)] = r
        return r

    def walk_function(self, fv: FuncVal, ctx: Ctx) -> None:
        key = (id(fv.node), id(fv.recv))
        if key in self.active or key in self.visited:
            return
        if ctx.depth >= MAX_CALL_DEPTH:
            self.depth_cutoffs += 1
            return
        if self.w.state.get(fv.mod, ABSENT) == ABSENT:
            return
        self.callee_walks += 1
        self.active.add(key)
        try:
            fn = fv.node
            locals_, glob = self.scope_of(fn)
            c = Ctx(fv.mod)
            c.depth = ctx.depth + 1
            c.parent = None
            c.globals_decl = glob
            c.def_cls = fv.owner
            clo = fv.closure
            outer_locals = set(clo.func_locals) if clo is not None and clo.func_locals else set()
            c.func_locals = set(locals_) | (outer_locals - glob)
            base_map = clo.local_values if clo is not None and clo.local_values is not None else ChainMap()
            c.local_values = base_map.new_child()
            for nm in locals_:
                c.local_values[nm] = None  # shadow closure values
            if fv.owner is not None:
                c.func_locals.add("__class__")
                decos = {
                    d.id if isinstance(d, ast.Name) else d.attr if isinstance(d, ast.Attribute) else ""
                    for d in getattr(fn, "decorator_list", [])
                }
                a = fn.args
                params = list(a.posonlyargs) + list(a.args)
                if params and "staticmethod" not in decos:
                    recv = fv.recv or fv.owner
                    is_cls = "classmethod" in decos or getattr(fn, "name", "") in (
                        "__new__", "__init_subclass__", "__class_getitem__")
                    c.local_values[params[0].arg] = recv if is_cls else InstVal(recv)
            if isinstance(fn, ast.Lambda):
                self.ev(fn.body, c)
            else:
                for s in fn.body:
                    self.exec_stmt(s, c)
        finally:
            self.active.discard(key)
        self.visited.add(key)

    # -- statements ------------------------------------------------------------------------------

    def is_type_checking(self, test: ast.expr, ctx: Ctx) -> bool:
        mi = self.mods[ctx.mod]
        return _is_tc_test_syntactic(test, mi.typing_aliases)

    def exec_block(self, ss: list[ast.stmt], ctx: Ctx) -> None:
        for s in ss:
            self.exec_stmt(s, ctx)

    def exec_stmt(self, s: ast.stmt, ctx: Ctx) -> None:
        mi = self.mods[ctx.mod]
        own = ctx.depth == 0
        if own:
            self.w.pc[ctx.mod] = s.lineno
            if not isinstance(s, (ast.ClassDef, ast.If, ast.Try, ast.With, ast.For, ast.While)):
                self.visited = set()
        self.frames.append((ctx.mod, s.lineno, mi.text(s)))
        try:
            self._exec(s, ctx, mi)
        finally:
            self.frames.pop()

    def _exec(self, s: ast.stmt, ctx: Ctx, mi: ModInfo) -> None:
        in_func = ctx.func_locals is not None and ctx.class_locals is None
        ann = not mi.future_annotations
        if isinstance(s, ast.Import):
            self.do_import(s, ctx)
        elif isinstance(s, ast.ImportFrom):
            self.do_import_from(s, ctx)
        elif isinstance(s, (ast.FunctionDef, ast.AsyncFunctionDef)):
            decs = [self.ev(d, ctx) for d in s.decorator_list]
            self.ev_arguments(s.args, s.returns, ctx, annotations=ann)
            fv = FuncVal(s, ctx.mod, ctx.cls if ctx.class_locals is not None else None, None,
                         ctx if ctx.func_locals is not None else None)
            for dv in reversed(decs):
                self.invoke(dv, ctx)  # the decorator is called with the function
            self.bind(s.name, fv, ctx)
        elif isinstance(s, ast.ClassDef):
            self.exec_class(s, ctx)
        elif isinstance(s, ast.Assign):
            v = self.ev(s.value, ctx)
            for t in s.targets:
                self.ev_target_loads(t, ctx)
                names: list[str] = []
                _target_names(t, names)
                single = isinstance(t, ast.Name)
                for nm in names:
                    self.bind(nm, v if single else None, ctx)
            self.after_class_attr(v, ctx)
        elif isinstance(s, ast.AnnAssign):
            if ann and not in_func:
                self.ev(s.annotation, ctx)
            self.ev_target_loads(s.target, ctx)
            if s.value is not None:
                v = self.ev(s.value, ctx)
                if isinstance(s.target, ast.Name):
                    self.bind(s.target.id, v, ctx)
                self.after_class_attr(v, ctx)
        elif isinstance(s, ast.AugAssign):
            if isinstance(s.target, ast.Name):
                self.read_name(s.target.id, ctx)
            else:
                self.ev_target_loads(s.target, ctx)
            self.ev(s.value, ctx)
            if isinstance(s.target, ast.Name):
                self.bind(s.target.id, None, ctx)
        elif isinstance(s, ast.Expr):
            self.ev(s.value, ctx)
        elif isinstance(s, ast.If):
            self.ev(s.test, ctx)
            if self.is_type_checking(s.test, ctx):
                self.exec_block(s.orelse, ctx)
            else:
                self.exec_block(s.body, ctx)
                self.exec_block(s.orelse, ctx)
        elif isinstance(s, ast.Try) or (hasattr(ast, "TryStar") and isinstance(s, ast.TryStar)):
            self.exec_block(s.body, ctx)
            for h in s.handlers:
                self.ev(h.type, ctx)
                if h.name:
                    self.bind(h.name, None, ctx)
                self.exec_block(h.body, ctx)
            self.exec_block(s.orelse, ctx)
            self.exec_block(s.finalbody, ctx)
        elif isinstance(s, (ast.With, ast.AsyncWith)):
            for it in s.items:
                self.ev(it.context_expr, ctx)
                if it.optional_vars is not None:
                    self.ev_target_loads(it.optional_vars, ctx)
                    names = []
                    _target_names(it.optional_vars, names)
                    for nm in names:
                        self.bind(nm, None, ctx)
            self.exec_block(s.body, ctx)
        elif isinstance(s, (ast.For, ast.AsyncFor)):
            self.ev(s.iter, ctx)
            self.ev_target_loads(s.target, ctx)
            names = []
            _target_names(s.target, names)
            for nm in names:
                self.bind(nm, None, ctx)
            self.exec_block(s.body, ctx)
            self.exec_block(s.orelse, ctx)
        elif isinstance(s, ast.While):
            self.ev(s.test, ctx)
            self.exec_block(s.body, ctx)
            self.exec_block(s.orelse, ctx)
        elif isinstance(s, ast.Delete):
            for t in s.targets:
                if isinstance(t, ast.Name):
                    self.read_name(t.id, ctx)
                    self.unbind(t.id, ctx)
                else:
                    self.ev_target_loads(t, ctx)
        elif isinstance(s, ast.Return):
            self.ev(s.value, ctx)
        elif isinstance(s, ast.Raise):
            self.ev(s.exc, ctx)
            self.ev(s.cause, ctx)
        elif isinstance(s, ast.Assert):
            self.ev(s.test, ctx)
            self.ev(s.msg, ctx)
        elif isinstance(s, ast.Match):
            self.ev(s.subject, ctx)
            for c in s.cases:
                names = []
                _pattern_names(c.pattern, names)
                for n in ast.walk(c.pattern):
                    if isinstance(n, ast.MatchValue):
                        self.ev(n.value, ctx)
                    elif isinstance(n, ast.MatchClass):
                        self.ev(n.cls, ctx)
                for nm in names:
                    self.bind(nm, None, ctx)
                self.ev(c.guard, ctx)
                self.exec_block(c.body, ctx)
        elif hasattr(ast, "TypeAlias") and isinstance(s, ast.TypeAlias):
            if isinstance(s.name, ast.Name):
                self.bind(s.name.id, None, ctx)  # the value is evaluated lazily
        # Pass / Break / Continue / Global / Nonlocal: nothing happens at import time

    def after_class_attr(self, v: object, ctx: Ctx) -> None:
        """``__set_name__`` of a package-class instance stored as a class attribute."""
        if ctx.class_locals is not None and isinstance(v, InstVal):
            h = v.cls.lookup("__set_name__")
            if isinstance(h, FuncVal):
                self.walk_function(h.via(v.cls), ctx)

    def exec_class(self, s: ast.ClassDef, ctx: Ctx) -> None:
        decs = [self.ev(d, ctx) for d in s.decorator_list]
        ci = ClassInfo(s.name, s, ctx.mod)
        for b in s.bases:
            ci.bases.append(self.ev(b, ctx))
            ci.base_texts.append(ast.unparse(b))
        for k in s.keywords:
            self.ev(k.value, ctx)
            if k.arg == "metaclass":
                ci.bases.append(None)
                ci.base_texts.append("metaclass=" + ast.unparse(k.value))
        c = ctx.child()
        c.cls = ci
        c.class_locals = set(_CLASS_DUNDERS)
        self.exec_block(s.body, c)
        # hooks that run when the class object is created
        h = ci.lookup_above("__init_subclass__")
        if isinstance(h, FuncVal):
            self.walk_function(h.via(ci), ctx)
        if ci.enum_like():
            for hook in ("__new__", "__init__", "_generate_next_value_"):
                h = ci.lookup(hook)
                if isinstance(h, FuncVal):
                    self.walk_function(h.via(ci), ctx)
        for dv in reversed(decs):
            self.invoke(dv, ctx)
        self.bind(s.name, ci, ctx)


# --------------------------------------------------------------------------------------------------
# exploration
# --------------------------------------------------------------------------------------------------


def discover(pkg_dir: str, package: str) -> dict[str, ModInfo]:
    """All modules of the regular package rooted at ``pkg_dir`` (sub-packages included)."""
    mods: dict[str, ModInfo] = {}
    pkg_dir = os.path.abspath(pkg_dir)
    if not os.path.isfile(os.path.join(pkg_dir, "__init__.py")):
        raise ValueError(f"{pkg_dir} is not a regular package (no __init__.py)")
    for root, dirs, files in os.walk(pkg_dir):
        dirs[:] = sorted(
            d for d in dirs if os.path.isfile(os.path.join(root, d, "__init__.py")) and d != "__pycache__"
        )
        rel = os.path.relpath(root, pkg_dir)
        prefix = package if rel == "." else package + "." + rel.replace(os.sep, ".")
        for f in sorted(files):
            if not f.endswith(".py"):
                continue
            stem = f[:-3]
            if not stem.isidentifier():
                continue
            name = prefix if stem == "__init__" else f"{prefix}.{stem}"
            mods[name] = ModInfo(name, os.path.join(root, f), stem == "__init__", package)
    return dict(sorted(mods.items()))


class _Explorer:
    def __init__(self, mods: dict[str, ModInfo], package: str, tier: str) -> None:
        self.mods = mods
        self.package = package
        self.tier = tier
        self.m = Machine(mods, package)
        self.failures: dict[str, ImportFailure] = {}
        self.final_sig: dict[str, tuple[frozenset, tuple[str, ...]]] = {}
        self.transitions = 0
        self.deferred_replayed = 0
        self.nodes: set[frozenset[str]] = {frozenset()}
        self.sequences: list[list[str]] = []
        self.verdicts: dict[str, str] = {}
        self.deferred = [d for mi in mods.values() for d in mi.deferred]
        self.replayable = [d for d in self.deferred if d.touches_package]

    # -- one transition --------------------------------------------------------------------------

    def record(self, f: ImportFailure) -> None:
        k = f.key()
        old = self.failures.get(k)
        if old is None or len(f.first) < len(old.first):
            self.failures[k] = f

    def step(self, world: World, path: tuple[str, ...], label: str, client_text: str, action) -> World | None:
        m = self.m
        m.w = world.copy()
        m.path = path + (label,)
        m.frames = [("<client>", 0, client_text)]
        m.active = set()
        m.visited = set()
        self.transitions += 1
        try:
            action()
        except _Fail as e:
            self.record(e.failure)
            return None
        w = m.w
        assert all(s != EXEC for s in w.state.values()), "import stack not unwound"
        for mod in w.executed:
            pub = frozenset(
                (n, _origin(w.values[mod].get(n))) for n in w.bound[mod] if not n.startswith("_")
            )
            old = self.final_sig.setdefault(mod, (pub, m.path))
            if old[0] != pub:
                a = {n for n, _ in old[0]}
                b = {n for n, _ in pub}
                if a != b:
                    diff = f"names differ: only in {list(old[1])}: {sorted(a - b)}; only in {list(m.path)}: {sorted(b - a)}"
                else:
                    diff = "same names, different objects: " + ", ".join(
                        sorted(n for n, _ in old[0] ^ pub)
                    )
                self.record(ImportFailure(K_ORDER, m.path, [(mod, 0, "<public bindings>")], diff))
        return w

    def import_edge(self, world: World, path: tuple[str, ...], target: str) -> World | None:
        return self.step(world, path, target, f"import {target}", lambda: self.m.import_dotted(target))

    def deferred_edge(self, world: World, path: tuple[str, ...], d: DeferredImport) -> World | None:
        def act() -> None:
            ctx = Ctx(d.module)
            ctx.depth = 1  # function mode: executes inside a called function body
            ctx.func_locals = set()
            ctx.local_values = ChainMap()
            self.m.exec_stmt(d.node, ctx)

        self.deferred_replayed += 1
        label = f"call {d.module}.{d.qualname}"
        return self.step(world, path, label, f"{d.module}.{d.qualname}(...)", act)

    @staticmethod
    def fmt(label: str, w: World) -> str:
        return f"{label} => [{', '.join(w.executed)}]"

    # -- tiers -----------------------------------------------------------------------------------

    def quick(self) -> None:
        names = sorted(self.mods)
        w0 = World()
        all_done_replayed = False
        for first in names:
            w1 = self.import_edge(w0, (), first)
            self.verdicts[first] = "ok" if w1 is not None else "fail"
            if w1 is None:
                self.sequences.append([f"import {first} => FAIL"])
                continue
            self.nodes.add(w1.done())
            seq = [self.fmt(f"import {first}", w1)]
            for d in self.replayable:
                if w1.state.get(d.module) == DONE:
                    w2 = self.deferred_edge(w1, (first,), d)
                    if w2 is not None:
                        self.nodes.add(w2.done())
            cur, path = w1, (first,)
            complete = True
            for nxt in names:
                if cur.state.get(nxt) == DONE:
                    continue
                w2 = self.import_edge(cur, path, nxt)
                if w2 is None:
                    seq.append(f"import {nxt} => FAIL")
                    complete = False
                    break
                seq.append(self.fmt(f"import {nxt}", w2))
                cur, path = w2, path + (nxt,)
                self.nodes.add(cur.done())
            self.sequences.append(seq)
            if complete and not all_done_replayed:
                all_done_replayed = True
                for d in self.replayable:
                    self.deferred_edge(cur, path, d)

    def thorough(self) -> None:
        names = sorted(self.mods)
        start: frozenset[str] = frozenset()
        steps: dict[frozenset[str], list[str]] = {start: []}
        queue: deque[tuple[frozenset[str], World, tuple[str, ...]]] = deque([(start, World(), ())])
        order: list[frozenset[str]] = []
        while queue:
            node, w, path = queue.popleft()
            order.append(node)
            for nxt in names:
                if nxt in node:
                    continue
                w2 = self.import_edge(w, path, nxt)
                if not path:
                    self.verdicts[nxt] = "ok" if w2 is not None else "fail"
                self._enqueue(node, w2, path, nxt, f"import {nxt}", steps, queue)
            for d in self.replayable:
                if d.module in node:
                    w2 = self.deferred_edge(w, path, d)
                    label = f"call {d.module}.{d.qualname}"
                    self._enqueue(node, w2, path, label, label, steps, queue)
        self.nodes = set(steps)
        # sample: all first-import nodes plus the most recently discovered (longest) paths
        firsts = [n for n in order if len(steps[n]) == 1]
        tail = [n for n in order if len(steps[n]) > 1][-12:]
        self.sequences = [steps[n] for n in firsts + tail]

    def _enqueue(self, node, w2, path, label, shown, steps, queue) -> None:
        if w2 is None:
            return
        n2 = w2.done()
        if n2 not in steps:
            steps[n2] = steps[node] + [self.fmt(shown, w2)]
            queue.append((n2, w2, path + (label,)))


def analyse(pkg_dir: str, package: str | None = None, tier: str = "quick") -> ImportReport:
    """Explore every import order of the package in ``pkg_dir`` on the abstract import machine."""
    if tier not in ("quick", "thorough"):
        raise ValueError("tier must be 'quick' or 'thorough'")
    pkg_dir = os.path.abspath(pkg_dir)
    package = package or os.path.basename(pkg_dir.rstrip(os.sep))
    mods = discover(pkg_dir, package)
    side: list[ImportFailure] = []
    seen_side: set[tuple[str, str]] = set()
    for mi in mods.values():
        _collect_deferred(mi)
        for f in _side_conditions(mi):
            k = (f.key(), f.detail)
            if k not in seen_side:
                seen_side.add(k)
                side.append(f)
    ex = _Explorer(mods, package, tier)
    old_limit = sys.getrecursionlimit()
    sys.setrecursionlimit(max(old_limit, 10000))
    try:
        if tier == "quick":
            ex.quick()
        else:
            ex.thorough()
    finally:
        sys.setrecursionlimit(old_limit)
    failures = sorted(ex.failures.values(), key=lambda f: (len(f.first), f.first, f.key()))
    return ImportReport(
        package=package,
        modules=sorted(mods),
        tier=tier,
        failures=failures,
        side_conditions=side,
        states=len(ex.nodes),
        transitions=ex.transitions,
        deferred=[(d.module, d.qualname, d.lineno, d.text) for d in ex.deferred],
        sequences_sampled=ex.sequences[:30],
        import_time_reads=ex.m.reads,
        statements=ex.m.statements,
        deferred_replayed=ex.deferred_replayed,
        callee_walks=ex.m.callee_walks,
        depth_cutoffs=ex.m.depth_cutoffs,
        first_import_verdicts=dict(sorted(ex.verdicts.items())),
    )


@dataclass
class SequenceResult:
    steps: list[str]
    failed_step: int  # index into steps, -1 if every step succeeded
    failure: ImportFailure | None
    executed: list[list[str]]  # per successful step: modules executed, in order
    public_names: dict[str, list[str]]  # per DONE module: public names bound (after the last ok step)


class ImportMachine:
    """Replay one concrete client sequence (used by the validation harness and for debugging).

    A step is either a module name (``import <module>``) or ``"call <module>.<qualname>"`` which
    replays, in line order, the function-local imports of that function.
    """

    def __init__(self, pkg_dir: str, package: str | None = None) -> None:
        pkg_dir = os.path.abspath(pkg_dir)
        self.package = package or os.path.basename(pkg_dir.rstrip(os.sep))
        self.mods = discover(pkg_dir, self.package)
        for mi in self.mods.values():
            _collect_deferred(mi)

    def run_sequence(self, steps: list[str]) -> SequenceResult:
        ex = _Explorer(self.mods, self.package, "sequence")
        w = World()
        path: tuple[str, ...] = ()
        executed: list[list[str]] = []
        failed = -1
        old_limit = sys.getrecursionlimit()
        sys.setrecursionlimit(max(old_limit, 10000))
        try:
            for i, st in enumerate(steps):
                nw: World | None = w
                if st.startswith("call "):
                    target = st[5:].strip()
                    ds = [d for d in ex.deferred if f"{d.module}.{d.qualname}" == target]
                    if not ds:
                        raise ValueError(f"no function-local import in {target}")
                    if w.state.get(ds[0].module) != DONE:
                        raise ValueError(f"{ds[0].module} is not imported before {st!r}")
                    ran: list[str] = []
                    for d in ds:
                        nw = ex.deferred_edge(nw, path, d)
                        if nw is None:
                            break
                        ran.extend(nw.executed)
                    if nw is not None:
                        nw.executed = ran
                else:
                    nw = ex.import_edge(w, path, st)
                if nw is None:
                    failed = i
                    break
                executed.append(list(nw.executed))
                w, path = nw, path + (st,)
        finally:
            sys.setrecursionlimit(old_limit)
        failure = None
        if failed >= 0:
            cands = [f for f in ex.failures.values() if f.kind != K_ORDER]
            failure = cands[0] if cands else next(iter(ex.failures.values()))
        public = {
            m: sorted(n for n in w.bound[m] if not n.startswith("_"))
            for m in sorted(w.state)
            if w.state[m] == DONE
        }
        return SequenceResult(list(steps), failed, failure, executed, public)


def _main(argv: list[str]) -> int:
    import argparse

    ap = argparse.ArgumentParser(description="abstract import machine")
    ap.add_argument("pkg_dir")
    ap.add_argument("--package", default=None)
    ap.add_argument("--tier", default="quick", choices=("quick", "thorough"))
    ap.add_argument("-v", "--verbose", action="store_true")
    a = ap.parse_args(argv)
    r = analyse(a.pkg_dir, a.package, a.tier)
    print(
        f"importsim package={r.package} tier={r.tier} modules={len(r.modules)} states={r.states} "
        f"transitions={r.transitions} statements={r.statements} reads={r.import_time_reads} "
        f"deferred={len(r.deferred)} replayed={r.deferred_replayed} callee_walks={r.callee_walks} "
        f"depth_cutoffs={r.depth_cutoffs} failures={len(r.failures)} side_conditions={len(r.side_conditions)}"
    )
    print("failing first imports:", r.failing_first_imports())
    for f in r.failures:
        print("FAIL", f.render())
    for f in r.side_conditions:
        print("SIDE", f.render())
    if a.verbose:
        for d in r.deferred:
            print("DEFERRED", d)
        for s in r.sequences_sampled:
            print("SEQ")
            for st in s:
                print("   ", st)
    return 0 if r.ok else 1


if __name__ == "__main__":
    raise SystemExit(_main(sys.argv[1:]))
